
(** val negb : bool -> bool **)

let negb = function
| true -> false
| false -> true

type nat =
| O
| S of nat

type ('a, 'b) sum =
| Inl of 'a
| Inr of 'b

(** val fst : ('a1 * 'a2) -> 'a1 **)

let fst = function
| (x, _) -> x

(** val snd : ('a1 * 'a2) -> 'a2 **)

let snd = function
| (_, y) -> y

(** val length : 'a1 list -> nat **)

let rec length = function
| [] -> O
| _ :: l' -> S (length l')

(** val app : 'a1 list -> 'a1 list -> 'a1 list **)

let rec app l m =
  match l with
  | [] -> m
  | a0 :: l1 -> a0 :: (app l1 m)

type comparison =
| Eq
| Lt
| Gt

(** val compOpp : comparison -> comparison **)

let compOpp = function
| Eq -> Eq
| Lt -> Gt
| Gt -> Lt

module Coq__1 = struct
 (** val add : nat -> nat -> nat **)
 let rec add n0 m =
   match n0 with
   | O -> m
   | S p -> S (add p m)
end
include Coq__1

(** val sub : nat -> nat -> nat **)

let rec sub n0 m =
  match n0 with
  | O -> n0
  | S k -> (match m with
            | O -> n0
            | S l -> sub k l)

type positive =
| XI of positive
| XO of positive
| XH

type n =
| N0
| Npos of positive

type z =
| Z0
| Zpos of positive
| Zneg of positive

(** val bool_dec : bool -> bool -> bool **)

let bool_dec b1 b2 =
  if b1 then if b2 then true else false else if b2 then false else true

(** val eqb : bool -> bool -> bool **)

let eqb b1 b2 =
  if b1 then b2 else if b2 then false else true

module Nat =
 struct
  (** val pred : nat -> nat **)

  let pred n0 = match n0 with
  | O -> n0
  | S u -> u

  (** val eqb : nat -> nat -> bool **)

  let rec eqb n0 m =
    match n0 with
    | O -> (match m with
            | O -> true
            | S _ -> false)
    | S n' -> (match m with
               | O -> false
               | S m' -> eqb n' m')

  (** val leb : nat -> nat -> bool **)

  let rec leb n0 m =
    match n0 with
    | O -> true
    | S n' -> (match m with
               | O -> false
               | S m' -> leb n' m')

  (** val ltb : nat -> nat -> bool **)

  let ltb n0 m =
    leb (S n0) m

  (** val min : nat -> nat -> nat **)

  let rec min n0 m =
    match n0 with
    | O -> O
    | S n' -> (match m with
               | O -> O
               | S m' -> S (min n' m'))

  (** val divmod : nat -> nat -> nat -> nat -> nat * nat **)

  let rec divmod x y q0 u =
    match x with
    | O -> (q0, u)
    | S x' ->
      (match u with
       | O -> divmod x' y (S q0) y
       | S u' -> divmod x' y q0 u')

  (** val div : nat -> nat -> nat **)

  let div x y = match y with
  | O -> y
  | S y' -> fst (divmod x y' O y')
 end

module Pos =
 struct
  type mask =
  | IsNul
  | IsPos of positive
  | IsNeg
 end

module Coq_Pos =
 struct
  (** val succ : positive -> positive **)

  let rec succ = function
  | XI p -> XO (succ p)
  | XO p -> XI p
  | XH -> XO XH

  (** val add : positive -> positive -> positive **)

  let rec add x y =
    match x with
    | XI p ->
      (match y with
       | XI q0 -> XO (add_carry p q0)
       | XO q0 -> XI (add p q0)
       | XH -> XO (succ p))
    | XO p ->
      (match y with
       | XI q0 -> XI (add p q0)
       | XO q0 -> XO (add p q0)
       | XH -> XI p)
    | XH -> (match y with
             | XI q0 -> XO (succ q0)
             | XO q0 -> XI q0
             | XH -> XO XH)

  (** val add_carry : positive -> positive -> positive **)

  and add_carry x y =
    match x with
    | XI p ->
      (match y with
       | XI q0 -> XI (add_carry p q0)
       | XO q0 -> XO (add_carry p q0)
       | XH -> XI (succ p))
    | XO p ->
      (match y with
       | XI q0 -> XO (add_carry p q0)
       | XO q0 -> XI (add p q0)
       | XH -> XO (succ p))
    | XH ->
      (match y with
       | XI q0 -> XI (succ q0)
       | XO q0 -> XO (succ q0)
       | XH -> XI XH)

  (** val pred_double : positive -> positive **)

  let rec pred_double = function
  | XI p -> XI (XO p)
  | XO p -> XI (pred_double p)
  | XH -> XH

  type mask = Pos.mask =
  | IsNul
  | IsPos of positive
  | IsNeg

  (** val succ_double_mask : mask -> mask **)

  let succ_double_mask = function
  | IsNul -> IsPos XH
  | IsPos p -> IsPos (XI p)
  | IsNeg -> IsNeg

  (** val double_mask : mask -> mask **)

  let double_mask = function
  | IsPos p -> IsPos (XO p)
  | x0 -> x0

  (** val double_pred_mask : positive -> mask **)

  let double_pred_mask = function
  | XI p -> IsPos (XO (XO p))
  | XO p -> IsPos (XO (pred_double p))
  | XH -> IsNul

  (** val sub_mask : positive -> positive -> mask **)

  let rec sub_mask x y =
    match x with
    | XI p ->
      (match y with
       | XI q0 -> double_mask (sub_mask p q0)
       | XO q0 -> succ_double_mask (sub_mask p q0)
       | XH -> IsPos (XO p))
    | XO p ->
      (match y with
       | XI q0 -> succ_double_mask (sub_mask_carry p q0)
       | XO q0 -> double_mask (sub_mask p q0)
       | XH -> IsPos (pred_double p))
    | XH -> (match y with
             | XH -> IsNul
             | _ -> IsNeg)

  (** val sub_mask_carry : positive -> positive -> mask **)

  and sub_mask_carry x y =
    match x with
    | XI p ->
      (match y with
       | XI q0 -> succ_double_mask (sub_mask_carry p q0)
       | XO q0 -> double_mask (sub_mask p q0)
       | XH -> IsPos (pred_double p))
    | XO p ->
      (match y with
       | XI q0 -> double_mask (sub_mask_carry p q0)
       | XO q0 -> succ_double_mask (sub_mask_carry p q0)
       | XH -> double_pred_mask p)
    | XH -> IsNeg

  (** val sub : positive -> positive -> positive **)

  let sub x y =
    match sub_mask x y with
    | IsPos z0 -> z0
    | _ -> XH

  (** val mul : positive -> positive -> positive **)

  let rec mul x y =
    match x with
    | XI p -> add y (XO (mul p y))
    | XO p -> XO (mul p y)
    | XH -> y

  (** val iter : ('a1 -> 'a1) -> 'a1 -> positive -> 'a1 **)

  let rec iter f x = function
  | XI n' -> f (iter f (iter f x n') n')
  | XO n' -> iter f (iter f x n') n'
  | XH -> f x

  (** val pow : positive -> positive -> positive **)

  let pow x =
    iter (mul x) XH

  (** val size_nat : positive -> nat **)

  let rec size_nat = function
  | XI p0 -> S (size_nat p0)
  | XO p0 -> S (size_nat p0)
  | XH -> S O

  (** val size : positive -> positive **)

  let rec size = function
  | XI p0 -> succ (size p0)
  | XO p0 -> succ (size p0)
  | XH -> XH

  (** val compare_cont : comparison -> positive -> positive -> comparison **)

  let rec compare_cont r x y =
    match x with
    | XI p ->
      (match y with
       | XI q0 -> compare_cont r p q0
       | XO q0 -> compare_cont Gt p q0
       | XH -> Gt)
    | XO p ->
      (match y with
       | XI q0 -> compare_cont Lt p q0
       | XO q0 -> compare_cont r p q0
       | XH -> Gt)
    | XH -> (match y with
             | XH -> r
             | _ -> Lt)

  (** val compare : positive -> positive -> comparison **)

  let compare =
    compare_cont Eq

  (** val eqb : positive -> positive -> bool **)

  let rec eqb p q0 =
    match p with
    | XI p0 -> (match q0 with
                | XI q1 -> eqb p0 q1
                | _ -> false)
    | XO p0 -> (match q0 with
                | XO q1 -> eqb p0 q1
                | _ -> false)
    | XH -> (match q0 with
             | XH -> true
             | _ -> false)

  (** val ggcdn :
      nat -> positive -> positive -> positive * (positive * positive) **)

  let rec ggcdn n0 a0 b =
    match n0 with
    | O -> (XH, (a0, b))
    | S n1 ->
      (match a0 with
       | XI a' ->
         (match b with
          | XI b' ->
            (match compare a' b' with
             | Eq -> (a0, (XH, XH))
             | Lt ->
               let (g, p) = ggcdn n1 (sub b' a') a0 in
               let (ba, aa) = p in (g, (aa, (add aa (XO ba))))
             | Gt ->
               let (g, p) = ggcdn n1 (sub a' b') b in
               let (ab, bb) = p in (g, ((add bb (XO ab)), bb)))
          | XO b0 ->
            let (g, p) = ggcdn n1 a0 b0 in
            let (aa, bb) = p in (g, (aa, (XO bb)))
          | XH -> (XH, (a0, XH)))
       | XO a1 ->
         (match b with
          | XI _ ->
            let (g, p) = ggcdn n1 a1 b in
            let (aa, bb) = p in (g, ((XO aa), bb))
          | XO b0 -> let (g, p) = ggcdn n1 a1 b0 in ((XO g), p)
          | XH -> (XH, (a0, XH)))
       | XH -> (XH, (XH, b)))

  (** val ggcd : positive -> positive -> positive * (positive * positive) **)

  let ggcd a0 b =
    ggcdn (Coq__1.add (size_nat a0) (size_nat b)) a0 b

  (** val iter_op : ('a1 -> 'a1 -> 'a1) -> positive -> 'a1 -> 'a1 **)

  let rec iter_op op0 p a0 =
    match p with
    | XI p0 -> op0 a0 (iter_op op0 p0 (op0 a0 a0))
    | XO p0 -> iter_op op0 p0 (op0 a0 a0)
    | XH -> a0

  (** val to_nat : positive -> nat **)

  let to_nat x =
    iter_op Coq__1.add x (S O)

  (** val of_succ_nat : nat -> positive **)

  let rec of_succ_nat = function
  | O -> XH
  | S x -> succ (of_succ_nat x)
 end

module N =
 struct
  (** val add : n -> n -> n **)

  let add n0 m =
    match n0 with
    | N0 -> m
    | Npos p -> (match m with
                 | N0 -> n0
                 | Npos q0 -> Npos (Coq_Pos.add p q0))

  (** val mul : n -> n -> n **)

  let mul n0 m =
    match n0 with
    | N0 -> N0
    | Npos p -> (match m with
                 | N0 -> N0
                 | Npos q0 -> Npos (Coq_Pos.mul p q0))

  (** val to_nat : n -> nat **)

  let to_nat = function
  | N0 -> O
  | Npos p -> Coq_Pos.to_nat p

  (** val of_nat : nat -> n **)

  let of_nat = function
  | O -> N0
  | S n' -> Npos (Coq_Pos.of_succ_nat n')
 end

module Z =
 struct
  (** val double : z -> z **)

  let double = function
  | Z0 -> Z0
  | Zpos p -> Zpos (XO p)
  | Zneg p -> Zneg (XO p)

  (** val succ_double : z -> z **)

  let succ_double = function
  | Z0 -> Zpos XH
  | Zpos p -> Zpos (XI p)
  | Zneg p -> Zneg (Coq_Pos.pred_double p)

  (** val pred_double : z -> z **)

  let pred_double = function
  | Z0 -> Zneg XH
  | Zpos p -> Zpos (Coq_Pos.pred_double p)
  | Zneg p -> Zneg (XI p)

  (** val pos_sub : positive -> positive -> z **)

  let rec pos_sub x y =
    match x with
    | XI p ->
      (match y with
       | XI q0 -> double (pos_sub p q0)
       | XO q0 -> succ_double (pos_sub p q0)
       | XH -> Zpos (XO p))
    | XO p ->
      (match y with
       | XI q0 -> pred_double (pos_sub p q0)
       | XO q0 -> double (pos_sub p q0)
       | XH -> Zpos (Coq_Pos.pred_double p))
    | XH ->
      (match y with
       | XI q0 -> Zneg (XO q0)
       | XO q0 -> Zneg (Coq_Pos.pred_double q0)
       | XH -> Z0)

  (** val add : z -> z -> z **)

  let add x y =
    match x with
    | Z0 -> y
    | Zpos x' ->
      (match y with
       | Z0 -> x
       | Zpos y' -> Zpos (Coq_Pos.add x' y')
       | Zneg y' -> pos_sub x' y')
    | Zneg x' ->
      (match y with
       | Z0 -> x
       | Zpos y' -> pos_sub y' x'
       | Zneg y' -> Zneg (Coq_Pos.add x' y'))

  (** val opp : z -> z **)

  let opp = function
  | Z0 -> Z0
  | Zpos x0 -> Zneg x0
  | Zneg x0 -> Zpos x0

  (** val sub : z -> z -> z **)

  let sub m n0 =
    add m (opp n0)

  (** val mul : z -> z -> z **)

  let mul x y =
    match x with
    | Z0 -> Z0
    | Zpos x' ->
      (match y with
       | Z0 -> Z0
       | Zpos y' -> Zpos (Coq_Pos.mul x' y')
       | Zneg y' -> Zneg (Coq_Pos.mul x' y'))
    | Zneg x' ->
      (match y with
       | Z0 -> Z0
       | Zpos y' -> Zneg (Coq_Pos.mul x' y')
       | Zneg y' -> Zpos (Coq_Pos.mul x' y'))

  (** val pow_pos : z -> positive -> z **)

  let pow_pos z0 =
    Coq_Pos.iter (mul z0) (Zpos XH)

  (** val pow : z -> z -> z **)

  let pow x = function
  | Z0 -> Zpos XH
  | Zpos p -> pow_pos x p
  | Zneg _ -> Z0

  (** val compare : z -> z -> comparison **)

  let compare x y =
    match x with
    | Z0 -> (match y with
             | Z0 -> Eq
             | Zpos _ -> Lt
             | Zneg _ -> Gt)
    | Zpos x' -> (match y with
                  | Zpos y' -> Coq_Pos.compare x' y'
                  | _ -> Gt)
    | Zneg x' ->
      (match y with
       | Zneg y' -> compOpp (Coq_Pos.compare x' y')
       | _ -> Lt)

  (** val sgn : z -> z **)

  let sgn = function
  | Z0 -> Z0
  | Zpos _ -> Zpos XH
  | Zneg _ -> Zneg XH

  (** val leb : z -> z -> bool **)

  let leb x y =
    match compare x y with
    | Gt -> false
    | _ -> true

  (** val ltb : z -> z -> bool **)

  let ltb x y =
    match compare x y with
    | Lt -> true
    | _ -> false

  (** val eqb : z -> z -> bool **)

  let eqb x y =
    match x with
    | Z0 -> (match y with
             | Z0 -> true
             | _ -> false)
    | Zpos p -> (match y with
                 | Zpos q0 -> Coq_Pos.eqb p q0
                 | _ -> false)
    | Zneg p -> (match y with
                 | Zneg q0 -> Coq_Pos.eqb p q0
                 | _ -> false)

  (** val min : z -> z -> z **)

  let min n0 m =
    match compare n0 m with
    | Gt -> m
    | _ -> n0

  (** val abs : z -> z **)

  let abs = function
  | Zneg p -> Zpos p
  | x -> x

  (** val to_nat : z -> nat **)

  let to_nat = function
  | Zpos p -> Coq_Pos.to_nat p
  | _ -> O

  (** val of_nat : nat -> z **)

  let of_nat = function
  | O -> Z0
  | S n1 -> Zpos (Coq_Pos.of_succ_nat n1)

  (** val to_pos : z -> positive **)

  let to_pos = function
  | Zpos p -> p
  | _ -> XH

  (** val pos_div_eucl : positive -> z -> z * z **)

  let rec pos_div_eucl a0 b =
    match a0 with
    | XI a' ->
      let (q0, r) = pos_div_eucl a' b in
      let r' = add (mul (Zpos (XO XH)) r) (Zpos XH) in
      if ltb r' b
      then ((mul (Zpos (XO XH)) q0), r')
      else ((add (mul (Zpos (XO XH)) q0) (Zpos XH)), (sub r' b))
    | XO a' ->
      let (q0, r) = pos_div_eucl a' b in
      let r' = mul (Zpos (XO XH)) r in
      if ltb r' b
      then ((mul (Zpos (XO XH)) q0), r')
      else ((add (mul (Zpos (XO XH)) q0) (Zpos XH)), (sub r' b))
    | XH -> if leb (Zpos (XO XH)) b then (Z0, (Zpos XH)) else ((Zpos XH), Z0)

  (** val div_eucl : z -> z -> z * z **)

  let div_eucl a0 b =
    match a0 with
    | Z0 -> (Z0, Z0)
    | Zpos a' ->
      (match b with
       | Z0 -> (Z0, a0)
       | Zpos _ -> pos_div_eucl a' b
       | Zneg b' ->
         let (q0, r) = pos_div_eucl a' (Zpos b') in
         (match r with
          | Z0 -> ((opp q0), Z0)
          | _ -> ((opp (add q0 (Zpos XH))), (add b r))))
    | Zneg a' ->
      (match b with
       | Z0 -> (Z0, a0)
       | Zpos _ ->
         let (q0, r) = pos_div_eucl a' b in
         (match r with
          | Z0 -> ((opp q0), Z0)
          | _ -> ((opp (add q0 (Zpos XH))), (sub b r)))
       | Zneg b' -> let (q0, r) = pos_div_eucl a' (Zpos b') in (q0, (opp r)))

  (** val div : z -> z -> z **)

  let div a0 b =
    let (q0, _) = div_eucl a0 b in q0

  (** val modulo : z -> z -> z **)

  let modulo a0 b =
    let (_, r) = div_eucl a0 b in r

  (** val even : z -> bool **)

  let even = function
  | Z0 -> true
  | Zpos p -> (match p with
               | XO _ -> true
               | _ -> false)
  | Zneg p -> (match p with
               | XO _ -> true
               | _ -> false)

  (** val log2 : z -> z **)

  let log2 = function
  | Zpos p0 ->
    (match p0 with
     | XI p -> Zpos (Coq_Pos.size p)
     | XO p -> Zpos (Coq_Pos.size p)
     | XH -> Z0)
  | _ -> Z0

  (** val ggcd : z -> z -> z * (z * z) **)

  let ggcd a0 b =
    match a0 with
    | Z0 -> ((abs b), (Z0, (sgn b)))
    | Zpos a1 ->
      (match b with
       | Z0 -> ((abs a0), ((sgn a0), Z0))
       | Zpos b0 ->
         let (g, p) = Coq_Pos.ggcd a1 b0 in
         let (aa, bb) = p in ((Zpos g), ((Zpos aa), (Zpos bb)))
       | Zneg b0 ->
         let (g, p) = Coq_Pos.ggcd a1 b0 in
         let (aa, bb) = p in ((Zpos g), ((Zpos aa), (Zneg bb))))
    | Zneg a1 ->
      (match b with
       | Z0 -> ((abs a0), ((sgn a0), Z0))
       | Zpos b0 ->
         let (g, p) = Coq_Pos.ggcd a1 b0 in
         let (aa, bb) = p in ((Zpos g), ((Zneg aa), (Zpos bb)))
       | Zneg b0 ->
         let (g, p) = Coq_Pos.ggcd a1 b0 in
         let (aa, bb) = p in ((Zpos g), ((Zneg aa), (Zneg bb))))
 end

(** val zeq_bool : z -> z -> bool **)

let zeq_bool x y =
  match Z.compare x y with
  | Eq -> true
  | _ -> false

(** val hd : 'a1 -> 'a1 list -> 'a1 **)

let hd default = function
| [] -> default
| x :: _ -> x

(** val nth : nat -> 'a1 list -> 'a1 -> 'a1 **)

let rec nth n0 l default =
  match n0 with
  | O -> (match l with
          | [] -> default
          | x :: _ -> x)
  | S m -> (match l with
            | [] -> default
            | _ :: t -> nth m t default)

(** val nth_error : 'a1 list -> nat -> 'a1 option **)

let rec nth_error l = function
| O -> (match l with
        | [] -> None
        | x :: _ -> Some x)
| S n1 -> (match l with
           | [] -> None
           | _ :: l0 -> nth_error l0 n1)

(** val rev : 'a1 list -> 'a1 list **)

let rec rev = function
| [] -> []
| x :: l' -> app (rev l') (x :: [])

(** val concat : 'a1 list list -> 'a1 list **)

let rec concat = function
| [] -> []
| x :: l0 -> app x (concat l0)

(** val map : ('a1 -> 'a2) -> 'a1 list -> 'a2 list **)

let rec map f = function
| [] -> []
| a0 :: t -> (f a0) :: (map f t)

(** val flat_map : ('a1 -> 'a2 list) -> 'a1 list -> 'a2 list **)

let rec flat_map f = function
| [] -> []
| x :: t -> app (f x) (flat_map f t)

(** val fold_left : ('a1 -> 'a2 -> 'a1) -> 'a2 list -> 'a1 -> 'a1 **)

let rec fold_left f l a0 =
  match l with
  | [] -> a0
  | b :: t -> fold_left f t (f a0 b)

(** val fold_right : ('a2 -> 'a1 -> 'a1) -> 'a1 -> 'a2 list -> 'a1 **)

let rec fold_right f a0 = function
| [] -> a0
| b :: t -> f b (fold_right f a0 t)

(** val existsb : ('a1 -> bool) -> 'a1 list -> bool **)

let rec existsb f = function
| [] -> false
| a0 :: l0 -> (||) (f a0) (existsb f l0)

(** val forallb : ('a1 -> bool) -> 'a1 list -> bool **)

let rec forallb f = function
| [] -> true
| a0 :: l0 -> (&&) (f a0) (forallb f l0)

(** val filter : ('a1 -> bool) -> 'a1 list -> 'a1 list **)

let rec filter f = function
| [] -> []
| x :: l0 -> if f x then x :: (filter f l0) else filter f l0

(** val find : ('a1 -> bool) -> 'a1 list -> 'a1 option **)

let rec find f = function
| [] -> None
| x :: tl -> if f x then Some x else find f tl

(** val combine : 'a1 list -> 'a2 list -> ('a1 * 'a2) list **)

let rec combine l l' =
  match l with
  | [] -> []
  | x :: tl ->
    (match l' with
     | [] -> []
     | y :: tl' -> (x, y) :: (combine tl tl'))

(** val firstn : nat -> 'a1 list -> 'a1 list **)

let rec firstn n0 l =
  match n0 with
  | O -> []
  | S n1 -> (match l with
             | [] -> []
             | a0 :: l0 -> a0 :: (firstn n1 l0))

(** val skipn : nat -> 'a1 list -> 'a1 list **)

let rec skipn n0 l =
  match n0 with
  | O -> l
  | S n1 -> (match l with
             | [] -> []
             | _ :: l0 -> skipn n1 l0)

(** val seq : nat -> nat -> nat list **)

let rec seq start = function
| O -> []
| S len0 -> start :: (seq (S start) len0)

(** val repeat : 'a1 -> nat -> 'a1 list **)

let rec repeat x = function
| O -> []
| S k -> x :: (repeat x k)

type ascii =
| Ascii of bool * bool * bool * bool * bool * bool * bool * bool

(** val zero : ascii **)

let zero =
  Ascii (false, false, false, false, false, false, false, false)

(** val one : ascii **)

let one =
  Ascii (true, false, false, false, false, false, false, false)

(** val shift : bool -> ascii -> ascii **)

let shift c = function
| Ascii (a1, a2, a3, a4, a5, a6, a7, _) ->
  Ascii (c, a1, a2, a3, a4, a5, a6, a7)

(** val ascii_dec : ascii -> ascii -> bool **)

let ascii_dec a0 b =
  let Ascii (b0, b1, b2, b3, b4, b5, b6, b7) = a0 in
  let Ascii (b8, b9, b10, b11, b12, b13, b14, b15) = b in
  if bool_dec b0 b8
  then if bool_dec b1 b9
       then if bool_dec b2 b10
            then if bool_dec b3 b11
                 then if bool_dec b4 b12
                      then if bool_dec b5 b13
                           then if bool_dec b6 b14
                                then bool_dec b7 b15
                                else false
                           else false
                      else false
                 else false
            else false
       else false
  else false

(** val eqb0 : ascii -> ascii -> bool **)

let eqb0 a0 b =
  let Ascii (a1, a2, a3, a4, a5, a6, a7, a8) = a0 in
  let Ascii (b0, b1, b2, b3, b4, b5, b6, b7) = b in
  if if if if if if if eqb a1 b0 then eqb a2 b1 else false
                 then eqb a3 b2
                 else false
              then eqb a4 b3
              else false
           then eqb a5 b4
           else false
        then eqb a6 b5
        else false
     then eqb a7 b6
     else false
  then eqb a8 b7
  else false

(** val ascii_of_pos : positive -> ascii **)

let ascii_of_pos =
  let rec loop n0 p =
    match n0 with
    | O -> zero
    | S n' ->
      (match p with
       | XI p' -> shift true (loop n' p')
       | XO p' -> shift false (loop n' p')
       | XH -> one)
  in loop (S (S (S (S (S (S (S (S O))))))))

(** val ascii_of_N : n -> ascii **)

let ascii_of_N = function
| N0 -> zero
| Npos p -> ascii_of_pos p

(** val ascii_of_nat : nat -> ascii **)

let ascii_of_nat a0 =
  ascii_of_N (N.of_nat a0)

(** val n_of_digits : bool list -> n **)

let rec n_of_digits = function
| [] -> N0
| b :: l' ->
  N.add (if b then Npos XH else N0) (N.mul (Npos (XO XH)) (n_of_digits l'))

(** val n_of_ascii : ascii -> n **)

let n_of_ascii = function
| Ascii (a1, a2, a3, a4, a5, a6, a7, a8) ->
  n_of_digits
    (a1 :: (a2 :: (a3 :: (a4 :: (a5 :: (a6 :: (a7 :: (a8 :: []))))))))

(** val nat_of_ascii : ascii -> nat **)

let nat_of_ascii a0 =
  N.to_nat (n_of_ascii a0)

type string =
| EmptyString
| String of ascii * string

(** val eqb1 : string -> string -> bool **)

let rec eqb1 s1 s2 =
  match s1 with
  | EmptyString ->
    (match s2 with
     | EmptyString -> true
     | String (_, _) -> false)
  | String (c1, s1') ->
    (match s2 with
     | EmptyString -> false
     | String (c2, s2') -> if eqb0 c1 c2 then eqb1 s1' s2' else false)

(** val append : string -> string -> string **)

let rec append s1 s2 =
  match s1 with
  | EmptyString -> s2
  | String (c, s1') -> String (c, (append s1' s2))

(** val length0 : string -> nat **)

let rec length0 = function
| EmptyString -> O
| String (_, s') -> S (length0 s')

(** val get : nat -> string -> ascii option **)

let rec get n0 = function
| EmptyString -> None
| String (c, s') -> (match n0 with
                     | O -> Some c
                     | S n' -> get n' s')

(** val substring : nat -> nat -> string -> string **)

let rec substring n0 m s =
  match n0 with
  | O ->
    (match m with
     | O -> EmptyString
     | S m' ->
       (match s with
        | EmptyString -> s
        | String (c, s') -> String (c, (substring O m' s'))))
  | S n' ->
    (match s with
     | EmptyString -> s
     | String (_, s') -> substring n' m s')

(** val prefix : string -> string -> bool **)

let rec prefix s1 s2 =
  match s1 with
  | EmptyString -> true
  | String (a0, s1') ->
    (match s2 with
     | EmptyString -> false
     | String (b, s2') -> if ascii_dec a0 b then prefix s1' s2' else false)

type q = { qnum : z; qden : positive }

(** val inject_Z : z -> q **)

let inject_Z x =
  { qnum = x; qden = XH }

(** val qcompare : q -> q -> comparison **)

let qcompare p q0 =
  Z.compare (Z.mul p.qnum (Zpos q0.qden)) (Z.mul q0.qnum (Zpos p.qden))

(** val qeq_bool : q -> q -> bool **)

let qeq_bool x y =
  zeq_bool (Z.mul x.qnum (Zpos y.qden)) (Z.mul y.qnum (Zpos x.qden))

(** val qle_bool : q -> q -> bool **)

let qle_bool x y =
  Z.leb (Z.mul x.qnum (Zpos y.qden)) (Z.mul y.qnum (Zpos x.qden))

(** val qplus : q -> q -> q **)

let qplus x y =
  { qnum = (Z.add (Z.mul x.qnum (Zpos y.qden)) (Z.mul y.qnum (Zpos x.qden)));
    qden = (Coq_Pos.mul x.qden y.qden) }

(** val qmult : q -> q -> q **)

let qmult x y =
  { qnum = (Z.mul x.qnum y.qnum); qden = (Coq_Pos.mul x.qden y.qden) }

(** val qopp : q -> q **)

let qopp x =
  { qnum = (Z.opp x.qnum); qden = x.qden }

(** val qminus : q -> q -> q **)

let qminus x y =
  qplus x (qopp y)

(** val qinv : q -> q **)

let qinv x =
  match x.qnum with
  | Z0 -> { qnum = Z0; qden = XH }
  | Zpos p -> { qnum = (Zpos x.qden); qden = p }
  | Zneg p -> { qnum = (Zneg x.qden); qden = p }

(** val qdiv : q -> q -> q **)

let qdiv x y =
  qmult x (qinv y)

(** val qred : q -> q **)

let qred q0 =
  let { qnum = q1; qden = q2 } = q0 in
  let (r1, r2) = snd (Z.ggcd q1 (Zpos q2)) in
  { qnum = r1; qden = (Z.to_pos r2) }

(** val qabs : q -> q **)

let qabs x =
  let { qnum = n0; qden = d } = x in { qnum = (Z.abs n0); qden = d }

(** val qfloor : q -> z **)

let qfloor x =
  let { qnum = n0; qden = d } = x in Z.div n0 (Zpos d)

type v =
| VZ of z
| VS of string
| VL of v list

(** val vB : bool -> v **)

let vB b =
  VZ (if b then Zpos XH else Z0)

(** val vQ : q -> v **)

let vQ q0 =
  VL ((VZ q0.qnum) :: ((VZ (Zpos q0.qden)) :: []))

(** val vErr : string -> v **)

let vErr s =
  VL ((VS (String ((Ascii (true, false, true, false, false, false, true,
    false)), (String ((Ascii (false, true, false, false, true, false, true,
    false)), (String ((Ascii (false, true, false, false, true, false, true,
    false)), EmptyString))))))) :: ((VS s) :: []))

(** val vOk : v -> v **)

let vOk v0 =
  VL ((VS (String ((Ascii (true, true, true, true, false, false, true,
    false)), (String ((Ascii (true, true, false, true, false, false, true,
    false)), EmptyString))))) :: (v0 :: []))

(** val getZ : v -> z **)

let getZ = function
| VZ z0 -> z0
| _ -> Z0

(** val getS : v -> string **)

let getS = function
| VS s -> s
| _ -> EmptyString

(** val getL : v -> v list **)

let getL = function
| VL l -> l
| _ -> []

(** val getQ : v -> q **)

let getQ = function
| VZ n0 -> inject_Z n0
| VS _ -> { qnum = Z0; qden = XH }
| VL l ->
  (match l with
   | [] -> { qnum = Z0; qden = XH }
   | v1 :: l0 ->
     (match v1 with
      | VZ n0 ->
        (match l0 with
         | [] -> { qnum = Z0; qden = XH }
         | v2 :: l1 ->
           (match v2 with
            | VZ d ->
              (match l1 with
               | [] ->
                 (match d with
                  | Zpos p -> { qnum = n0; qden = p }
                  | _ -> { qnum = Z0; qden = XH })
               | _ :: _ -> { qnum = Z0; qden = XH })
            | _ -> { qnum = Z0; qden = XH }))
      | _ -> { qnum = Z0; qden = XH }))

(** val nthV : nat -> v -> v **)

let nthV n0 v0 =
  nth n0 (getL v0) (VZ Z0)

type 'a res =
| Ok of 'a
| Err of string

(** val bind : 'a1 res -> ('a1 -> 'a2 res) -> 'a2 res **)

let bind r f =
  match r with
  | Ok a0 -> f a0
  | Err e -> Err e

(** val mapM : ('a1 -> 'a2 res) -> 'a1 list -> 'a2 list res **)

let rec mapM f = function
| [] -> Ok []
| x :: t -> bind (f x) (fun y -> bind (mapM f t) (fun ys -> Ok (y :: ys)))

(** val vres : v res -> v **)

let vres = function
| Ok v0 -> vOk v0
| Err e -> vErr e

(** val qltb : q -> q -> bool **)

let qltb a0 b =
  Z.ltb (Z.mul a0.qnum (Zpos b.qden)) (Z.mul b.qnum (Zpos a0.qden))

(** val qleb : q -> q -> bool **)

let qleb =
  qle_bool

(** val qeqb : q -> q -> bool **)

let qeqb =
  qeq_bool

(** val qsqr : q -> q **)

let qsqr a0 =
  qmult a0 a0

(** val sp : ascii **)

let sp =
  Ascii (false, false, false, false, false, true, false, false)

(** val nl : ascii **)

let nl =
  Ascii (false, true, false, true, false, false, false, false)

(** val is_space : ascii -> bool **)

let is_space c =
  let n0 = nat_of_ascii c in
  (||)
    ((||)
      (Nat.eqb n0 (S (S (S (S (S (S (S (S (S (S (S (S (S (S (S (S (S (S (S (S
        (S (S (S (S (S (S (S (S (S (S (S (S O)))))))))))))))))))))))))))))))))
      ((&&) (Nat.leb (S (S (S (S (S (S (S (S (S O))))))))) n0)
        (Nat.leb n0 (S (S (S (S (S (S (S (S (S (S (S (S (S O))))))))))))))))
    ((&&)
      (Nat.leb (S (S (S (S (S (S (S (S (S (S (S (S (S (S (S (S (S (S (S (S (S
        (S (S (S (S (S (S (S O)))))))))))))))))))))))))))) n0)
      (Nat.leb n0 (S (S (S (S (S (S (S (S (S (S (S (S (S (S (S (S (S (S (S (S
        (S (S (S (S (S (S (S (S (S (S (S O)))))))))))))))))))))))))))))))))

(** val is_digit : ascii -> bool **)

let is_digit c =
  let n0 = nat_of_ascii c in
  (&&)
    (Nat.leb (S (S (S (S (S (S (S (S (S (S (S (S (S (S (S (S (S (S (S (S (S
      (S (S (S (S (S (S (S (S (S (S (S (S (S (S (S (S (S (S (S (S (S (S (S (S
      (S (S (S O)))))))))))))))))))))))))))))))))))))))))))))))) n0)
    (Nat.leb n0 (S (S (S (S (S (S (S (S (S (S (S (S (S (S (S (S (S (S (S (S
      (S (S (S (S (S (S (S (S (S (S (S (S (S (S (S (S (S (S (S (S (S (S (S (S
      (S (S (S (S (S (S (S (S (S (S (S (S (S
      O))))))))))))))))))))))))))))))))))))))))))))))))))))))))))

(** val digit_val : ascii -> z **)

let digit_val c =
  Z.sub (Z.of_nat (nat_of_ascii c)) (Zpos (XO (XO (XO (XO (XI XH))))))

(** val lstrip : string -> string **)

let rec lstrip s = match s with
| EmptyString -> EmptyString
| String (c, t) -> if is_space c then lstrip t else s

(** val rev_str : string -> string -> string **)

let rec rev_str acc = function
| EmptyString -> acc
| String (c, t) -> rev_str (String (c, acc)) t

(** val rstrip : string -> string **)

let rstrip s =
  rev_str EmptyString (lstrip (rev_str EmptyString s))

(** val strip : string -> string **)

let strip s =
  rstrip (lstrip s)

(** val slice : nat -> nat -> string -> string **)

let slice a0 b s =
  substring a0 (sub b a0) s

(** val char_at : nat -> string -> string **)

let char_at i s =
  substring i (S O) s

(** val repeat_char : ascii -> nat -> string **)

let rec repeat_char c = function
| O -> EmptyString
| S k -> String (c, (repeat_char c k))

(** val ljust : nat -> string -> string **)

let ljust w s =
  append s (repeat_char sp (sub w (length0 s)))

(** val rjust : nat -> string -> string **)

let rjust w s =
  append (repeat_char sp (sub w (length0 s))) s

(** val center : nat -> string -> string **)

let center w s =
  let pad = sub w (length0 s) in
  let l = Nat.div pad (S (S O)) in
  append (repeat_char sp l) (append s (repeat_char sp (sub pad l)))

(** val startswith : string -> string -> bool **)

let startswith =
  prefix

(** val str_nonempty : string -> bool **)

let str_nonempty = function
| EmptyString -> false
| String (_, _) -> true

(** val is_substring : string -> string -> bool **)

let rec is_substring a0 b =
  (||) (prefix a0 b)
    (match b with
     | EmptyString -> false
     | String (_, t) -> is_substring a0 t)

(** val upto_nl : string -> string **)

let rec upto_nl = function
| EmptyString -> EmptyString
| String (c, t) -> if eqb0 c nl then EmptyString else String (c, (upto_nl t))

(** val split_nl_aux : string -> string -> string list **)

let rec split_nl_aux cur = function
| EmptyString -> (rev_str EmptyString cur) :: []
| String (c, t) ->
  if eqb0 c nl
  then (rev_str EmptyString cur) :: (split_nl_aux EmptyString t)
  else split_nl_aux (String (c, cur)) t

(** val split_nl : string -> string list **)

let split_nl s =
  split_nl_aux EmptyString s

(** val readlines_aux : string -> string -> string list **)

let rec readlines_aux cur = function
| EmptyString ->
  (match cur with
   | EmptyString -> []
   | String (_, _) -> (rev_str EmptyString cur) :: [])
| String (c, t) ->
  if eqb0 c nl
  then (rev_str EmptyString (String (c, cur))) :: (readlines_aux EmptyString
                                                    t)
  else readlines_aux (String (c, cur)) t

(** val readlines : string -> string list **)

let readlines s =
  readlines_aux EmptyString s

(** val count_sub_aux : nat -> string -> string -> nat **)

let rec count_sub_aux fuel p s =
  match fuel with
  | O -> O
  | S f ->
    (match s with
     | EmptyString -> O
     | String (_, t) ->
       if prefix p s
       then S (count_sub_aux f p (substring (length0 p) (length0 s) s))
       else count_sub_aux f p t)

(** val count_sub : string -> string -> nat **)

let count_sub p s =
  count_sub_aux (S (length0 s)) p s

(** val digits_pos_aux : nat -> z -> string -> string **)

let rec digits_pos_aux fuel n0 acc =
  match fuel with
  | O -> acc
  | S f ->
    let acc' = String
      ((ascii_of_nat
         (add (Z.to_nat (Z.modulo n0 (Zpos (XO (XI (XO XH)))))) (S (S (S (S
           (S (S (S (S (S (S (S (S (S (S (S (S (S (S (S (S (S (S (S (S (S (S
           (S (S (S (S (S (S (S (S (S (S (S (S (S (S (S (S (S (S (S (S (S (S
           O)))))))))))))))))))))))))))))))))))))))))))))))))), acc)
    in
    if Z.ltb n0 (Zpos (XO (XI (XO XH))))
    then acc'
    else digits_pos_aux f (Z.div n0 (Zpos (XO (XI (XO XH))))) acc'

(** val digits : z -> string **)

let digits n0 =
  digits_pos_aux (S (Z.to_nat (Z.log2 n0))) n0 EmptyString

(** val str_of_Z : z -> string **)

let str_of_Z n0 =
  if Z.ltb n0 Z0
  then String ((Ascii (true, false, true, true, false, true, false, false)),
         (digits (Z.opp n0)))
  else digits n0

(** val all_digits : string -> bool **)

let rec all_digits = function
| EmptyString -> true
| String (c, t) -> (&&) (is_digit c) (all_digits t)

(** val digits_val : z -> string -> z **)

let rec digits_val acc = function
| EmptyString -> acc
| String (c, t) ->
  digits_val (Z.add (Z.mul acc (Zpos (XO (XI (XO XH))))) (digit_val c)) t

type 'a numparse =
| NumOk of 'a
| NumBad
| NumOutOfModel

(** val has_char : ascii -> string -> bool **)

let rec has_char c = function
| EmptyString -> false
| String (d, t) -> (||) (eqb0 c d) (has_char c t)

(** val exotic_numeral : string -> bool **)

let exotic_numeral s =
  (||)
    ((||)
      ((||)
        ((||)
          ((||)
            ((||)
              (has_char (Ascii (true, true, true, true, true, false, true,
                false)) s)
              (has_char (Ascii (true, false, true, false, false, true, true,
                false)) s))
            (has_char (Ascii (true, false, true, false, false, false, true,
              false)) s))
          (has_char (Ascii (false, true, true, true, false, true, true,
            false)) s))
        (has_char (Ascii (false, true, true, true, false, false, true,
          false)) s))
      (has_char (Ascii (true, false, false, true, false, true, true, false))
        s))
    (has_char (Ascii (true, false, false, true, false, false, true, false)) s)

(** val split_sign : string -> bool * string **)

let split_sign s = match s with
| EmptyString -> (false, s)
| String (a0, t) ->
  let Ascii (b, b0, b1, b2, b3, b4, b5, b6) = a0 in
  if b
  then if b0
       then if b1
            then (false, s)
            else if b2
                 then if b3
                      then (false, s)
                      else if b4
                           then if b5
                                then (false, s)
                                else if b6 then (false, s) else (false, t)
                           else (false, s)
                 else (false, s)
       else if b1
            then if b2
                 then if b3
                      then (false, s)
                      else if b4
                           then if b5
                                then (false, s)
                                else if b6 then (false, s) else (true, t)
                           else (false, s)
                 else (false, s)
            else (false, s)
  else (false, s)

(** val parse_int : string -> z numparse **)

let parse_int s0 =
  let s = strip s0 in
  let (neg, body) = split_sign s in
  if (&&) (str_nonempty body) (all_digits body)
  then NumOk (if neg then Z.opp (digits_val Z0 body) else digits_val Z0 body)
  else if exotic_numeral s then NumOutOfModel else NumBad

(** val split_dot : string -> string * string option **)

let rec split_dot = function
| EmptyString -> (EmptyString, None)
| String (c, t) ->
  if eqb0 c (Ascii (false, true, true, true, false, true, false, false))
  then (EmptyString, (Some t))
  else let (a0, b) = split_dot t in ((String (c, a0)), b)

(** val qfloor' : q -> z **)

let qfloor' q0 =
  Z.div q0.qnum (Zpos q0.qden)

(** val round_half_even : q -> z **)

let round_half_even q0 =
  let f = qfloor' q0 in
  let r = qminus q0 (inject_Z f) in
  (match qcompare r { qnum = (Zpos XH); qden = (XO XH) } with
   | Eq -> if Z.even f then f else Z.add f (Zpos XH)
   | Lt -> f
   | Gt -> Z.add f (Zpos XH))

(** val qpow2 : z -> q **)

let qpow2 = function
| Z0 -> { qnum = (Zpos XH); qden = XH }
| Zpos p -> inject_Z (Z.pow (Zpos (XO XH)) (Zpos p))
| Zneg p -> { qnum = (Zpos XH); qden = (Coq_Pos.pow (XO XH) p) }

(** val b64 : q -> q **)

let b64 q0 =
  if qeq_bool q0 { qnum = Z0; qden = XH }
  then { qnum = Z0; qden = XH }
  else let a0 = qabs q0 in
       let e0 =
         Z.sub (Z.sub (Z.log2 a0.qnum) (Z.log2 (Zpos a0.qden))) (Zpos (XO (XO
           (XI (XO (XI XH))))))
       in
       let e =
         if qle_bool
              (inject_Z
                (Z.pow (Zpos (XO XH)) (Zpos (XO (XO (XI (XO (XI XH))))))))
              (qmult a0 (qpow2 (Z.opp e0)))
         then e0
         else Z.sub e0 (Zpos XH)
       in
       let m = round_half_even (qmult a0 (qpow2 (Z.opp e))) in
       let v0 = qred (qmult (inject_Z m) (qpow2 e)) in
       if qle_bool { qnum = Z0; qden = XH } q0 then v0 else qred (qopp v0)

(** val pow10 : nat -> z **)

let pow10 n0 =
  Z.pow (Zpos (XO (XI (XO XH)))) (Z.of_nat n0)

(** val parse_float : string -> q numparse **)

let parse_float s0 =
  let s = strip s0 in
  let (neg, body) = split_sign s in
  let (ip, fp) = split_dot body in
  let fpart = match fp with
              | Some f -> f
              | None -> EmptyString in
  if (&&) ((&&) (all_digits ip) (all_digits fpart))
       ((||) (str_nonempty ip) (str_nonempty fpart))
  then let n0 = digits_val Z0 (append ip fpart) in
       let q0 = qred { qnum = n0; qden = (Z.to_pos (pow10 (length0 fpart))) }
       in
       NumOk (b64 (if neg then qred (qopp q0) else q0))
  else if exotic_numeral s then NumOutOfModel else NumBad

(** val pad_left_zeros : nat -> string -> string **)

let pad_left_zeros w s =
  append
    (repeat_char (Ascii (false, false, false, false, true, true, false,
      false)) (sub w (length0 s))) s

(** val fmt_fixed_body : nat -> q -> string **)

let fmt_fixed_body p q0 =
  let n0 = round_half_even (qmult (qabs q0) (inject_Z (pow10 p))) in
  let ip = Z.div n0 (pow10 p) in
  let fp = Z.modulo n0 (pow10 p) in
  let sgn0 =
    if qltb q0 { qnum = Z0; qden = XH }
    then String ((Ascii (true, false, true, true, false, true, false,
           false)), EmptyString)
    else EmptyString
  in
  (match p with
   | O -> append sgn0 (digits ip)
   | S _ ->
     append sgn0
       (append (digits ip)
         (append (String ((Ascii (false, true, true, true, false, true,
           false, false)), EmptyString)) (pad_left_zeros p (digits fp)))))

(** val fmt_fixed : nat -> nat -> q -> string **)

let fmt_fixed w p q0 =
  rjust w (fmt_fixed_body p q0)

(** val round_dec : nat -> q -> q **)

let round_dec k q0 =
  qred { qnum =
    (if qltb q0 { qnum = Z0; qden = XH }
     then Z.opp (round_half_even (qmult (qabs q0) (inject_Z (pow10 k))))
     else round_half_even (qmult q0 (inject_Z (pow10 k)))); qden =
    (Z.to_pos (pow10 k)) }

(** val mem : ('a1 -> 'a1 -> bool) -> 'a1 -> 'a1 list -> bool **)

let mem eqb2 x l =
  existsb (eqb2 x) l

(** val dedup_aux :
    ('a1 -> 'a1 -> bool) -> 'a1 list -> 'a1 list -> 'a1 list **)

let rec dedup_aux eqb2 seen = function
| [] -> []
| x :: t ->
  if mem eqb2 x seen
  then dedup_aux eqb2 seen t
  else x :: (dedup_aux eqb2 (x :: seen) t)

(** val dedup_keep_first : ('a1 -> 'a1 -> bool) -> 'a1 list -> 'a1 list **)

let dedup_keep_first eqb2 l =
  dedup_aux eqb2 [] l

(** val insert_sorted :
    ('a1 -> 'a1 -> bool) -> 'a1 -> 'a1 list -> 'a1 list **)

let rec insert_sorted leb0 x l = match l with
| [] -> x :: []
| y :: t -> if leb0 x y then x :: l else y :: (insert_sorted leb0 x t)

(** val sort_by : ('a1 -> 'a1 -> bool) -> 'a1 list -> 'a1 list **)

let sort_by leb0 l =
  fold_right (insert_sorted leb0) [] l

(** val seqZ : z -> nat -> z list **)

let rec seqZ start = function
| O -> []
| S k -> start :: (seqZ (Z.add start (Zpos XH)) k)

(** val repeat_str : string -> nat -> string **)

let rec repeat_str s = function
| O -> EmptyString
| S k -> append s (repeat_str s k)

type blank_default =
| DConst of q
| DChainFromSegID
| DElementGuess

type align =
| ARight
| ALeft
| ACenter

type piece =
| PLit of string
| PField of nat * align * nat
| PFixed of nat * align * nat * nat
| PAtomName
| PXyz of nat

type val0 =
| VInt of z
| VReal of q
| VText of string
| VBlob
| VNull

type row = val0 list

(** val capri_src : q -> q -> q -> string -> string res **)

let capri_src fnat_1 lrmsd_2 irmsd_3 system_4 =
  if eqb1 system_4 (String ((Ascii (false, false, false, false, true, true,
       true, false)), (String ((Ascii (false, true, false, false, true, true,
       true, false)), (String ((Ascii (true, true, true, true, false, true,
       true, false)), (String ((Ascii (false, false, true, false, true, true,
       true, false)), (String ((Ascii (true, false, true, false, false, true,
       true, false)), (String ((Ascii (true, false, false, true, false, true,
       true, false)), (String ((Ascii (false, true, true, true, false, true,
       true, false)), (String ((Ascii (true, false, true, true, false, true,
       false, false)), (String ((Ascii (false, false, false, false, true,
       true, true, false)), (String ((Ascii (false, true, false, false, true,
       true, true, false)), (String ((Ascii (true, true, true, true, false,
       true, true, false)), (String ((Ascii (false, false, true, false, true,
       true, true, false)), (String ((Ascii (true, false, true, false, false,
       true, true, false)), (String ((Ascii (true, false, false, true, false,
       true, true, false)), (String ((Ascii (false, true, true, true, false,
       true, true, false)), EmptyString))))))))))))))))))))))))))))))
  then if (||)
            (qltb fnat_1 { qnum = (Zpos (XI (XO (XI (XI (XO (XO (XI (XI (XO
              (XO (XI (XI (XO (XO (XI (XI (XO (XO (XI (XI (XO (XO (XI (XI (XO
              (XO (XI (XI (XO (XO (XI (XI (XO (XO (XI (XI (XO (XO (XI (XI (XO
              (XO (XI (XI (XO (XO (XI (XI (XO (XO (XI
              XH)))))))))))))))))))))))))))))))))))))))))))))))))))); qden =
              (XO (XO (XO (XO (XO (XO (XO (XO (XO (XO (XO (XO (XO (XO (XO (XO
              (XO (XO (XO (XO (XO (XO (XO (XO (XO (XO (XO (XO (XO (XO (XO (XO
              (XO (XO (XO (XO (XO (XO (XO (XO (XO (XO (XO (XO (XO (XO (XO (XO
              (XO (XO (XO (XO (XO (XO (XO
              XH))))))))))))))))))))))))))))))))))))))))))))))))))))))) })
            ((&&)
              (qltb { qnum = (Zpos (XO (XI (XO XH)))); qden = XH } lrmsd_2)
              (qltb { qnum = (Zpos (XO (XO XH))); qden = XH } irmsd_3))
       then let label_5 = String ((Ascii (true, false, false, true, false,
              true, true, false)), (String ((Ascii (false, true, true, true,
              false, true, true, false)), (String ((Ascii (true, true, false,
              false, false, true, true, false)), (String ((Ascii (true, true,
              true, true, false, true, true, false)), (String ((Ascii (false,
              true, false, false, true, true, true, false)), (String ((Ascii
              (false, true, false, false, true, true, true, false)), (String
              ((Ascii (true, false, true, false, false, true, true, false)),
              (String ((Ascii (true, true, false, false, false, true, true,
              false)), (String ((Ascii (false, false, true, false, true,
              true, true, false)), EmptyString)))))))))))))))))
            in
            Ok label_5
       else if (||)
                 ((&&)
                   ((&&)
                     (qleb { qnum = (Zpos (XI (XO (XI (XI (XO (XO (XI (XI (XO
                       (XO (XI (XI (XO (XO (XI (XI (XO (XO (XI (XI (XO (XO
                       (XI (XI (XO (XO (XI (XI (XO (XO (XI (XI (XO (XO (XI
                       (XI (XO (XO (XI (XI (XO (XO (XI (XI (XO (XO (XI (XI
                       (XO (XO (XI
                       XH))))))))))))))))))))))))))))))))))))))))))))))))))));
                       qden = (XO (XO (XO (XO (XO (XO (XO (XO (XO (XO (XO (XO
                       (XO (XO (XO (XO (XO (XO (XO (XO (XO (XO (XO (XO (XO
                       (XO (XO (XO (XO (XO (XO (XO (XO (XO (XO (XO (XO (XO
                       (XO (XO (XO (XO (XO (XO (XO (XO (XO (XO (XO (XO (XO
                       (XO (XO (XO (XO
                       XH))))))))))))))))))))))))))))))))))))))))))))))))))))))) }
                       fnat_1)
                     (qltb fnat_1 { qnum = (Zpos (XI (XI (XO (XO (XI (XI (XO
                       (XO (XI (XI (XO (XO (XI (XI (XO (XO (XI (XI (XO (XO
                       (XI (XI (XO (XO (XI (XI (XO (XO (XI (XI (XO (XO (XI
                       (XI (XO (XO (XI (XI (XO (XO (XI (XI (XO (XO (XI (XI
                       (XO (XO (XI (XI (XO (XO
                       XH)))))))))))))))))))))))))))))))))))))))))))))))))))));
                       qden = (XO (XO (XO (XO (XO (XO (XO (XO (XO (XO (XO (XO
                       (XO (XO (XO (XO (XO (XO (XO (XO (XO (XO (XO (XO (XO
                       (XO (XO (XO (XO (XO (XO (XO (XO (XO (XO (XO (XO (XO
                       (XO (XO (XO (XO (XO (XO (XO (XO (XO (XO (XO (XO (XO
                       (XO (XO (XO
                       XH)))))))))))))))))))))))))))))))))))))))))))))))))))))) }))
                   ((||)
                     (qleb lrmsd_2 { qnum = (Zpos (XO (XI (XO XH)))); qden =
                       XH })
                     (qleb irmsd_3 { qnum = (Zpos (XO (XO XH))); qden = XH })))
                 ((&&)
                   ((&&)
                     (qleb { qnum = (Zpos (XI (XI (XO (XO (XI (XI (XO (XO (XI
                       (XI (XO (XO (XI (XI (XO (XO (XI (XI (XO (XO (XI (XI
                       (XO (XO (XI (XI (XO (XO (XI (XI (XO (XO (XI (XI (XO
                       (XO (XI (XI (XO (XO (XI (XI (XO (XO (XI (XI (XO (XO
                       (XI (XI (XO (XO
                       XH)))))))))))))))))))))))))))))))))))))))))))))))))))));
                       qden = (XO (XO (XO (XO (XO (XO (XO (XO (XO (XO (XO (XO
                       (XO (XO (XO (XO (XO (XO (XO (XO (XO (XO (XO (XO (XO
                       (XO (XO (XO (XO (XO (XO (XO (XO (XO (XO (XO (XO (XO
                       (XO (XO (XO (XO (XO (XO (XO (XO (XO (XO (XO (XO (XO
                       (XO (XO (XO
                       XH)))))))))))))))))))))))))))))))))))))))))))))))))))))) }
                       fnat_1)
                     (qltb { qnum = (Zpos (XI (XO XH))); qden = XH } lrmsd_2))
                   (qltb { qnum = (Zpos (XO XH)); qden = XH } irmsd_3))
            then let label_6 = String ((Ascii (true, false, false, false,
                   false, true, true, false)), (String ((Ascii (true, true,
                   false, false, false, true, true, false)), (String ((Ascii
                   (true, true, false, false, false, true, true, false)),
                   (String ((Ascii (true, false, true, false, false, true,
                   true, false)), (String ((Ascii (false, false, false,
                   false, true, true, true, false)), (String ((Ascii (false,
                   false, true, false, true, true, true, false)), (String
                   ((Ascii (true, false, false, false, false, true, true,
                   false)), (String ((Ascii (false, true, false, false,
                   false, true, true, false)), (String ((Ascii (false, false,
                   true, true, false, true, true, false)), (String ((Ascii
                   (true, false, true, false, false, true, true, false)),
                   EmptyString)))))))))))))))))))
                 in
                 Ok label_6
            else if (||)
                      ((&&)
                        ((&&)
                          (qleb { qnum = (Zpos (XI (XI (XO (XO (XI (XI (XO
                            (XO (XI (XI (XO (XO (XI (XI (XO (XO (XI (XI (XO
                            (XO (XI (XI (XO (XO (XI (XI (XO (XO (XI (XI (XO
                            (XO (XI (XI (XO (XO (XI (XI (XO (XO (XI (XI (XO
                            (XO (XI (XI (XO (XO (XI (XI (XO (XO
                            XH)))))))))))))))))))))))))))))))))))))))))))))))))))));
                            qden = (XO (XO (XO (XO (XO (XO (XO (XO (XO (XO
                            (XO (XO (XO (XO (XO (XO (XO (XO (XO (XO (XO (XO
                            (XO (XO (XO (XO (XO (XO (XO (XO (XO (XO (XO (XO
                            (XO (XO (XO (XO (XO (XO (XO (XO (XO (XO (XO (XO
                            (XO (XO (XO (XO (XO (XO (XO (XO
                            XH)))))))))))))))))))))))))))))))))))))))))))))))))))))) }
                            fnat_1)
                          (qltb fnat_1 { qnum = (Zpos XH); qden = (XO XH) }))
                        ((||)
                          (qleb lrmsd_2 { qnum = (Zpos (XI (XO XH))); qden =
                            XH })
                          (qleb irmsd_3 { qnum = (Zpos (XO XH)); qden = XH })))
                      ((&&)
                        ((&&)
                          (qleb { qnum = (Zpos XH); qden = (XO XH) } fnat_1)
                          (qltb { qnum = (Zpos XH); qden = XH } lrmsd_2))
                        (qltb { qnum = (Zpos XH); qden = XH } irmsd_3))
                 then let label_7 = String ((Ascii (true, false, true, true,
                        false, true, true, false)), (String ((Ascii (true,
                        false, true, false, false, true, true, false)),
                        (String ((Ascii (false, false, true, false, false,
                        true, true, false)), (String ((Ascii (true, false,
                        false, true, false, true, true, false)), (String
                        ((Ascii (true, false, true, false, true, true, true,
                        false)), (String ((Ascii (true, false, true, true,
                        false, true, true, false)), EmptyString)))))))))))
                      in
                      Ok label_7
                 else if (&&)
                           (qleb { qnum = (Zpos XH); qden = (XO XH) } fnat_1)
                           ((||)
                             (qleb lrmsd_2 { qnum = (Zpos XH); qden = XH })
                             (qleb irmsd_3 { qnum = (Zpos XH); qden = XH }))
                      then let label_8 = String ((Ascii (false, false, false,
                             true, false, true, true, false)), (String
                             ((Ascii (true, false, false, true, false, true,
                             true, false)), (String ((Ascii (true, true,
                             true, false, false, true, true, false)), (String
                             ((Ascii (false, false, false, true, false, true,
                             true, false)), EmptyString)))))))
                           in
                           Ok label_8
                      else Err (String ((Ascii (true, false, true, false,
                             true, false, true, false)), (String ((Ascii
                             (false, true, true, true, false, true, true,
                             false)), (String ((Ascii (false, true, false,
                             false, false, true, true, false)), (String
                             ((Ascii (true, true, true, true, false, true,
                             true, false)), (String ((Ascii (true, false,
                             true, false, true, true, true, false)), (String
                             ((Ascii (false, true, true, true, false, true,
                             true, false)), (String ((Ascii (false, false,
                             true, false, false, true, true, false)), (String
                             ((Ascii (false, false, true, true, false, false,
                             true, false)), (String ((Ascii (true, true,
                             true, true, false, true, true, false)), (String
                             ((Ascii (true, true, false, false, false, true,
                             true, false)), (String ((Ascii (true, false,
                             false, false, false, true, true, false)),
                             (String ((Ascii (false, false, true, true,
                             false, true, true, false)), (String ((Ascii
                             (true, false, true, false, false, false, true,
                             false)), (String ((Ascii (false, true, false,
                             false, true, true, true, false)), (String
                             ((Ascii (false, true, false, false, true, true,
                             true, false)), (String ((Ascii (true, true,
                             true, true, false, true, true, false)), (String
                             ((Ascii (false, true, false, false, true, true,
                             true, false)),
                             EmptyString))))))))))))))))))))))))))))))))))
  else Err (String ((Ascii (true, false, true, false, true, false, true,
         false)), (String ((Ascii (false, true, true, true, false, true,
         true, false)), (String ((Ascii (false, true, false, false, false,
         true, true, false)), (String ((Ascii (true, true, true, true, false,
         true, true, false)), (String ((Ascii (true, false, true, false,
         true, true, true, false)), (String ((Ascii (false, true, true, true,
         false, true, true, false)), (String ((Ascii (false, false, true,
         false, false, true, true, false)), (String ((Ascii (false, false,
         true, true, false, false, true, false)), (String ((Ascii (true,
         true, true, true, false, true, true, false)), (String ((Ascii (true,
         true, false, false, false, true, true, false)), (String ((Ascii
         (true, false, false, false, false, true, true, false)), (String
         ((Ascii (false, false, true, true, false, true, true, false)),
         (String ((Ascii (true, false, true, false, false, false, true,
         false)), (String ((Ascii (false, true, false, false, true, true,
         true, false)), (String ((Ascii (false, true, false, false, true,
         true, true, false)), (String ((Ascii (true, true, true, true, false,
         true, true, false)), (String ((Ascii (false, true, false, false,
         true, true, true, false)),
         EmptyString))))))))))))))))))))))))))))))))))

(** val scale_rms_src : q -> q -> q **)

let scale_rms_src rms_1 d_2 =
  qdiv { qnum = (Zpos XH); qden = XH }
    (qplus { qnum = (Zpos XH); qden = XH } (qsqr (qdiv rms_1 d_2)))

(** val dockq_raw_src : q -> q -> q -> q -> q -> q **)

let dockq_raw_src fnat_1 lrmsd_2 irmsd_3 d1_4 d2_5 =
  qmult
    (qdiv { qnum = (Zpos XH); qden = XH } { qnum = (Zpos (XI XH)); qden =
      XH })
    (qplus (qplus fnat_1 (scale_rms_src lrmsd_2 d1_4))
      (scale_rms_src irmsd_3 d2_5))

(** val dockq_digits_src : nat **)

let dockq_digits_src =
  S (S (S (S (S (S O)))))

(** val dockq_d1_src : q **)

let dockq_d1_src =
  { qnum = (Zpos (XI (XO (XO (XO XH))))); qden = (XO XH) }

(** val dockq_d2_src : q **)

let dockq_d2_src =
  { qnum = (Zpos (XI XH)); qden = (XO XH) }

(** val capri : q -> q -> q -> string res **)

let capri f l i =
  capri_src f l i (String ((Ascii (false, false, false, false, true, true,
    true, false)), (String ((Ascii (false, true, false, false, true, true,
    true, false)), (String ((Ascii (true, true, true, true, false, true,
    true, false)), (String ((Ascii (false, false, true, false, true, true,
    true, false)), (String ((Ascii (true, false, true, false, false, true,
    true, false)), (String ((Ascii (true, false, false, true, false, true,
    true, false)), (String ((Ascii (false, true, true, true, false, true,
    true, false)), (String ((Ascii (true, false, true, true, false, true,
    false, false)), (String ((Ascii (false, false, false, false, true, true,
    true, false)), (String ((Ascii (false, true, false, false, true, true,
    true, false)), (String ((Ascii (true, true, true, true, false, true,
    true, false)), (String ((Ascii (false, false, true, false, true, true,
    true, false)), (String ((Ascii (true, false, true, false, false, true,
    true, false)), (String ((Ascii (true, false, false, true, false, true,
    true, false)), (String ((Ascii (false, true, true, true, false, true,
    true, false)), EmptyString))))))))))))))))))))))))))))))

(** val dockq : q -> q -> q -> q -> q -> q **)

let dockq f l i d1 d2 =
  round_dec dockq_digits_src (dockq_raw_src f l i d1 d2)

type capri_class =
| Incorrect
| Acceptable
| Medium
| High

(** val class_name : capri_class -> string **)

let class_name = function
| Incorrect ->
  String ((Ascii (true, false, false, true, false, true, true, false)),
    (String ((Ascii (false, true, true, true, false, true, true, false)),
    (String ((Ascii (true, true, false, false, false, true, true, false)),
    (String ((Ascii (true, true, true, true, false, true, true, false)),
    (String ((Ascii (false, true, false, false, true, true, true, false)),
    (String ((Ascii (false, true, false, false, true, true, true, false)),
    (String ((Ascii (true, false, true, false, false, true, true, false)),
    (String ((Ascii (true, true, false, false, false, true, true, false)),
    (String ((Ascii (false, false, true, false, true, true, true, false)),
    EmptyString)))))))))))))))))
| Acceptable ->
  String ((Ascii (true, false, false, false, false, true, true, false)),
    (String ((Ascii (true, true, false, false, false, true, true, false)),
    (String ((Ascii (true, true, false, false, false, true, true, false)),
    (String ((Ascii (true, false, true, false, false, true, true, false)),
    (String ((Ascii (false, false, false, false, true, true, true, false)),
    (String ((Ascii (false, false, true, false, true, true, true, false)),
    (String ((Ascii (true, false, false, false, false, true, true, false)),
    (String ((Ascii (false, true, false, false, false, true, true, false)),
    (String ((Ascii (false, false, true, true, false, true, true, false)),
    (String ((Ascii (true, false, true, false, false, true, true, false)),
    EmptyString)))))))))))))))))))
| Medium ->
  String ((Ascii (true, false, true, true, false, true, true, false)),
    (String ((Ascii (true, false, true, false, false, true, true, false)),
    (String ((Ascii (false, false, true, false, false, true, true, false)),
    (String ((Ascii (true, false, false, true, false, true, true, false)),
    (String ((Ascii (true, false, true, false, true, true, true, false)),
    (String ((Ascii (true, false, true, true, false, true, true, false)),
    EmptyString)))))))))))
| High ->
  String ((Ascii (false, false, false, true, false, true, true, false)),
    (String ((Ascii (true, false, false, true, false, true, true, false)),
    (String ((Ascii (true, true, true, false, false, true, true, false)),
    (String ((Ascii (false, false, false, true, false, true, true, false)),
    EmptyString)))))))

(** val t01 : q **)

let t01 =
  b64 { qnum = (Zpos XH); qden = (XO (XI (XO XH))) }

(** val t03 : q **)

let t03 =
  b64 { qnum = (Zpos (XI XH)); qden = (XO (XI (XO XH))) }

(** val t05 : q **)

let t05 =
  b64 { qnum = (Zpos (XI (XO XH))); qden = (XO (XI (XO XH))) }

(** val levelb : nat -> q -> q -> q -> bool **)

let levelb k f l i =
  match k with
  | O -> true
  | S n0 ->
    (match n0 with
     | O ->
       (&&) (qleb t01 f)
         ((||) (qleb l { qnum = (Zpos (XO (XI (XO XH)))); qden = XH })
           (qleb i { qnum = (Zpos (XO (XO XH))); qden = XH }))
     | S n1 ->
       (match n1 with
        | O ->
          (&&) (qleb t03 f)
            ((||) (qleb l { qnum = (Zpos (XI (XO XH))); qden = XH })
              (qleb i { qnum = (Zpos (XO XH)); qden = XH }))
        | S _ ->
          (&&) (qleb t05 f)
            ((||) (qleb l { qnum = (Zpos XH); qden = XH })
              (qleb i { qnum = (Zpos XH); qden = XH }))))

(** val capri_spec : q -> q -> q -> capri_class **)

let capri_spec f l i =
  if levelb (S (S (S O))) f l i
  then High
  else if levelb (S (S O)) f l i
       then Medium
       else if levelb (S O) f l i then Acceptable else Incorrect

(** val dockq_formula : q -> q -> q -> q -> q -> q **)

let dockq_formula f l i d1 d2 =
  qdiv
    (qplus
      (qplus f
        (qdiv { qnum = (Zpos XH); qden = XH }
          (qplus { qnum = (Zpos XH); qden = XH }
            (qmult (qdiv l d1) (qdiv l d1)))))
      (qdiv { qnum = (Zpos XH); qden = XH }
        (qplus { qnum = (Zpos XH); qden = XH }
          (qmult (qdiv i d2) (qdiv i d2))))) { qnum = (Zpos (XI XH)); qden =
    XH }

(** val col_src : (string * string) list **)

let col_src =
  ((String ((Ascii (true, true, false, false, true, true, true, false)),
    (String ((Ascii (true, false, true, false, false, true, true, false)),
    (String ((Ascii (false, true, false, false, true, true, true, false)),
    (String ((Ascii (true, false, false, true, false, true, true, false)),
    (String ((Ascii (true, false, false, false, false, true, true, false)),
    (String ((Ascii (false, false, true, true, false, true, true, false)),
    EmptyString)))))))))))), (String ((Ascii (true, false, false, true,
    false, false, true, false)), (String ((Ascii (false, true, true, true,
    false, false, true, false)), (String ((Ascii (false, false, true, false,
    true, false, true, false)), EmptyString))))))) :: (((String ((Ascii
    (false, true, true, true, false, true, true, false)), (String ((Ascii
    (true, false, false, false, false, true, true, false)), (String ((Ascii
    (true, false, true, true, false, true, true, false)), (String ((Ascii
    (true, false, true, false, false, true, true, false)),
    EmptyString)))))))), (String ((Ascii (false, false, true, false, true,
    false, true, false)), (String ((Ascii (true, false, true, false, false,
    false, true, false)), (String ((Ascii (false, false, false, true, true,
    false, true, false)), (String ((Ascii (false, false, true, false, true,
    false, true, false)), EmptyString))))))))) :: (((String ((Ascii (true,
    false, false, false, false, true, true, false)), (String ((Ascii (false,
    false, true, true, false, true, true, false)), (String ((Ascii (false,
    false, true, false, true, true, true, false)), (String ((Ascii (false,
    false, true, true, false, false, true, false)), (String ((Ascii (true,
    true, true, true, false, true, true, false)), (String ((Ascii (true,
    true, false, false, false, true, true, false)), EmptyString)))))))))))),
    (String ((Ascii (false, false, true, false, true, false, true, false)),
    (String ((Ascii (true, false, true, false, false, false, true, false)),
    (String ((Ascii (false, false, false, true, true, false, true, false)),
    (String ((Ascii (false, false, true, false, true, false, true, false)),
    EmptyString))))))))) :: (((String ((Ascii (false, true, false, false,
    true, true, true, false)), (String ((Ascii (true, false, true, false,
    false, true, true, false)), (String ((Ascii (true, true, false, false,
    true, true, true, false)), (String ((Ascii (false, true, true, true,
    false, false, true, false)), (String ((Ascii (true, false, false, false,
    false, true, true, false)), (String ((Ascii (true, false, true, true,
    false, true, true, false)), (String ((Ascii (true, false, true, false,
    false, true, true, false)), EmptyString)))))))))))))), (String ((Ascii
    (false, false, true, false, true, false, true, false)), (String ((Ascii
    (true, false, true, false, false, false, true, false)), (String ((Ascii
    (false, false, false, true, true, false, true, false)), (String ((Ascii
    (false, false, true, false, true, false, true, false)),
    EmptyString))))))))) :: (((String ((Ascii (true, true, false, false,
    false, true, true, false)), (String ((Ascii (false, false, false, true,
    false, true, true, false)), (String ((Ascii (true, false, false, false,
    false, true, true, false)), (String ((Ascii (true, false, false, true,
    false, true, true, false)), (String ((Ascii (false, true, true, true,
    false, true, true, false)), (String ((Ascii (true, false, false, true,
    false, false, true, false)), (String ((Ascii (false, false, true, false,
    false, false, true, false)), EmptyString)))))))))))))), (String ((Ascii
    (false, false, true, false, true, false, true, false)), (String ((Ascii
    (true, false, true, false, false, false, true, false)), (String ((Ascii
    (false, false, false, true, true, false, true, false)), (String ((Ascii
    (false, false, true, false, true, false, true, false)),
    EmptyString))))))))) :: (((String ((Ascii (false, true, false, false,
    true, true, true, false)), (String ((Ascii (true, false, true, false,
    false, true, true, false)), (String ((Ascii (true, true, false, false,
    true, true, true, false)), (String ((Ascii (true, true, false, false,
    true, false, true, false)), (String ((Ascii (true, false, true, false,
    false, true, true, false)), (String ((Ascii (true, false, false, false,
    true, true, true, false)), EmptyString)))))))))))), (String ((Ascii
    (true, false, false, true, false, false, true, false)), (String ((Ascii
    (false, true, true, true, false, false, true, false)), (String ((Ascii
    (false, false, true, false, true, false, true, false)),
    EmptyString))))))) :: (((String ((Ascii (true, false, false, true, false,
    true, true, false)), (String ((Ascii (true, true, false, false, false,
    false, true, false)), (String ((Ascii (true, true, true, true, false,
    true, true, false)), (String ((Ascii (false, false, true, false, false,
    true, true, false)), (String ((Ascii (true, false, true, false, false,
    true, true, false)), EmptyString)))))))))), (String ((Ascii (false,
    false, true, false, true, false, true, false)), (String ((Ascii (true,
    false, true, false, false, false, true, false)), (String ((Ascii (false,
    false, false, true, true, false, true, false)), (String ((Ascii (false,
    false, true, false, true, false, true, false)),
    EmptyString))))))))) :: (((String ((Ascii (false, false, false, true,
    true, true, true, false)), EmptyString)), (String ((Ascii (false, true,
    false, false, true, false, true, false)), (String ((Ascii (true, false,
    true, false, false, false, true, false)), (String ((Ascii (true, false,
    false, false, false, false, true, false)), (String ((Ascii (false, false,
    true, true, false, false, true, false)),
    EmptyString))))))))) :: (((String ((Ascii (true, false, false, true,
    true, true, true, false)), EmptyString)), (String ((Ascii (false, true,
    false, false, true, false, true, false)), (String ((Ascii (true, false,
    true, false, false, false, true, false)), (String ((Ascii (true, false,
    false, false, false, false, true, false)), (String ((Ascii (false, false,
    true, true, false, false, true, false)),
    EmptyString))))))))) :: (((String ((Ascii (false, true, false, true,
    true, true, true, false)), EmptyString)), (String ((Ascii (false, true,
    false, false, true, false, true, false)), (String ((Ascii (true, false,
    true, false, false, false, true, false)), (String ((Ascii (true, false,
    false, false, false, false, true, false)), (String ((Ascii (false, false,
    true, true, false, false, true, false)),
    EmptyString))))))))) :: (((String ((Ascii (true, true, true, true, false,
    true, true, false)), (String ((Ascii (true, true, false, false, false,
    true, true, false)), (String ((Ascii (true, true, false, false, false,
    true, true, false)), EmptyString)))))), (String ((Ascii (false, true,
    false, false, true, false, true, false)), (String ((Ascii (true, false,
    true, false, false, false, true, false)), (String ((Ascii (true, false,
    false, false, false, false, true, false)), (String ((Ascii (false, false,
    true, true, false, false, true, false)),
    EmptyString))))))))) :: (((String ((Ascii (false, false, true, false,
    true, true, true, false)), (String ((Ascii (true, false, true, false,
    false, true, true, false)), (String ((Ascii (true, false, true, true,
    false, true, true, false)), (String ((Ascii (false, false, false, false,
    true, true, true, false)), EmptyString)))))))), (String ((Ascii (false,
    true, false, false, true, false, true, false)), (String ((Ascii (true,
    false, true, false, false, false, true, false)), (String ((Ascii (true,
    false, false, false, false, false, true, false)), (String ((Ascii (false,
    false, true, true, false, false, true, false)),
    EmptyString))))))))) :: (((String ((Ascii (true, false, true, false,
    false, true, true, false)), (String ((Ascii (false, false, true, true,
    false, true, true, false)), (String ((Ascii (true, false, true, false,
    false, true, true, false)), (String ((Ascii (true, false, true, true,
    false, true, true, false)), (String ((Ascii (true, false, true, false,
    false, true, true, false)), (String ((Ascii (false, true, true, true,
    false, true, true, false)), (String ((Ascii (false, false, true, false,
    true, true, true, false)), EmptyString)))))))))))))), (String ((Ascii
    (false, false, true, false, true, false, true, false)), (String ((Ascii
    (true, false, true, false, false, false, true, false)), (String ((Ascii
    (false, false, false, true, true, false, true, false)), (String ((Ascii
    (false, false, true, false, true, false, true, false)),
    EmptyString))))))))) :: (((String ((Ascii (true, false, true, true,
    false, true, true, false)), (String ((Ascii (true, true, true, true,
    false, true, true, false)), (String ((Ascii (false, false, true, false,
    false, true, true, false)), (String ((Ascii (true, false, true, false,
    false, true, true, false)), (String ((Ascii (false, false, true, true,
    false, true, true, false)), EmptyString)))))))))), (String ((Ascii (true,
    false, false, true, false, false, true, false)), (String ((Ascii (false,
    true, true, true, false, false, true, false)), (String ((Ascii (false,
    false, true, false, true, false, true, false)),
    EmptyString))))))) :: [])))))))))))))

(** val delimiter_src : (string * (nat * nat)) list **)

let delimiter_src =
  ((String ((Ascii (true, true, false, false, true, true, true, false)),
    (String ((Ascii (true, false, true, false, false, true, true, false)),
    (String ((Ascii (false, true, false, false, true, true, true, false)),
    (String ((Ascii (true, false, false, true, false, true, true, false)),
    (String ((Ascii (true, false, false, false, false, true, true, false)),
    (String ((Ascii (false, false, true, true, false, true, true, false)),
    EmptyString)))))))))))), ((S (S (S (S (S (S O)))))), (S (S (S (S (S (S (S
    (S (S (S (S O))))))))))))) :: (((String ((Ascii (false, true, true, true,
    false, true, true, false)), (String ((Ascii (true, false, false, false,
    false, true, true, false)), (String ((Ascii (true, false, true, true,
    false, true, true, false)), (String ((Ascii (true, false, true, false,
    false, true, true, false)), EmptyString)))))))), ((S (S (S (S (S (S (S (S
    (S (S (S (S O)))))))))))), (S (S (S (S (S (S (S (S (S (S (S (S (S (S (S
    (S O)))))))))))))))))) :: (((String ((Ascii (true, false, false, false,
    false, true, true, false)), (String ((Ascii (false, false, true, true,
    false, true, true, false)), (String ((Ascii (false, false, true, false,
    true, true, true, false)), (String ((Ascii (false, false, true, true,
    false, false, true, false)), (String ((Ascii (true, true, true, true,
    false, true, true, false)), (String ((Ascii (true, true, false, false,
    false, true, true, false)), EmptyString)))))))))))), ((S (S (S (S (S (S
    (S (S (S (S (S (S (S (S (S (S O)))))))))))))))), (S (S (S (S (S (S (S (S
    (S (S (S (S (S (S (S (S (S O))))))))))))))))))) :: (((String ((Ascii
    (false, true, false, false, true, true, true, false)), (String ((Ascii
    (true, false, true, false, false, true, true, false)), (String ((Ascii
    (true, true, false, false, true, true, true, false)), (String ((Ascii
    (false, true, true, true, false, false, true, false)), (String ((Ascii
    (true, false, false, false, false, true, true, false)), (String ((Ascii
    (true, false, true, true, false, true, true, false)), (String ((Ascii
    (true, false, true, false, false, true, true, false)),
    EmptyString)))))))))))))), ((S (S (S (S (S (S (S (S (S (S (S (S (S (S (S
    (S (S O))))))))))))))))), (S (S (S (S (S (S (S (S (S (S (S (S (S (S (S (S
    (S (S (S (S O)))))))))))))))))))))) :: (((String ((Ascii (true, true,
    false, false, false, true, true, false)), (String ((Ascii (false, false,
    false, true, false, true, true, false)), (String ((Ascii (true, false,
    false, false, false, true, true, false)), (String ((Ascii (true, false,
    false, true, false, true, true, false)), (String ((Ascii (false, true,
    true, true, false, true, true, false)), (String ((Ascii (true, false,
    false, true, false, false, true, false)), (String ((Ascii (false, false,
    true, false, false, false, true, false)), EmptyString)))))))))))))), ((S
    (S (S (S (S (S (S (S (S (S (S (S (S (S (S (S (S (S (S (S (S
    O))))))))))))))))))))), (S (S (S (S (S (S (S (S (S (S (S (S (S (S (S (S
    (S (S (S (S (S (S O)))))))))))))))))))))))) :: (((String ((Ascii (false,
    true, false, false, true, true, true, false)), (String ((Ascii (true,
    false, true, false, false, true, true, false)), (String ((Ascii (true,
    true, false, false, true, true, true, false)), (String ((Ascii (true,
    true, false, false, true, false, true, false)), (String ((Ascii (true,
    false, true, false, false, true, true, false)), (String ((Ascii (true,
    false, false, false, true, true, true, false)), EmptyString)))))))))))),
    ((S (S (S (S (S (S (S (S (S (S (S (S (S (S (S (S (S (S (S (S (S (S
    O)))))))))))))))))))))), (S (S (S (S (S (S (S (S (S (S (S (S (S (S (S (S
    (S (S (S (S (S (S (S (S (S (S O)))))))))))))))))))))))))))) :: (((String
    ((Ascii (true, false, false, true, false, true, true, false)), (String
    ((Ascii (true, true, false, false, false, false, true, false)), (String
    ((Ascii (true, true, true, true, false, true, true, false)), (String
    ((Ascii (false, false, true, false, false, true, true, false)), (String
    ((Ascii (true, false, true, false, false, true, true, false)),
    EmptyString)))))))))), ((S (S (S (S (S (S (S (S (S (S (S (S (S (S (S (S
    (S (S (S (S (S (S (S (S (S (S O)))))))))))))))))))))))))), (S (S (S (S (S
    (S (S (S (S (S (S (S (S (S (S (S (S (S (S (S (S (S (S (S (S (S (S
    O))))))))))))))))))))))))))))) :: (((String ((Ascii (false, false, false,
    true, true, true, true, false)), EmptyString)), ((S (S (S (S (S (S (S (S
    (S (S (S (S (S (S (S (S (S (S (S (S (S (S (S (S (S (S (S (S (S (S
    O)))))))))))))))))))))))))))))), (S (S (S (S (S (S (S (S (S (S (S (S (S
    (S (S (S (S (S (S (S (S (S (S (S (S (S (S (S (S (S (S (S (S (S (S (S (S
    (S O)))))))))))))))))))))))))))))))))))))))) :: (((String ((Ascii (true,
    false, false, true, true, true, true, false)), EmptyString)), ((S (S (S
    (S (S (S (S (S (S (S (S (S (S (S (S (S (S (S (S (S (S (S (S (S (S (S (S
    (S (S (S (S (S (S (S (S (S (S (S O)))))))))))))))))))))))))))))))))))))),
    (S (S (S (S (S (S (S (S (S (S (S (S (S (S (S (S (S (S (S (S (S (S (S (S
    (S (S (S (S (S (S (S (S (S (S (S (S (S (S (S (S (S (S (S (S (S (S
    O)))))))))))))))))))))))))))))))))))))))))))))))) :: (((String ((Ascii
    (false, true, false, true, true, true, true, false)), EmptyString)), ((S
    (S (S (S (S (S (S (S (S (S (S (S (S (S (S (S (S (S (S (S (S (S (S (S (S
    (S (S (S (S (S (S (S (S (S (S (S (S (S (S (S (S (S (S (S (S (S
    O)))))))))))))))))))))))))))))))))))))))))))))), (S (S (S (S (S (S (S (S
    (S (S (S (S (S (S (S (S (S (S (S (S (S (S (S (S (S (S (S (S (S (S (S (S
    (S (S (S (S (S (S (S (S (S (S (S (S (S (S (S (S (S (S (S (S (S (S
    O)))))))))))))))))))))))))))))))))))))))))))))))))))))))) :: (((String
    ((Ascii (true, true, true, true, false, true, true, false)), (String
    ((Ascii (true, true, false, false, false, true, true, false)), (String
    ((Ascii (true, true, false, false, false, true, true, false)),
    EmptyString)))))), ((S (S (S (S (S (S (S (S (S (S (S (S (S (S (S (S (S (S
    (S (S (S (S (S (S (S (S (S (S (S (S (S (S (S (S (S (S (S (S (S (S (S (S
    (S (S (S (S (S (S (S (S (S (S (S (S
    O)))))))))))))))))))))))))))))))))))))))))))))))))))))), (S (S (S (S (S
    (S (S (S (S (S (S (S (S (S (S (S (S (S (S (S (S (S (S (S (S (S (S (S (S
    (S (S (S (S (S (S (S (S (S (S (S (S (S (S (S (S (S (S (S (S (S (S (S (S
    (S (S (S (S (S (S (S
    O)))))))))))))))))))))))))))))))))))))))))))))))))))))))))))))) :: (((String
    ((Ascii (false, false, true, false, true, true, true, false)), (String
    ((Ascii (true, false, true, false, false, true, true, false)), (String
    ((Ascii (true, false, true, true, false, true, true, false)), (String
    ((Ascii (false, false, false, false, true, true, true, false)),
    EmptyString)))))))), ((S (S (S (S (S (S (S (S (S (S (S (S (S (S (S (S (S
    (S (S (S (S (S (S (S (S (S (S (S (S (S (S (S (S (S (S (S (S (S (S (S (S
    (S (S (S (S (S (S (S (S (S (S (S (S (S (S (S (S (S (S (S
    O)))))))))))))))))))))))))))))))))))))))))))))))))))))))))))), (S (S (S
    (S (S (S (S (S (S (S (S (S (S (S (S (S (S (S (S (S (S (S (S (S (S (S (S
    (S (S (S (S (S (S (S (S (S (S (S (S (S (S (S (S (S (S (S (S (S (S (S (S
    (S (S (S (S (S (S (S (S (S (S (S (S (S (S (S
    O)))))))))))))))))))))))))))))))))))))))))))))))))))))))))))))))))))) :: (((String
    ((Ascii (true, false, true, false, false, true, true, false)), (String
    ((Ascii (false, false, true, true, false, true, true, false)), (String
    ((Ascii (true, false, true, false, false, true, true, false)), (String
    ((Ascii (true, false, true, true, false, true, true, false)), (String
    ((Ascii (true, false, true, false, false, true, true, false)), (String
    ((Ascii (false, true, true, true, false, true, true, false)), (String
    ((Ascii (false, false, true, false, true, true, true, false)),
    EmptyString)))))))))))))), ((S (S (S (S (S (S (S (S (S (S (S (S (S (S (S
    (S (S (S (S (S (S (S (S (S (S (S (S (S (S (S (S (S (S (S (S (S (S (S (S
    (S (S (S (S (S (S (S (S (S (S (S (S (S (S (S (S (S (S (S (S (S (S (S (S
    (S (S (S (S (S (S (S (S (S (S (S (S (S
    O)))))))))))))))))))))))))))))))))))))))))))))))))))))))))))))))))))))))))))),
    (S (S (S (S (S (S (S (S (S (S (S (S (S (S (S (S (S (S (S (S (S (S (S (S
    (S (S (S (S (S (S (S (S (S (S (S (S (S (S (S (S (S (S (S (S (S (S (S (S
    (S (S (S (S (S (S (S (S (S (S (S (S (S (S (S (S (S (S (S (S (S (S (S (S
    (S (S (S (S (S (S
    O)))))))))))))))))))))))))))))))))))))))))))))))))))))))))))))))))))))))))))))))) :: []))))))))))))

(** val sql_limit_src : z **)

let sql_limit_src =
  Zpos (XI (XI (XI (XO (XO (XI (XI (XI (XI XH)))))))))

(** val max_sql_values_src : z **)

let max_sql_values_src =
  Zpos (XO (XI (XI (XO (XI (XI (XO (XI (XI XH)))))))))

(** val atom_prefix_src : string **)

let atom_prefix_src =
  String ((Ascii (true, false, false, false, false, false, true, false)),
    (String ((Ascii (false, false, true, false, true, false, true, false)),
    (String ((Ascii (true, true, true, true, false, false, true, false)),
    (String ((Ascii (true, false, true, true, false, false, true, false)),
    EmptyString)))))))

(** val endmdl_prefix_src : string **)

let endmdl_prefix_src =
  String ((Ascii (true, false, true, false, false, false, true, false)),
    (String ((Ascii (false, true, true, true, false, false, true, false)),
    (String ((Ascii (false, false, true, false, false, false, true, false)),
    (String ((Ascii (true, false, true, true, false, false, true, false)),
    (String ((Ascii (false, false, true, false, false, false, true, false)),
    (String ((Ascii (false, false, true, true, false, false, true, false)),
    EmptyString)))))))))))

(** val int_tag_src : string **)

let int_tag_src =
  String ((Ascii (true, false, false, true, false, false, true, false)),
    (String ((Ascii (false, true, true, true, false, false, true, false)),
    (String ((Ascii (false, false, true, false, true, false, true, false)),
    EmptyString)))))

(** val real_tag_src : string **)

let real_tag_src =
  String ((Ascii (false, true, false, false, true, false, true, false)),
    (String ((Ascii (true, false, true, false, false, false, true, false)),
    (String ((Ascii (true, false, false, false, false, false, true, false)),
    (String ((Ascii (false, false, true, true, false, false, true, false)),
    EmptyString)))))))

(** val blank_defaults_src : (string * blank_default) list **)

let blank_defaults_src =
  ((String ((Ascii (true, true, false, false, false, true, true, false)),
    (String ((Ascii (false, false, false, true, false, true, true, false)),
    (String ((Ascii (true, false, false, false, false, true, true, false)),
    (String ((Ascii (true, false, false, true, false, true, true, false)),
    (String ((Ascii (false, true, true, true, false, true, true, false)),
    (String ((Ascii (true, false, false, true, false, false, true, false)),
    (String ((Ascii (false, false, true, false, false, false, true, false)),
    EmptyString)))))))))))))), DChainFromSegID) :: (((String ((Ascii (true,
    true, true, true, false, true, true, false)), (String ((Ascii (true,
    true, false, false, false, true, true, false)), (String ((Ascii (true,
    true, false, false, false, true, true, false)), EmptyString)))))),
    (DConst { qnum = (Zpos XH); qden = XH })) :: (((String ((Ascii (false,
    false, true, false, true, true, true, false)), (String ((Ascii (true,
    false, true, false, false, true, true, false)), (String ((Ascii (true,
    false, true, true, false, true, true, false)), (String ((Ascii (false,
    false, false, false, true, true, true, false)), EmptyString)))))))),
    (DConst { qnum = (Zpos (XO (XI (XO XH)))); qden = XH })) :: (((String
    ((Ascii (true, false, true, false, false, true, true, false)), (String
    ((Ascii (false, false, true, true, false, true, true, false)), (String
    ((Ascii (true, false, true, false, false, true, true, false)), (String
    ((Ascii (true, false, true, true, false, true, true, false)), (String
    ((Ascii (true, false, true, false, false, true, true, false)), (String
    ((Ascii (false, true, true, true, false, true, true, false)), (String
    ((Ascii (false, false, true, false, true, true, true, false)),
    EmptyString)))))))))))))), DElementGuess) :: [])))

(** val linelength_src : string -> string res **)

let linelength_src pdb_line_1 =
  let linelen_2 = length0 pdb_line_1 in
  if Nat.ltb linelen_2 (S (S (S (S (S (S (S (S (S (S (S (S (S (S (S (S (S (S
       (S (S (S (S (S (S (S (S (S (S (S (S (S (S (S (S (S (S (S (S (S (S (S
       (S (S (S (S (S (S (S (S (S (S (S (S (S (S (S (S (S (S (S (S (S (S (S
       (S (S (S (S (S (S (S (S (S (S (S (S (S (S (S (S
       O))))))))))))))))))))))))))))))))))))))))))))))))))))))))))))))))))))))))))))))))
  then let pdb_line_3 =
         append pdb_line_1
           (repeat_str (String ((Ascii (false, false, false, false, false,
             true, false, false)), EmptyString))
             (sub (S (S (S (S (S (S (S (S (S (S (S (S (S (S (S (S (S (S (S (S
               (S (S (S (S (S (S (S (S (S (S (S (S (S (S (S (S (S (S (S (S (S
               (S (S (S (S (S (S (S (S (S (S (S (S (S (S (S (S (S (S (S (S (S
               (S (S (S (S (S (S (S (S (S (S (S (S (S (S (S (S (S (S
               O))))))))))))))))))))))))))))))))))))))))))))))))))))))))))))))))))))))))))))))))
               linelen_2))
       in
       Ok pdb_line_3
  else if Nat.ltb (S (S (S (S (S (S (S (S (S (S (S (S (S (S (S (S (S (S (S (S
            (S (S (S (S (S (S (S (S (S (S (S (S (S (S (S (S (S (S (S (S (S (S
            (S (S (S (S (S (S (S (S (S (S (S (S (S (S (S (S (S (S (S (S (S (S
            (S (S (S (S (S (S (S (S (S (S (S (S (S (S (S (S
            O))))))))))))))))))))))))))))))))))))))))))))))))))))))))))))))))))))))))))))))))
            linelen_2
       then Err (String ((Ascii (false, true, true, false, true, false, true,
              false)), (String ((Ascii (true, false, false, false, false,
              true, true, false)), (String ((Ascii (false, false, true, true,
              false, true, true, false)), (String ((Ascii (true, false, true,
              false, true, true, true, false)), (String ((Ascii (true, false,
              true, false, false, true, true, false)), (String ((Ascii (true,
              false, true, false, false, false, true, false)), (String
              ((Ascii (false, true, false, false, true, true, true, false)),
              (String ((Ascii (false, true, false, false, true, true, true,
              false)), (String ((Ascii (true, true, true, true, false, true,
              true, false)), (String ((Ascii (false, true, false, false,
              true, true, true, false)), EmptyString))))))))))))))))))))
       else Ok pdb_line_1

(** val get_chainID_src : string -> string res **)

let get_chainID_src pdb_line_1 =
  let segID_2 =
    strip
      (slice (S (S (S (S (S (S (S (S (S (S (S (S (S (S (S (S (S (S (S (S (S
        (S (S (S (S (S (S (S (S (S (S (S (S (S (S (S (S (S (S (S (S (S (S (S
        (S (S (S (S (S (S (S (S (S (S (S (S (S (S (S (S (S (S (S (S (S (S (S
        (S (S (S (S (S
        O))))))))))))))))))))))))))))))))))))))))))))))))))))))))))))))))))))))))
        (S (S (S (S (S (S (S (S (S (S (S (S (S (S (S (S (S (S (S (S (S (S (S
        (S (S (S (S (S (S (S (S (S (S (S (S (S (S (S (S (S (S (S (S (S (S (S
        (S (S (S (S (S (S (S (S (S (S (S (S (S (S (S (S (S (S (S (S (S (S (S
        (S (S (S (S (S (S (S
        O))))))))))))))))))))))))))))))))))))))))))))))))))))))))))))))))))))))))))))
        pdb_line_1)
  in
  if str_nonempty segID_2
  then Ok segID_2
  else Err (String ((Ascii (false, true, true, false, true, false, true,
         false)), (String ((Ascii (true, false, false, false, false, true,
         true, false)), (String ((Ascii (false, false, true, true, false,
         true, true, false)), (String ((Ascii (true, false, true, false,
         true, true, true, false)), (String ((Ascii (true, false, true,
         false, false, true, true, false)), (String ((Ascii (true, false,
         true, false, false, false, true, false)), (String ((Ascii (false,
         true, false, false, true, true, true, false)), (String ((Ascii
         (false, true, false, false, true, true, true, false)), (String
         ((Ascii (true, true, true, true, false, true, true, false)), (String
         ((Ascii (false, true, false, false, true, true, true, false)),
         EmptyString))))))))))))))))))))

(** val get_element_src : string -> string res **)

let get_element_src pdb_line_1 =
  let first_char_2 =
    strip
      (char_at (S (S (S (S (S (S (S (S (S (S (S (S O)))))))))))) pdb_line_1)
  in
  let last_char_3 =
    strip
      (char_at (S (S (S (S (S (S (S (S (S (S (S (S (S (S (S O)))))))))))))))
        pdb_line_1)
  in
  if str_nonempty first_char_2
  then if is_substring first_char_2 (String ((Ascii (false, false, false,
            false, true, true, false, false)), (String ((Ascii (true, false,
            false, false, true, true, false, false)), (String ((Ascii (false,
            true, false, false, true, true, false, false)), (String ((Ascii
            (true, true, false, false, true, true, false, false)), (String
            ((Ascii (false, false, true, false, true, true, false, false)),
            (String ((Ascii (true, false, true, false, true, true, false,
            false)), (String ((Ascii (false, true, true, false, true, true,
            false, false)), (String ((Ascii (true, true, true, false, true,
            true, false, false)), (String ((Ascii (false, false, false, true,
            true, true, false, false)), (String ((Ascii (true, false, false,
            true, true, true, false, false)), EmptyString))))))))))))))))))))
       then let elem_4 =
              char_at (S (S (S (S (S (S (S (S (S (S (S (S (S O)))))))))))))
                pdb_line_1
            in
            Ok (strip elem_4)
       else if (&&)
                 (eqb1 first_char_2 (String ((Ascii (false, false, false,
                   true, false, false, true, false)), EmptyString)))
                 (str_nonempty last_char_3)
            then let elem_5 = String ((Ascii (false, false, false, true,
                   false, false, true, false)), EmptyString)
                 in
                 Ok (strip elem_5)
            else let elem_6 =
                   slice (S (S (S (S (S (S (S (S (S (S (S (S O)))))))))))) (S
                     (S (S (S (S (S (S (S (S (S (S (S (S (S O))))))))))))))
                     pdb_line_1
                 in
                 Ok (strip elem_6)
  else let elem_7 =
         char_at (S (S (S (S (S (S (S (S (S (S (S (S (S O)))))))))))))
           pdb_line_1
       in
       Ok (strip elem_7)

type form =
| FPath
| FPathObj
| FStr
| FBytes
| FListStr
| FListBytes
| FNdarrayStr
| FNdarrayBytes

type input =
| InText of form * string
| InLines of form * string list

(** val lines_of : input -> string list res **)

let lines_of = function
| InText (f, txt) ->
  (match f with
   | FPath -> Ok (readlines txt)
   | FPathObj -> Ok (readlines txt)
   | FStr ->
     if Nat.ltb (S (S (S O)))
          (count_sub (String (nl, (String ((Ascii (true, false, false, false,
            false, false, true, false)), (String ((Ascii (false, false, true,
            false, true, false, true, false)), (String ((Ascii (true, true,
            true, true, false, false, true, false)), (String ((Ascii (true,
            false, true, true, false, false, true, false)), (String ((Ascii
            (false, false, false, false, false, true, false, false)),
            EmptyString)))))))))))) txt)
     then Ok (split_nl txt)
     else Err (String ((Ascii (false, true, true, false, false, false, true,
            false)), (String ((Ascii (true, false, false, true, false, true,
            true, false)), (String ((Ascii (false, false, true, true, false,
            true, true, false)), (String ((Ascii (true, false, true, false,
            false, true, true, false)), (String ((Ascii (false, true, true,
            true, false, false, true, false)), (String ((Ascii (true, true,
            true, true, false, true, true, false)), (String ((Ascii (false,
            false, true, false, true, true, true, false)), (String ((Ascii
            (false, true, true, false, false, false, true, false)), (String
            ((Ascii (true, true, true, true, false, true, true, false)),
            (String ((Ascii (true, false, true, false, true, true, true,
            false)), (String ((Ascii (false, true, true, true, false, true,
            true, false)), (String ((Ascii (false, false, true, false, false,
            true, true, false)), (String ((Ascii (true, false, true, false,
            false, false, true, false)), (String ((Ascii (false, true, false,
            false, true, true, true, false)), (String ((Ascii (false, true,
            false, false, true, true, true, false)), (String ((Ascii (true,
            true, true, true, false, true, true, false)), (String ((Ascii
            (false, true, false, false, true, true, true, false)),
            EmptyString))))))))))))))))))))))))))))))))))
   | FBytes ->
     if Nat.ltb (S (S (S O)))
          (count_sub (String (nl, (String ((Ascii (true, false, false, false,
            false, false, true, false)), (String ((Ascii (false, false, true,
            false, true, false, true, false)), (String ((Ascii (true, true,
            true, true, false, false, true, false)), (String ((Ascii (true,
            false, true, true, false, false, true, false)), (String ((Ascii
            (false, false, false, false, false, true, false, false)),
            EmptyString)))))))))))) txt)
     then Ok (split_nl txt)
     else Err (String ((Ascii (false, true, true, false, false, false, true,
            false)), (String ((Ascii (true, false, false, true, false, true,
            true, false)), (String ((Ascii (false, false, true, true, false,
            true, true, false)), (String ((Ascii (true, false, true, false,
            false, true, true, false)), (String ((Ascii (false, true, true,
            true, false, false, true, false)), (String ((Ascii (true, true,
            true, true, false, true, true, false)), (String ((Ascii (false,
            false, true, false, true, true, true, false)), (String ((Ascii
            (false, true, true, false, false, false, true, false)), (String
            ((Ascii (true, true, true, true, false, true, true, false)),
            (String ((Ascii (true, false, true, false, true, true, true,
            false)), (String ((Ascii (false, true, true, true, false, true,
            true, false)), (String ((Ascii (false, false, true, false, false,
            true, true, false)), (String ((Ascii (true, false, true, false,
            false, false, true, false)), (String ((Ascii (false, true, false,
            false, true, true, true, false)), (String ((Ascii (false, true,
            false, false, true, true, true, false)), (String ((Ascii (true,
            true, true, true, false, true, true, false)), (String ((Ascii
            (false, true, false, false, true, true, true, false)),
            EmptyString))))))))))))))))))))))))))))))))))
   | _ ->
     Err (String ((Ascii (false, true, true, false, true, false, true,
       false)), (String ((Ascii (true, false, false, false, false, true,
       true, false)), (String ((Ascii (false, false, true, true, false, true,
       true, false)), (String ((Ascii (true, false, true, false, true, true,
       true, false)), (String ((Ascii (true, false, true, false, false, true,
       true, false)), (String ((Ascii (true, false, true, false, false,
       false, true, false)), (String ((Ascii (false, true, false, false,
       true, true, true, false)), (String ((Ascii (false, true, false, false,
       true, true, true, false)), (String ((Ascii (true, true, true, true,
       false, true, true, false)), (String ((Ascii (false, true, false,
       false, true, true, true, false)), EmptyString)))))))))))))))))))))
| InLines (_, ls) ->
  (match ls with
   | [] ->
     Err (String ((Ascii (true, false, false, true, false, false, true,
       false)), (String ((Ascii (false, true, true, true, false, true, true,
       false)), (String ((Ascii (false, false, true, false, false, true,
       true, false)), (String ((Ascii (true, false, true, false, false, true,
       true, false)), (String ((Ascii (false, false, false, true, true, true,
       true, false)), (String ((Ascii (true, false, true, false, false,
       false, true, false)), (String ((Ascii (false, true, false, false,
       true, true, true, false)), (String ((Ascii (false, true, false, false,
       true, true, true, false)), (String ((Ascii (true, true, true, true,
       false, true, true, false)), (String ((Ascii (false, true, false,
       false, true, true, true, false)), EmptyString))))))))))))))))))))
   | _ :: _ -> Ok ls)

(** val assoc : string -> (string * 'a1) list -> 'a1 option **)

let rec assoc k = function
| [] -> None
| p :: t -> let (k', v0) = p in if eqb1 k k' then Some v0 else assoc k t

(** val parse_field : string -> string -> string -> val0 option res **)

let parse_field line colname coltype =
  match assoc colname delimiter_src with
  | Some p ->
    let (a0, b) = p in
    let data = strip (slice a0 b line) in
    bind
      (if str_nonempty data
       then Ok (Inl data)
       else (match assoc colname blank_defaults_src with
             | Some b0 ->
               (match b0 with
                | DConst q0 -> Ok (Inr q0)
                | DChainFromSegID ->
                  bind (get_chainID_src line) (fun s -> Ok (Inl s))
                | DElementGuess ->
                  bind (get_element_src line) (fun s -> Ok (Inl s)))
             | None -> Ok (Inl data))) (fun data' ->
      if eqb1 coltype int_tag_src
      then (match data' with
            | Inl s ->
              (match parse_int s with
               | NumOk z0 -> Ok (Some (VInt z0))
               | NumBad ->
                 Err (String ((Ascii (false, true, true, false, true, false,
                   true, false)), (String ((Ascii (true, false, false, false,
                   false, true, true, false)), (String ((Ascii (false, false,
                   true, true, false, true, true, false)), (String ((Ascii
                   (true, false, true, false, true, true, true, false)),
                   (String ((Ascii (true, false, true, false, false, true,
                   true, false)), (String ((Ascii (true, false, true, false,
                   false, false, true, false)), (String ((Ascii (false, true,
                   false, false, true, true, true, false)), (String ((Ascii
                   (false, true, false, false, true, true, true, false)),
                   (String ((Ascii (true, true, true, true, false, true,
                   true, false)), (String ((Ascii (false, true, false, false,
                   true, true, true, false)), EmptyString))))))))))))))))))))
               | NumOutOfModel ->
                 Err (String ((Ascii (true, true, true, true, false, false,
                   true, false)), (String ((Ascii (true, false, true, false,
                   true, true, true, false)), (String ((Ascii (false, false,
                   true, false, true, true, true, false)), (String ((Ascii
                   (true, true, true, true, false, false, true, false)),
                   (String ((Ascii (false, true, true, false, false, true,
                   true, false)), (String ((Ascii (true, false, true, true,
                   false, false, true, false)), (String ((Ascii (true, true,
                   true, true, false, true, true, false)), (String ((Ascii
                   (false, false, true, false, false, true, true, false)),
                   (String ((Ascii (true, false, true, false, false, true,
                   true, false)), (String ((Ascii (false, false, true, true,
                   false, true, true, false)), EmptyString)))))))))))))))))))))
            | Inr q0 -> Ok (Some (VInt (Z.div q0.qnum (Zpos q0.qden)))))
      else if eqb1 coltype real_tag_src
           then (match data' with
                 | Inl s ->
                   (match parse_float s with
                    | NumOk q0 -> Ok (Some (VReal q0))
                    | NumBad ->
                      Err (String ((Ascii (false, true, true, false, true,
                        false, true, false)), (String ((Ascii (true, false,
                        false, false, false, true, true, false)), (String
                        ((Ascii (false, false, true, true, false, true, true,
                        false)), (String ((Ascii (true, false, true, false,
                        true, true, true, false)), (String ((Ascii (true,
                        false, true, false, false, true, true, false)),
                        (String ((Ascii (true, false, true, false, false,
                        false, true, false)), (String ((Ascii (false, true,
                        false, false, true, true, true, false)), (String
                        ((Ascii (false, true, false, false, true, true, true,
                        false)), (String ((Ascii (true, true, true, true,
                        false, true, true, false)), (String ((Ascii (false,
                        true, false, false, true, true, true, false)),
                        EmptyString))))))))))))))))))))
                    | NumOutOfModel ->
                      Err (String ((Ascii (true, true, true, true, false,
                        false, true, false)), (String ((Ascii (true, false,
                        true, false, true, true, true, false)), (String
                        ((Ascii (false, false, true, false, true, true, true,
                        false)), (String ((Ascii (true, true, true, true,
                        false, false, true, false)), (String ((Ascii (false,
                        true, true, false, false, true, true, false)),
                        (String ((Ascii (true, false, true, true, false,
                        false, true, false)), (String ((Ascii (true, true,
                        true, true, false, true, true, false)), (String
                        ((Ascii (false, false, true, false, false, true,
                        true, false)), (String ((Ascii (true, false, true,
                        false, false, true, true, false)), (String ((Ascii
                        (false, false, true, true, false, true, true,
                        false)), EmptyString)))))))))))))))))))))
                 | Inr q0 -> Ok (Some (VReal q0)))
           else (match data' with
                 | Inl s -> Ok (Some (VText s))
                 | Inr _ ->
                   Err (String ((Ascii (true, true, true, true, false, false,
                     true, false)), (String ((Ascii (true, false, true,
                     false, true, true, true, false)), (String ((Ascii
                     (false, false, true, false, true, true, true, false)),
                     (String ((Ascii (true, true, true, true, false, false,
                     true, false)), (String ((Ascii (false, true, true,
                     false, false, true, true, false)), (String ((Ascii
                     (true, false, true, true, false, false, true, false)),
                     (String ((Ascii (true, true, true, true, false, true,
                     true, false)), (String ((Ascii (false, false, true,
                     false, false, true, true, false)), (String ((Ascii
                     (true, false, true, false, false, true, true, false)),
                     (String ((Ascii (false, false, true, true, false, true,
                     true, false)), EmptyString))))))))))))))))))))))
  | None -> Ok None

(** val parse_fields : string -> (string * string) list -> val0 list res **)

let rec parse_fields line = function
| [] -> Ok []
| p :: t ->
  let (cn, ct) = p in
  bind (parse_field line cn ct) (fun v0 ->
    bind (parse_fields line t) (fun vs -> Ok
      (match v0 with
       | Some x -> x :: vs
       | None -> vs)))

(** val parse_record : z -> string -> row res **)

let parse_record nmodel0 line0 =
  bind (linelength_src line0) (fun line ->
    bind (parse_fields line col_src) (fun vs -> Ok
      (app vs ((VInt nmodel0) :: []))))

(** val parse_lines : string list -> z -> (row list * z) res **)

let rec parse_lines lines nmodel0 =
  match lines with
  | [] -> Ok ([], nmodel0)
  | l :: t ->
    if startswith atom_prefix_src l
    then bind (parse_record nmodel0 (upto_nl l)) (fun r ->
           bind (parse_lines t nmodel0) (fun rest -> Ok ((r :: (fst rest)),
             (snd rest))))
    else if startswith endmdl_prefix_src l
         then parse_lines t (Z.add nmodel0 (Zpos XH))
         else parse_lines t nmodel0

(** val parse : input -> (row list * z) res **)

let parse i =
  bind (lines_of i) (fun ls -> parse_lines ls Z0)

type ftype =
| TInt
| TReal
| TText

(** val wwpdb_cols : ((string * (nat * nat)) * ftype) list **)

let wwpdb_cols =
  (((String ((Ascii (true, true, false, false, true, true, true, false)),
    (String ((Ascii (true, false, true, false, false, true, true, false)),
    (String ((Ascii (false, true, false, false, true, true, true, false)),
    (String ((Ascii (true, false, false, true, false, true, true, false)),
    (String ((Ascii (true, false, false, false, false, true, true, false)),
    (String ((Ascii (false, false, true, true, false, true, true, false)),
    EmptyString)))))))))))), ((S (S (S (S (S (S (S O))))))), (S (S (S (S (S
    (S (S (S (S (S (S O))))))))))))), TInt) :: ((((String ((Ascii (false,
    true, true, true, false, true, true, false)), (String ((Ascii (true,
    false, false, false, false, true, true, false)), (String ((Ascii (true,
    false, true, true, false, true, true, false)), (String ((Ascii (true,
    false, true, false, false, true, true, false)), EmptyString)))))))), ((S
    (S (S (S (S (S (S (S (S (S (S (S (S O))))))))))))), (S (S (S (S (S (S (S
    (S (S (S (S (S (S (S (S (S O)))))))))))))))))), TText) :: ((((String
    ((Ascii (true, false, false, false, false, true, true, false)), (String
    ((Ascii (false, false, true, true, false, true, true, false)), (String
    ((Ascii (false, false, true, false, true, true, true, false)), (String
    ((Ascii (false, false, true, true, false, false, true, false)), (String
    ((Ascii (true, true, true, true, false, true, true, false)), (String
    ((Ascii (true, true, false, false, false, true, true, false)),
    EmptyString)))))))))))), ((S (S (S (S (S (S (S (S (S (S (S (S (S (S (S (S
    (S O))))))))))))))))), (S (S (S (S (S (S (S (S (S (S (S (S (S (S (S (S (S
    O))))))))))))))))))), TText) :: ((((String ((Ascii (false, true, false,
    false, true, true, true, false)), (String ((Ascii (true, false, true,
    false, false, true, true, false)), (String ((Ascii (true, true, false,
    false, true, true, true, false)), (String ((Ascii (false, true, true,
    true, false, false, true, false)), (String ((Ascii (true, false, false,
    false, false, true, true, false)), (String ((Ascii (true, false, true,
    true, false, true, true, false)), (String ((Ascii (true, false, true,
    false, false, true, true, false)), EmptyString)))))))))))))), ((S (S (S
    (S (S (S (S (S (S (S (S (S (S (S (S (S (S (S O)))))))))))))))))), (S (S
    (S (S (S (S (S (S (S (S (S (S (S (S (S (S (S (S (S (S
    O)))))))))))))))))))))), TText) :: ((((String ((Ascii (true, true, false,
    false, false, true, true, false)), (String ((Ascii (false, false, false,
    true, false, true, true, false)), (String ((Ascii (true, false, false,
    false, false, true, true, false)), (String ((Ascii (true, false, false,
    true, false, true, true, false)), (String ((Ascii (false, true, true,
    true, false, true, true, false)), (String ((Ascii (true, false, false,
    true, false, false, true, false)), (String ((Ascii (false, false, true,
    false, false, false, true, false)), EmptyString)))))))))))))), ((S (S (S
    (S (S (S (S (S (S (S (S (S (S (S (S (S (S (S (S (S (S (S
    O)))))))))))))))))))))), (S (S (S (S (S (S (S (S (S (S (S (S (S (S (S (S
    (S (S (S (S (S (S O)))))))))))))))))))))))), TText) :: ((((String ((Ascii
    (false, true, false, false, true, true, true, false)), (String ((Ascii
    (true, false, true, false, false, true, true, false)), (String ((Ascii
    (true, true, false, false, true, true, true, false)), (String ((Ascii
    (true, true, false, false, true, false, true, false)), (String ((Ascii
    (true, false, true, false, false, true, true, false)), (String ((Ascii
    (true, false, false, false, true, true, true, false)),
    EmptyString)))))))))))), ((S (S (S (S (S (S (S (S (S (S (S (S (S (S (S (S
    (S (S (S (S (S (S (S O))))))))))))))))))))))), (S (S (S (S (S (S (S (S (S
    (S (S (S (S (S (S (S (S (S (S (S (S (S (S (S (S (S
    O)))))))))))))))))))))))))))), TInt) :: ((((String ((Ascii (true, false,
    false, true, false, true, true, false)), (String ((Ascii (true, true,
    false, false, false, false, true, false)), (String ((Ascii (true, true,
    true, true, false, true, true, false)), (String ((Ascii (false, false,
    true, false, false, true, true, false)), (String ((Ascii (true, false,
    true, false, false, true, true, false)), EmptyString)))))))))), ((S (S (S
    (S (S (S (S (S (S (S (S (S (S (S (S (S (S (S (S (S (S (S (S (S (S (S (S
    O))))))))))))))))))))))))))), (S (S (S (S (S (S (S (S (S (S (S (S (S (S
    (S (S (S (S (S (S (S (S (S (S (S (S (S O))))))))))))))))))))))))))))),
    TText) :: ((((String ((Ascii (false, false, false, true, true, true,
    true, false)), EmptyString)), ((S (S (S (S (S (S (S (S (S (S (S (S (S (S
    (S (S (S (S (S (S (S (S (S (S (S (S (S (S (S (S (S
    O))))))))))))))))))))))))))))))), (S (S (S (S (S (S (S (S (S (S (S (S (S
    (S (S (S (S (S (S (S (S (S (S (S (S (S (S (S (S (S (S (S (S (S (S (S (S
    (S O)))))))))))))))))))))))))))))))))))))))), TReal) :: ((((String
    ((Ascii (true, false, false, true, true, true, true, false)),
    EmptyString)), ((S (S (S (S (S (S (S (S (S (S (S (S (S (S (S (S (S (S (S
    (S (S (S (S (S (S (S (S (S (S (S (S (S (S (S (S (S (S (S (S
    O))))))))))))))))))))))))))))))))))))))), (S (S (S (S (S (S (S (S (S (S
    (S (S (S (S (S (S (S (S (S (S (S (S (S (S (S (S (S (S (S (S (S (S (S (S
    (S (S (S (S (S (S (S (S (S (S (S (S
    O)))))))))))))))))))))))))))))))))))))))))))))))), TReal) :: ((((String
    ((Ascii (false, true, false, true, true, true, true, false)),
    EmptyString)), ((S (S (S (S (S (S (S (S (S (S (S (S (S (S (S (S (S (S (S
    (S (S (S (S (S (S (S (S (S (S (S (S (S (S (S (S (S (S (S (S (S (S (S (S
    (S (S (S (S O))))))))))))))))))))))))))))))))))))))))))))))), (S (S (S (S
    (S (S (S (S (S (S (S (S (S (S (S (S (S (S (S (S (S (S (S (S (S (S (S (S
    (S (S (S (S (S (S (S (S (S (S (S (S (S (S (S (S (S (S (S (S (S (S (S (S
    (S (S O)))))))))))))))))))))))))))))))))))))))))))))))))))))))),
    TReal) :: ((((String ((Ascii (true, true, true, true, false, true, true,
    false)), (String ((Ascii (true, true, false, false, false, true, true,
    false)), (String ((Ascii (true, true, false, false, false, true, true,
    false)), EmptyString)))))), ((S (S (S (S (S (S (S (S (S (S (S (S (S (S (S
    (S (S (S (S (S (S (S (S (S (S (S (S (S (S (S (S (S (S (S (S (S (S (S (S
    (S (S (S (S (S (S (S (S (S (S (S (S (S (S (S (S
    O))))))))))))))))))))))))))))))))))))))))))))))))))))))), (S (S (S (S (S
    (S (S (S (S (S (S (S (S (S (S (S (S (S (S (S (S (S (S (S (S (S (S (S (S
    (S (S (S (S (S (S (S (S (S (S (S (S (S (S (S (S (S (S (S (S (S (S (S (S
    (S (S (S (S (S (S (S
    O)))))))))))))))))))))))))))))))))))))))))))))))))))))))))))))),
    TReal) :: ((((String ((Ascii (false, false, true, false, true, true,
    true, false)), (String ((Ascii (true, false, true, false, false, true,
    true, false)), (String ((Ascii (true, false, true, true, false, true,
    true, false)), (String ((Ascii (false, false, false, false, true, true,
    true, false)), EmptyString)))))))), ((S (S (S (S (S (S (S (S (S (S (S (S
    (S (S (S (S (S (S (S (S (S (S (S (S (S (S (S (S (S (S (S (S (S (S (S (S
    (S (S (S (S (S (S (S (S (S (S (S (S (S (S (S (S (S (S (S (S (S (S (S (S
    (S O))))))))))))))))))))))))))))))))))))))))))))))))))))))))))))), (S (S
    (S (S (S (S (S (S (S (S (S (S (S (S (S (S (S (S (S (S (S (S (S (S (S (S
    (S (S (S (S (S (S (S (S (S (S (S (S (S (S (S (S (S (S (S (S (S (S (S (S
    (S (S (S (S (S (S (S (S (S (S (S (S (S (S (S (S
    O)))))))))))))))))))))))))))))))))))))))))))))))))))))))))))))))))))),
    TReal) :: ((((String ((Ascii (true, false, true, false, false, true,
    true, false)), (String ((Ascii (false, false, true, true, false, true,
    true, false)), (String ((Ascii (true, false, true, false, false, true,
    true, false)), (String ((Ascii (true, false, true, true, false, true,
    true, false)), (String ((Ascii (true, false, true, false, false, true,
    true, false)), (String ((Ascii (false, true, true, true, false, true,
    true, false)), (String ((Ascii (false, false, true, false, true, true,
    true, false)), EmptyString)))))))))))))), ((S (S (S (S (S (S (S (S (S (S
    (S (S (S (S (S (S (S (S (S (S (S (S (S (S (S (S (S (S (S (S (S (S (S (S
    (S (S (S (S (S (S (S (S (S (S (S (S (S (S (S (S (S (S (S (S (S (S (S (S
    (S (S (S (S (S (S (S (S (S (S (S (S (S (S (S (S (S (S (S
    O))))))))))))))))))))))))))))))))))))))))))))))))))))))))))))))))))))))))))))),
    (S (S (S (S (S (S (S (S (S (S (S (S (S (S (S (S (S (S (S (S (S (S (S (S
    (S (S (S (S (S (S (S (S (S (S (S (S (S (S (S (S (S (S (S (S (S (S (S (S
    (S (S (S (S (S (S (S (S (S (S (S (S (S (S (S (S (S (S (S (S (S (S (S (S
    (S (S (S (S (S (S
    O)))))))))))))))))))))))))))))))))))))))))))))))))))))))))))))))))))))))))))))))),
    TText) :: []))))))))))))

(** val segid_cols : nat * nat **)

let segid_cols =
  ((S (S (S (S (S (S (S (S (S (S (S (S (S (S (S (S (S (S (S (S (S (S (S (S (S
    (S (S (S (S (S (S (S (S (S (S (S (S (S (S (S (S (S (S (S (S (S (S (S (S
    (S (S (S (S (S (S (S (S (S (S (S (S (S (S (S (S (S (S (S (S (S (S (S (S
    O))))))))))))))))))))))))))))))))))))))))))))))))))))))))))))))))))))))))),
    (S (S (S (S (S (S (S (S (S (S (S (S (S (S (S (S (S (S (S (S (S (S (S (S
    (S (S (S (S (S (S (S (S (S (S (S (S (S (S (S (S (S (S (S (S (S (S (S (S
    (S (S (S (S (S (S (S (S (S (S (S (S (S (S (S (S (S (S (S (S (S (S (S (S
    (S (S (S (S
    O)))))))))))))))))))))))))))))))))))))))))))))))))))))))))))))))))))))))))))))

(** val pad80 : string -> string **)

let pad80 line =
  append line
    (repeat_char (Ascii (false, false, false, false, false, true, false,
      false))
      (sub (S (S (S (S (S (S (S (S (S (S (S (S (S (S (S (S (S (S (S (S (S (S
        (S (S (S (S (S (S (S (S (S (S (S (S (S (S (S (S (S (S (S (S (S (S (S
        (S (S (S (S (S (S (S (S (S (S (S (S (S (S (S (S (S (S (S (S (S (S (S
        (S (S (S (S (S (S (S (S (S (S (S (S
        O))))))))))))))))))))))))))))))))))))))))))))))))))))))))))))))))))))))))))))))))
        (length0 line)))

(** val columns : nat -> nat -> string -> string **)

let columns a0 b line =
  substring (sub a0 (S O)) (add (sub b a0) (S O)) (pad80 line)

(** val column : nat -> string -> ascii **)

let column k line =
  match get (sub k (S O)) (pad80 line) with
  | Some c -> c
  | None -> Ascii (false, false, false, false, false, true, false, false)

(** val ltrim : string -> string **)

let rec ltrim s = match s with
| EmptyString -> EmptyString
| String (c, t) ->
  if eqb0 c (Ascii (false, false, false, false, false, true, false, false))
  then ltrim t
  else s

(** val trim : string -> string **)

let trim s =
  rev_str EmptyString (ltrim (rev_str EmptyString (ltrim s)))

(** val spec_element : string -> string **)

let spec_element line =
  let c13 = column (S (S (S (S (S (S (S (S (S (S (S (S (S O))))))))))))) line
  in
  let c14 =
    column (S (S (S (S (S (S (S (S (S (S (S (S (S (S O)))))))))))))) line
  in
  let c16 =
    column (S (S (S (S (S (S (S (S (S (S (S (S (S (S (S (S O))))))))))))))))
      line
  in
  if eqb0 c13 (Ascii (false, false, false, false, false, true, false, false))
  then trim (String (c14, EmptyString))
  else if is_digit c13
       then trim (String (c14, EmptyString))
       else if (&&)
                 (eqb0 c13 (Ascii (false, false, false, true, false, false,
                   true, false)))
                 (negb
                   (eqb0 c16 (Ascii (false, false, false, false, false, true,
                     false, false))))
            then String ((Ascii (false, false, false, true, false, false,
                   true, false)), EmptyString)
            else trim (String (c13, (String (c14, EmptyString))))

(** val spec_field :
    string -> ((string * (nat * nat)) * ftype) -> val0 res **)

let spec_field line = function
| (p, ty) ->
  let (name, p0) = p in
  let (a0, b) = p0 in
  let txt = trim (columns a0 b line) in
  (match ty with
   | TInt ->
     (match parse_int txt with
      | NumOk z0 -> Ok (VInt z0)
      | NumBad ->
        Err (String ((Ascii (false, true, true, false, true, false, true,
          false)), (String ((Ascii (true, false, false, false, false, true,
          true, false)), (String ((Ascii (false, false, true, true, false,
          true, true, false)), (String ((Ascii (true, false, true, false,
          true, true, true, false)), (String ((Ascii (true, false, true,
          false, false, true, true, false)), (String ((Ascii (true, false,
          true, false, false, false, true, false)), (String ((Ascii (false,
          true, false, false, true, true, true, false)), (String ((Ascii
          (false, true, false, false, true, true, true, false)), (String
          ((Ascii (true, true, true, true, false, true, true, false)),
          (String ((Ascii (false, true, false, false, true, true, true,
          false)), EmptyString))))))))))))))))))))
      | NumOutOfModel ->
        Err (String ((Ascii (true, true, true, true, false, false, true,
          false)), (String ((Ascii (true, false, true, false, true, true,
          true, false)), (String ((Ascii (false, false, true, false, true,
          true, true, false)), (String ((Ascii (true, true, true, true,
          false, false, true, false)), (String ((Ascii (false, true, true,
          false, false, true, true, false)), (String ((Ascii (true, false,
          true, true, false, false, true, false)), (String ((Ascii (true,
          true, true, true, false, true, true, false)), (String ((Ascii
          (false, false, true, false, false, true, true, false)), (String
          ((Ascii (true, false, true, false, false, true, true, false)),
          (String ((Ascii (false, false, true, true, false, true, true,
          false)), EmptyString)))))))))))))))))))))
   | TReal ->
     if str_nonempty txt
     then (match parse_float txt with
           | NumOk q0 -> Ok (VReal q0)
           | NumBad ->
             Err (String ((Ascii (false, true, true, false, true, false,
               true, false)), (String ((Ascii (true, false, false, false,
               false, true, true, false)), (String ((Ascii (false, false,
               true, true, false, true, true, false)), (String ((Ascii (true,
               false, true, false, true, true, true, false)), (String ((Ascii
               (true, false, true, false, false, true, true, false)), (String
               ((Ascii (true, false, true, false, false, false, true,
               false)), (String ((Ascii (false, true, false, false, true,
               true, true, false)), (String ((Ascii (false, true, false,
               false, true, true, true, false)), (String ((Ascii (true, true,
               true, true, false, true, true, false)), (String ((Ascii
               (false, true, false, false, true, true, true, false)),
               EmptyString))))))))))))))))))))
           | NumOutOfModel ->
             Err (String ((Ascii (true, true, true, true, false, false, true,
               false)), (String ((Ascii (true, false, true, false, true,
               true, true, false)), (String ((Ascii (false, false, true,
               false, true, true, true, false)), (String ((Ascii (true, true,
               true, true, false, false, true, false)), (String ((Ascii
               (false, true, true, false, false, true, true, false)), (String
               ((Ascii (true, false, true, true, false, false, true, false)),
               (String ((Ascii (true, true, true, true, false, true, true,
               false)), (String ((Ascii (false, false, true, false, false,
               true, true, false)), (String ((Ascii (true, false, true,
               false, false, true, true, false)), (String ((Ascii (false,
               false, true, true, false, true, true, false)),
               EmptyString)))))))))))))))))))))
     else if eqb1 name (String ((Ascii (true, true, true, true, false, true,
               true, false)), (String ((Ascii (true, true, false, false,
               false, true, true, false)), (String ((Ascii (true, true,
               false, false, false, true, true, false)), EmptyString))))))
          then Ok (VReal { qnum = (Zpos XH); qden = XH })
          else if eqb1 name (String ((Ascii (false, false, true, false, true,
                    true, true, false)), (String ((Ascii (true, false, true,
                    false, false, true, true, false)), (String ((Ascii (true,
                    false, true, true, false, true, true, false)), (String
                    ((Ascii (false, false, false, false, true, true, true,
                    false)), EmptyString))))))))
               then Ok (VReal { qnum = (Zpos (XO (XI (XO XH)))); qden = XH })
               else Err (String ((Ascii (false, true, true, false, true,
                      false, true, false)), (String ((Ascii (true, false,
                      false, false, false, true, true, false)), (String
                      ((Ascii (false, false, true, true, false, true, true,
                      false)), (String ((Ascii (true, false, true, false,
                      true, true, true, false)), (String ((Ascii (true,
                      false, true, false, false, true, true, false)), (String
                      ((Ascii (true, false, true, false, false, false, true,
                      false)), (String ((Ascii (false, true, false, false,
                      true, true, true, false)), (String ((Ascii (false,
                      true, false, false, true, true, true, false)), (String
                      ((Ascii (true, true, true, true, false, true, true,
                      false)), (String ((Ascii (false, true, false, false,
                      true, true, true, false)),
                      EmptyString))))))))))))))))))))
   | TText ->
     if str_nonempty txt
     then Ok (VText txt)
     else if eqb1 name (String ((Ascii (true, true, false, false, false,
               true, true, false)), (String ((Ascii (false, false, false,
               true, false, true, true, false)), (String ((Ascii (true,
               false, false, false, false, true, true, false)), (String
               ((Ascii (true, false, false, true, false, true, true, false)),
               (String ((Ascii (false, true, true, true, false, true, true,
               false)), (String ((Ascii (true, false, false, true, false,
               false, true, false)), (String ((Ascii (false, false, true,
               false, false, false, true, false)), EmptyString))))))))))))))
          then let seg = trim (columns (fst segid_cols) (snd segid_cols) line)
               in
               if str_nonempty seg
               then Ok (VText seg)
               else Err (String ((Ascii (false, true, true, false, true,
                      false, true, false)), (String ((Ascii (true, false,
                      false, false, false, true, true, false)), (String
                      ((Ascii (false, false, true, true, false, true, true,
                      false)), (String ((Ascii (true, false, true, false,
                      true, true, true, false)), (String ((Ascii (true,
                      false, true, false, false, true, true, false)), (String
                      ((Ascii (true, false, true, false, false, false, true,
                      false)), (String ((Ascii (false, true, false, false,
                      true, true, true, false)), (String ((Ascii (false,
                      true, false, false, true, true, true, false)), (String
                      ((Ascii (true, true, true, true, false, true, true,
                      false)), (String ((Ascii (false, true, false, false,
                      true, true, true, false)),
                      EmptyString))))))))))))))))))))
          else if eqb1 name (String ((Ascii (true, false, true, false, false,
                    true, true, false)), (String ((Ascii (false, false, true,
                    true, false, true, true, false)), (String ((Ascii (true,
                    false, true, false, false, true, true, false)), (String
                    ((Ascii (true, false, true, true, false, true, true,
                    false)), (String ((Ascii (true, false, true, false,
                    false, true, true, false)), (String ((Ascii (false, true,
                    true, true, false, true, true, false)), (String ((Ascii
                    (false, false, true, false, true, true, true, false)),
                    EmptyString))))))))))))))
               then Ok (VText (spec_element line))
               else Ok (VText txt))

(** val spec_row : string -> row res **)

let spec_row line =
  if Nat.ltb (S (S (S (S (S (S (S (S (S (S (S (S (S (S (S (S (S (S (S (S (S
       (S (S (S (S (S (S (S (S (S (S (S (S (S (S (S (S (S (S (S (S (S (S (S
       (S (S (S (S (S (S (S (S (S (S (S (S (S (S (S (S (S (S (S (S (S (S (S
       (S (S (S (S (S (S (S (S (S (S (S (S (S
       O))))))))))))))))))))))))))))))))))))))))))))))))))))))))))))))))))))))))))))))))
       (length0 line)
  then Err (String ((Ascii (false, true, true, false, true, false, true,
         false)), (String ((Ascii (true, false, false, false, false, true,
         true, false)), (String ((Ascii (false, false, true, true, false,
         true, true, false)), (String ((Ascii (true, false, true, false,
         true, true, true, false)), (String ((Ascii (true, false, true,
         false, false, true, true, false)), (String ((Ascii (true, false,
         true, false, false, false, true, false)), (String ((Ascii (false,
         true, false, false, true, true, true, false)), (String ((Ascii
         (false, true, false, false, true, true, true, false)), (String
         ((Ascii (true, true, true, true, false, true, true, false)), (String
         ((Ascii (false, true, false, false, true, true, true, false)),
         EmptyString))))))))))))))))))))
  else bind (mapM (spec_field line) wwpdb_cols) (fun vs -> Ok
         (app vs ((VInt Z0) :: [])))

(** val is_ATOM : string -> bool **)

let is_ATOM l =
  prefix (String ((Ascii (true, false, false, false, false, false, true,
    false)), (String ((Ascii (false, false, true, false, true, false, true,
    false)), (String ((Ascii (true, true, true, true, false, false, true,
    false)), (String ((Ascii (true, false, true, true, false, false, true,
    false)), EmptyString)))))))) l

(** val spec_table : string list -> row list res **)

let spec_table lines =
  mapM spec_row (map upto_nl (filter is_ATOM lines))

(** val vval : val0 -> v **)

let vval = function
| VInt z0 ->
  VL ((VS (String ((Ascii (true, false, false, true, false, false, true,
    false)), EmptyString))) :: ((VZ z0) :: []))
| VReal q0 ->
  VL ((VS (String ((Ascii (false, true, false, false, true, false, true,
    false)), EmptyString))) :: ((VZ q0.qnum) :: ((VZ (Zpos q0.qden)) :: [])))
| VText s ->
  VL ((VS (String ((Ascii (false, false, true, false, true, false, true,
    false)), EmptyString))) :: ((VS s) :: []))
| VBlob ->
  VL ((VS (String ((Ascii (false, true, false, false, false, false, true,
    false)), EmptyString))) :: [])
| VNull ->
  VL ((VS (String ((Ascii (false, true, true, true, false, false, true,
    false)), EmptyString))) :: [])

(** val val_of_V : v -> val0 **)

let val_of_V = function
| VL l ->
  (match l with
   | [] -> VNull
   | v1 :: l0 ->
     (match v1 with
      | VS tag ->
        (match l0 with
         | [] ->
           if eqb1 tag (String ((Ascii (false, true, false, false, false,
                false, true, false)), EmptyString))
           then VBlob
           else VNull
         | v2 :: l1 ->
           (match v2 with
            | VZ n0 ->
              (match l1 with
               | [] ->
                 if eqb1 tag (String ((Ascii (true, false, false, true,
                      false, false, true, false)), EmptyString))
                 then VInt n0
                 else VNull
               | v3 :: l2 ->
                 (match v3 with
                  | VZ z0 ->
                    (match z0 with
                     | Zpos d ->
                       (match l2 with
                        | [] ->
                          if eqb1 tag (String ((Ascii (false, true, false,
                               false, true, false, true, false)),
                               EmptyString))
                          then VReal { qnum = n0; qden = d }
                          else VNull
                        | _ :: _ -> VNull)
                     | _ -> VNull)
                  | _ -> VNull))
            | VS s ->
              (match l1 with
               | [] ->
                 if eqb1 tag (String ((Ascii (false, false, true, false,
                      true, false, true, false)), EmptyString))
                 then VText s
                 else VNull
               | _ :: _ -> VNull)
            | VL _ -> VNull))
      | _ -> VNull))
| _ -> VNull

(** val vrow : row -> v **)

let vrow r =
  VL (map vval r)

(** val vrows : row list -> v **)

let vrows rs =
  VL (map vrow rs)

(** val form_of : string -> form **)

let form_of s =
  if eqb1 s (String ((Ascii (false, false, false, false, true, true, true,
       false)), (String ((Ascii (true, false, false, false, false, true,
       true, false)), (String ((Ascii (false, false, true, false, true, true,
       true, false)), (String ((Ascii (false, false, false, true, false,
       true, true, false)), EmptyString))))))))
  then FPath
  else if eqb1 s (String ((Ascii (false, false, false, false, true, false,
            true, false)), (String ((Ascii (true, false, false, false, false,
            true, true, false)), (String ((Ascii (false, false, true, false,
            true, true, true, false)), (String ((Ascii (false, false, false,
            true, false, true, true, false)), EmptyString))))))))
       then FPathObj
       else if eqb1 s (String ((Ascii (true, true, false, false, true, true,
                 true, false)), (String ((Ascii (false, false, true, false,
                 true, true, true, false)), (String ((Ascii (false, true,
                 false, false, true, true, true, false)), EmptyString))))))
            then FStr
            else if eqb1 s (String ((Ascii (false, true, false, false, false,
                      true, true, false)), (String ((Ascii (true, false,
                      false, true, true, true, true, false)), (String ((Ascii
                      (false, false, true, false, true, true, true, false)),
                      (String ((Ascii (true, false, true, false, false, true,
                      true, false)), (String ((Ascii (true, true, false,
                      false, true, true, true, false)), EmptyString))))))))))
                 then FBytes
                 else if eqb1 s (String ((Ascii (false, false, true, true,
                           false, true, true, false)), (String ((Ascii (true,
                           false, false, true, false, true, true, false)),
                           (String ((Ascii (true, true, false, false, true,
                           true, true, false)), (String ((Ascii (false,
                           false, true, false, true, true, true, false)),
                           (String ((Ascii (true, true, true, true, true,
                           false, true, false)), (String ((Ascii (true, true,
                           false, false, true, true, true, false)), (String
                           ((Ascii (false, false, true, false, true, true,
                           true, false)), (String ((Ascii (false, true,
                           false, false, true, true, true, false)),
                           EmptyString))))))))))))))))
                      then FListStr
                      else if eqb1 s (String ((Ascii (false, false, true,
                                true, false, true, true, false)), (String
                                ((Ascii (true, false, false, true, false,
                                true, true, false)), (String ((Ascii (true,
                                true, false, false, true, true, true,
                                false)), (String ((Ascii (false, false, true,
                                false, true, true, true, false)), (String
                                ((Ascii (true, true, true, true, true, false,
                                true, false)), (String ((Ascii (false, true,
                                false, false, false, true, true, false)),
                                (String ((Ascii (true, false, false, true,
                                true, true, true, false)), (String ((Ascii
                                (false, false, true, false, true, true, true,
                                false)), (String ((Ascii (true, false, true,
                                false, false, true, true, false)), (String
                                ((Ascii (true, true, false, false, true,
                                true, true, false)),
                                EmptyString))))))))))))))))))))
                           then FListBytes
                           else if eqb1 s (String ((Ascii (false, true, true,
                                     true, false, true, true, false)),
                                     (String ((Ascii (false, false, true,
                                     false, false, true, true, false)),
                                     (String ((Ascii (true, false, false,
                                     false, false, true, true, false)),
                                     (String ((Ascii (false, true, false,
                                     false, true, true, true, false)),
                                     (String ((Ascii (false, true, false,
                                     false, true, true, true, false)),
                                     (String ((Ascii (true, false, false,
                                     false, false, true, true, false)),
                                     (String ((Ascii (true, false, false,
                                     true, true, true, true, false)), (String
                                     ((Ascii (true, true, true, true, true,
                                     false, true, false)), (String ((Ascii
                                     (true, true, false, false, true, true,
                                     true, false)), (String ((Ascii (false,
                                     false, true, false, true, true, true,
                                     false)), (String ((Ascii (false, true,
                                     false, false, true, true, true, false)),
                                     EmptyString))))))))))))))))))))))
                                then FNdarrayStr
                                else FNdarrayBytes

(** val run_parse : string -> v list -> v option **)

let run_parse cmd a0 =
  if eqb1 cmd (String ((Ascii (false, false, false, false, true, true, true,
       false)), (String ((Ascii (true, false, false, false, false, true,
       true, false)), (String ((Ascii (false, true, false, false, true, true,
       true, false)), (String ((Ascii (true, true, false, false, true, true,
       true, false)), (String ((Ascii (true, false, true, false, false, true,
       true, false)), (String ((Ascii (false, true, true, true, false, true,
       false, false)), (String ((Ascii (false, false, true, false, true,
       true, true, false)), (String ((Ascii (true, false, true, false, false,
       true, true, false)), (String ((Ascii (false, false, false, true, true,
       true, true, false)), (String ((Ascii (false, false, true, false, true,
       true, true, false)), EmptyString))))))))))))))))))))
  then Some
         (vres
           (bind
             (parse (InText ((form_of (getS (nth O a0 (VZ Z0)))),
               (getS (nth (S O) a0 (VZ Z0)))))) (fun r -> Ok (VL
             ((vrows (fst r)) :: ((VZ (snd r)) :: []))))))
  else if eqb1 cmd (String ((Ascii (false, false, false, false, true, true,
            true, false)), (String ((Ascii (true, false, false, false, false,
            true, true, false)), (String ((Ascii (false, true, false, false,
            true, true, true, false)), (String ((Ascii (true, true, false,
            false, true, true, true, false)), (String ((Ascii (true, false,
            true, false, false, true, true, false)), (String ((Ascii (false,
            true, true, true, false, true, false, false)), (String ((Ascii
            (false, false, true, true, false, true, true, false)), (String
            ((Ascii (true, false, false, true, false, true, true, false)),
            (String ((Ascii (false, true, true, true, false, true, true,
            false)), (String ((Ascii (true, false, true, false, false, true,
            true, false)), (String ((Ascii (true, true, false, false, true,
            true, true, false)), EmptyString))))))))))))))))))))))
       then Some
              (vres
                (bind
                  (parse (InLines ((form_of (getS (nth O a0 (VZ Z0)))),
                    (map getS (getL (nth (S O) a0 (VZ Z0))))))) (fun r -> Ok
                  (VL ((vrows (fst r)) :: ((VZ (snd r)) :: []))))))
       else if eqb1 cmd (String ((Ascii (true, true, false, false, true,
                 true, true, false)), (String ((Ascii (false, false, false,
                 false, true, true, true, false)), (String ((Ascii (true,
                 false, true, false, false, true, true, false)), (String
                 ((Ascii (true, true, false, false, false, true, true,
                 false)), (String ((Ascii (false, true, true, true, false,
                 true, false, false)), (String ((Ascii (false, false, false,
                 false, true, true, true, false)), (String ((Ascii (true,
                 false, false, false, false, true, true, false)), (String
                 ((Ascii (false, true, false, false, true, true, true,
                 false)), (String ((Ascii (true, true, false, false, true,
                 true, true, false)), (String ((Ascii (true, false, true,
                 false, false, true, true, false)), (String ((Ascii (false,
                 true, true, true, false, true, false, false)), (String
                 ((Ascii (false, false, true, false, true, true, true,
                 false)), (String ((Ascii (true, false, false, false, false,
                 true, true, false)), (String ((Ascii (false, true, false,
                 false, false, true, true, false)), (String ((Ascii (false,
                 false, true, true, false, true, true, false)), (String
                 ((Ascii (true, false, true, false, false, true, true,
                 false)), EmptyString))))))))))))))))))))))))))))))))
            then Some
                   (vres
                     (bind (spec_table (map getS (getL (nth O a0 (VZ Z0)))))
                       (fun rs -> Ok (vrows rs))))
            else if eqb1 cmd (String ((Ascii (true, true, false, false, true,
                      true, true, false)), (String ((Ascii (false, false,
                      false, false, true, true, true, false)), (String
                      ((Ascii (true, false, true, false, false, true, true,
                      false)), (String ((Ascii (true, true, false, false,
                      false, true, true, false)), (String ((Ascii (false,
                      true, true, true, false, true, false, false)), (String
                      ((Ascii (false, false, false, false, true, true, true,
                      false)), (String ((Ascii (true, false, false, false,
                      false, true, true, false)), (String ((Ascii (false,
                      true, false, false, true, true, true, false)), (String
                      ((Ascii (true, true, false, false, true, true, true,
                      false)), (String ((Ascii (true, false, true, false,
                      false, true, true, false)), (String ((Ascii (false,
                      true, true, true, false, true, false, false)), (String
                      ((Ascii (false, true, false, false, true, true, true,
                      false)), (String ((Ascii (true, true, true, true,
                      false, true, true, false)), (String ((Ascii (true,
                      true, true, false, true, true, true, false)),
                      EmptyString))))))))))))))))))))))))))))
                 then Some
                        (vres
                          (bind (spec_row (getS (nth O a0 (VZ Z0))))
                            (fun r -> Ok (vrow r))))
                 else if eqb1 cmd (String ((Ascii (false, false, false,
                           false, true, true, true, false)), (String ((Ascii
                           (true, false, false, false, false, true, true,
                           false)), (String ((Ascii (false, true, false,
                           false, true, true, true, false)), (String ((Ascii
                           (true, true, false, false, true, true, true,
                           false)), (String ((Ascii (true, false, true,
                           false, false, true, true, false)), (String ((Ascii
                           (false, true, true, true, false, true, false,
                           false)), (String ((Ascii (true, false, true,
                           false, false, true, true, false)), (String ((Ascii
                           (false, false, true, true, false, true, true,
                           false)), (String ((Ascii (true, false, true,
                           false, false, true, true, false)), (String ((Ascii
                           (true, false, true, true, false, true, true,
                           false)), (String ((Ascii (true, false, true,
                           false, false, true, true, false)), (String ((Ascii
                           (false, true, true, true, false, true, true,
                           false)), (String ((Ascii (false, false, true,
                           false, true, true, true, false)),
                           EmptyString))))))))))))))))))))))))))
                      then Some
                             (vres
                               (bind
                                 (get_element_src (getS (nth O a0 (VZ Z0))))
                                 (fun s -> Ok (VS s))))
                      else None

(** val format_xyz_src : q -> string res **)

let format_xyz_src i_1 =
  if (||)
       (qleb
         (qminus { qnum = (Zpos (XO (XO (XO (XO (XO (XO (XO (XO (XI (XO (XO
           (XO (XO (XI (XI (XI (XI (XO (XI (XO (XI (XI (XI (XI (XI (XO
           XH))))))))))))))))))))))))))); qden = XH } { qnum = (Zpos XH);
           qden = (XO XH) }) i_1)
       (qleb i_1
         (qplus
           (qopp { qnum = (Zpos (XO (XO (XO (XO (XO (XO (XO (XI (XO (XI (XI
             (XO (XI (XO (XO (XI (XO (XO (XO (XI (XI (XO (XO
             XH)))))))))))))))))))))))); qden = XH }) { qnum = (Zpos XH);
           qden = (XO XH) }))
  then Err (String ((Ascii (false, true, true, false, true, false, true,
         false)), (String ((Ascii (true, false, false, false, false, true,
         true, false)), (String ((Ascii (false, false, true, true, false,
         true, true, false)), (String ((Ascii (true, false, true, false,
         true, true, true, false)), (String ((Ascii (true, false, true,
         false, false, true, true, false)), (String ((Ascii (true, false,
         true, false, false, false, true, false)), (String ((Ascii (false,
         true, false, false, true, true, true, false)), (String ((Ascii
         (false, true, false, false, true, true, true, false)), (String
         ((Ascii (true, true, true, true, false, true, true, false)), (String
         ((Ascii (false, true, false, false, true, true, true, false)),
         EmptyString))))))))))))))))))))
  else if (||)
            (qleb
              (qminus { qnum = (Zpos (XO (XO (XO (XO (XO (XO (XI (XO (XO (XI
                (XO (XO (XO (XO (XI (XO (XI (XI (XI XH))))))))))))))))))));
                qden = XH } { qnum = (Zpos XH); qden = (XO XH) }) i_1)
            (qleb i_1
              (qplus
                (qopp { qnum = (Zpos (XO (XO (XO (XO (XO (XI (XO (XI (XO (XI
                  (XI (XO (XO (XO (XO (XI XH))))))))))))))))); qden = XH })
                { qnum = (Zpos XH); qden = (XO XH) }))
       then let i_2 = fmt_fixed (S (S (S (S (S (S (S (S O)))))))) O i_1 in
            Ok i_2
       else if (||)
                 (qleb
                   (qminus { qnum = (Zpos (XO (XO (XO (XO (XO (XI (XO (XI (XO
                     (XI (XI (XO (XO (XO (XO (XI XH))))))))))))))))); qden =
                     XH } { qnum = (Zpos XH); qden = (XO XH) }) i_1)
                 (qleb i_1
                   (qplus
                     (qopp { qnum = (Zpos (XO (XO (XO (XO (XI (XO (XO (XO (XI
                       (XI (XI (XO (XO XH)))))))))))))); qden = XH })
                     { qnum = (Zpos XH); qden = (XO XH) }))
            then let i_3 =
                   fmt_fixed (S (S (S (S (S (S (S (S O)))))))) (S O) i_1
                 in
                 Ok i_3
            else if (||)
                      (qleb
                        (qminus { qnum = (Zpos (XO (XO (XO (XO (XI (XO (XO
                          (XO (XI (XI (XI (XO (XO XH)))))))))))))); qden =
                          XH } { qnum = (Zpos XH); qden = (XO XH) }) i_1)
                      (qleb i_1
                        (qplus
                          (qopp { qnum = (Zpos (XO (XO (XO (XI (XO (XI (XI
                            (XI (XI XH)))))))))); qden = XH }) { qnum = (Zpos
                          XH); qden = (XO XH) }))
                 then let i_4 =
                        fmt_fixed (S (S (S (S (S (S (S (S O)))))))) (S (S O))
                          i_1
                      in
                      Ok i_4
                 else let i_5 =
                        fmt_fixed (S (S (S (S (S (S (S (S O)))))))) (S (S (S
                          O))) i_1
                      in
                      Ok i_5

(** val format_atomname_src : string -> string -> string res **)

let format_atomname_src data_name_1 data_element_2 =
  let lname_4 = length0 data_name_1 in
  if (||) (Nat.eqb lname_4 (S O)) (Nat.eqb lname_4 (S (S (S (S O)))))
  then let name_5 = center (S (S (S (S O)))) data_name_1 in Ok name_5
  else if Nat.eqb lname_4 (S (S O))
       then if eqb1 data_name_1 data_element_2
            then let name_6 = ljust (S (S (S (S O)))) data_name_1 in Ok name_6
            else let name_7 = center (S (S (S (S O)))) data_name_1 in
                 Ok name_7
       else if is_substring (char_at O data_name_1) (String ((Ascii (false,
                 false, false, false, true, true, false, false)), (String
                 ((Ascii (true, false, false, false, true, true, false,
                 false)), (String ((Ascii (false, true, false, false, true,
                 true, false, false)), (String ((Ascii (true, true, false,
                 false, true, true, false, false)), (String ((Ascii (false,
                 false, true, false, true, true, false, false)), (String
                 ((Ascii (true, false, true, false, true, true, false,
                 false)), (String ((Ascii (false, true, true, false, true,
                 true, false, false)), (String ((Ascii (true, true, true,
                 false, true, true, false, false)), (String ((Ascii (false,
                 false, false, true, true, true, false, false)), (String
                 ((Ascii (true, false, false, true, true, true, false,
                 false)), EmptyString))))))))))))))))))))
            then let name_8 = ljust (S (S (S (S O)))) data_name_1 in Ok name_8
            else let name_9 = rjust (S (S (S (S O)))) data_name_1 in Ok name_9

(** val export_layout_src : piece list **)

let export_layout_src =
  (PLit (String ((Ascii (true, false, false, false, false, false, true,
    false)), (String ((Ascii (false, false, true, false, true, false, true,
    false)), (String ((Ascii (true, true, true, true, false, false, true,
    false)), (String ((Ascii (true, false, true, true, false, false, true,
    false)), (String ((Ascii (false, false, false, false, false, true, false,
    false)), (String ((Ascii (false, false, false, false, false, true, false,
    false)), EmptyString))))))))))))) :: ((PField (O, ARight, (S (S (S (S (S
    O))))))) :: ((PLit (String ((Ascii (false, false, false, false, false,
    true, false, false)), EmptyString))) :: (PAtomName :: ((PField ((S (S
    O)), ARight, (S O))) :: ((PField ((S (S (S O))), ARight, (S (S (S
    O))))) :: ((PLit (String ((Ascii (false, false, false, false, false,
    true, false, false)), EmptyString))) :: ((PField ((S (S (S (S O)))),
    ARight, (S O))) :: ((PField ((S (S (S (S (S O))))), ARight, (S (S (S (S
    O)))))) :: ((PField ((S (S (S (S (S (S O)))))), ARight, (S O))) :: ((PLit
    (String ((Ascii (false, false, false, false, false, true, false, false)),
    (String ((Ascii (false, false, false, false, false, true, false, false)),
    (String ((Ascii (false, false, false, false, false, true, false, false)),
    EmptyString))))))) :: ((PXyz (S (S (S (S (S (S (S O)))))))) :: ((PXyz (S
    (S (S (S (S (S (S (S O))))))))) :: ((PXyz (S (S (S (S (S (S (S (S (S
    O)))))))))) :: ((PFixed ((S (S (S (S (S (S (S (S (S (S O)))))))))),
    ARight, (S (S (S (S (S (S O)))))), (S (S O)))) :: ((PFixed ((S (S (S (S
    (S (S (S (S (S (S (S O))))))))))), ARight, (S (S (S (S (S (S O)))))), (S
    (S O)))) :: ((PLit (String ((Ascii (false, false, false, false, false,
    true, false, false)), (String ((Ascii (false, false, false, false, false,
    true, false, false)), (String ((Ascii (false, false, false, false, false,
    true, false, false)), (String ((Ascii (false, false, false, false, false,
    true, false, false)), (String ((Ascii (false, false, false, false, false,
    true, false, false)), (String ((Ascii (false, false, false, false, false,
    true, false, false)), (String ((Ascii (false, false, false, false, false,
    true, false, false)), (String ((Ascii (false, false, false, false, false,
    true, false, false)), (String ((Ascii (false, false, false, false, false,
    true, false, false)), (String ((Ascii (false, false, false, false, false,
    true, false, false)), EmptyString))))))))))))))))))))) :: ((PField ((S (S
    (S (S (S (S (S (S (S (S (S (S O)))))))))))), ARight, (S (S
    O)))) :: ((PLit (String ((Ascii (false, false, false, false, false, true,
    false, false)), (String ((Ascii (false, false, false, false, false, true,
    false, false)), EmptyString))))) :: []))))))))))))))))))

(** val justify : align -> nat -> string -> string **)

let justify a0 w s =
  match a0 with
  | ARight -> rjust w s
  | ALeft -> ljust w s
  | ACenter -> center w s

(** val render_plain : val0 -> string res **)

let render_plain = function
| VInt z0 -> Ok (str_of_Z z0)
| VText s -> Ok s
| _ ->
  Err (String ((Ascii (true, true, true, true, false, false, true, false)),
    (String ((Ascii (true, false, true, false, true, true, true, false)),
    (String ((Ascii (false, false, true, false, true, true, true, false)),
    (String ((Ascii (true, true, true, true, false, false, true, false)),
    (String ((Ascii (false, true, true, false, false, true, true, false)),
    (String ((Ascii (true, false, true, true, false, false, true, false)),
    (String ((Ascii (true, true, true, true, false, true, true, false)),
    (String ((Ascii (false, false, true, false, false, true, true, false)),
    (String ((Ascii (true, false, true, false, false, true, true, false)),
    (String ((Ascii (false, false, true, true, false, true, true, false)),
    EmptyString))))))))))))))))))))

(** val num_of : val0 -> q res **)

let num_of = function
| VInt z0 -> Ok (inject_Z z0)
| VReal q0 -> Ok q0
| VText _ ->
  Err (String ((Ascii (false, true, true, false, true, false, true, false)),
    (String ((Ascii (true, false, false, false, false, true, true, false)),
    (String ((Ascii (false, false, true, true, false, true, true, false)),
    (String ((Ascii (true, false, true, false, true, true, true, false)),
    (String ((Ascii (true, false, true, false, false, true, true, false)),
    (String ((Ascii (true, false, true, false, false, false, true, false)),
    (String ((Ascii (false, true, false, false, true, true, true, false)),
    (String ((Ascii (false, true, false, false, true, true, true, false)),
    (String ((Ascii (true, true, true, true, false, true, true, false)),
    (String ((Ascii (false, true, false, false, true, true, true, false)),
    EmptyString))))))))))))))))))))
| _ ->
  Err (String ((Ascii (true, true, true, true, false, false, true, false)),
    (String ((Ascii (true, false, true, false, true, true, true, false)),
    (String ((Ascii (false, false, true, false, true, true, true, false)),
    (String ((Ascii (true, true, true, true, false, false, true, false)),
    (String ((Ascii (false, true, true, false, false, true, true, false)),
    (String ((Ascii (true, false, true, true, false, false, true, false)),
    (String ((Ascii (true, true, true, true, false, true, true, false)),
    (String ((Ascii (false, false, true, false, false, true, true, false)),
    (String ((Ascii (true, false, true, false, false, true, true, false)),
    (String ((Ascii (false, false, true, true, false, true, true, false)),
    EmptyString))))))))))))))))))))

(** val text_of : val0 -> string res **)

let text_of = function
| VText s -> Ok s
| _ ->
  Err (String ((Ascii (true, true, true, true, false, false, true, false)),
    (String ((Ascii (true, false, true, false, true, true, true, false)),
    (String ((Ascii (false, false, true, false, true, true, true, false)),
    (String ((Ascii (true, true, true, true, false, false, true, false)),
    (String ((Ascii (false, true, true, false, false, true, true, false)),
    (String ((Ascii (true, false, true, true, false, false, true, false)),
    (String ((Ascii (true, true, true, true, false, true, true, false)),
    (String ((Ascii (false, false, true, false, false, true, true, false)),
    (String ((Ascii (true, false, true, false, false, true, true, false)),
    (String ((Ascii (false, false, true, true, false, true, true, false)),
    EmptyString))))))))))))))))))))

(** val render_piece : row -> piece -> string res **)

let render_piece d = function
| PLit s -> Ok s
| PField (i, a0, w) ->
  bind (render_plain (nth i d VNull)) (fun s -> Ok (justify a0 w s))
| PFixed (i, a0, w, pr) ->
  (match a0 with
   | ARight ->
     bind (num_of (nth i d VNull)) (fun q0 -> Ok (fmt_fixed w pr q0))
   | _ ->
     Err (String ((Ascii (true, true, true, true, false, false, true,
       false)), (String ((Ascii (true, false, true, false, true, true, true,
       false)), (String ((Ascii (false, false, true, false, true, true, true,
       false)), (String ((Ascii (true, true, true, true, false, false, true,
       false)), (String ((Ascii (false, true, true, false, false, true, true,
       false)), (String ((Ascii (true, false, true, true, false, false, true,
       false)), (String ((Ascii (true, true, true, true, false, true, true,
       false)), (String ((Ascii (false, false, true, false, false, true,
       true, false)), (String ((Ascii (true, false, true, false, false, true,
       true, false)), (String ((Ascii (false, false, true, true, false, true,
       true, false)), EmptyString)))))))))))))))))))))
| PAtomName ->
  bind (text_of (nth (S O) d VNull)) (fun nm ->
    bind
      (text_of
        (nth (S (S (S (S (S (S (S (S (S (S (S (S O)))))))))))) d VNull))
      (fun el -> format_atomname_src nm el))
| PXyz i ->
  (match nth i d VNull with
   | VInt z0 -> format_xyz_src (inject_Z z0)
   | VReal q0 -> format_xyz_src q0
   | _ ->
     Err (String ((Ascii (true, true, true, true, false, false, true,
       false)), (String ((Ascii (true, false, true, false, true, true, true,
       false)), (String ((Ascii (false, false, true, false, true, true, true,
       false)), (String ((Ascii (true, true, true, true, false, false, true,
       false)), (String ((Ascii (false, true, true, false, false, true, true,
       false)), (String ((Ascii (true, false, true, true, false, false, true,
       false)), (String ((Ascii (true, true, true, true, false, true, true,
       false)), (String ((Ascii (false, false, true, false, false, true,
       true, false)), (String ((Ascii (true, false, true, false, false, true,
       true, false)), (String ((Ascii (false, false, true, true, false, true,
       true, false)), EmptyString)))))))))))))))))))))

(** val render_pieces : row -> piece list -> string res **)

let rec render_pieces d = function
| [] -> Ok EmptyString
| p :: t ->
  bind (render_piece d p) (fun s ->
    bind (render_pieces d t) (fun r -> Ok (append s r)))

(** val line_of_row : row -> string res **)

let line_of_row d =
  render_pieces d export_layout_src

(** val export : row list -> string list res **)

let export rows =
  mapM line_of_row rows

(** val clean : string -> bool **)

let clean s =
  eqb1 (trim s) s

(** val fits_int : z -> z -> val0 -> bool **)

let fits_int lo hi = function
| VInt z0 -> (&&) (Z.leb lo z0) (Z.leb z0 hi)
| _ -> false

(** val fits_text : nat -> nat -> val0 -> bool **)

let fits_text minlen maxlen = function
| VText s ->
  (&&) ((&&) (Nat.leb minlen (length0 s)) (Nat.leb (length0 s) maxlen))
    (clean s)
| _ -> false

(** val real_of : val0 -> q option **)

let real_of = function
| VInt z0 -> Some (inject_Z z0)
| VReal q0 -> Some q0
| _ -> None

(** val fits_real : q -> q -> val0 -> bool **)

let fits_real lo hi v0 =
  match real_of v0 with
  | Some q0 -> (&&) (qleb lo q0) (qleb q0 hi)
  | None -> false

(** val coord_lo : q **)

let coord_lo =
  qplus
    (qopp { qnum = (Zpos (XO (XO (XO (XO (XO (XO (XO (XI (XO (XI (XI (XO (XI
      (XO (XO (XI (XO (XO (XO (XI (XI (XO (XO XH))))))))))))))))))))))));
      qden = XH }) { qnum = (Zpos XH); qden = (XO XH) }

(** val coord_hi : q **)

let coord_hi =
  qminus { qnum = (Zpos (XO (XO (XO (XO (XO (XO (XO (XO (XI (XO (XO (XO (XO
    (XI (XI (XI (XI (XO (XI (XO (XI (XI (XI (XI (XI (XO
    XH))))))))))))))))))))))))))); qden = XH } { qnum = (Zpos XH); qden = (XO
    XH) }

(** val coord_in_range : val0 -> bool **)

let coord_in_range v0 =
  match real_of v0 with
  | Some q0 -> (&&) (qltb coord_lo q0) (qltb q0 coord_hi)
  | None -> false

(** val fits : row -> bool **)

let fits d =
  (&&)
    ((&&)
      ((&&)
        ((&&)
          ((&&)
            ((&&)
              ((&&)
                ((&&)
                  ((&&)
                    ((&&)
                      ((&&)
                        ((&&)
                          (fits_int (Zneg (XI (XI (XI (XI (XO (XO (XO (XO (XI
                            (XI (XI (XO (XO XH)))))))))))))) (Zpos (XI (XI
                            (XI (XI (XI (XO (XO (XI (XO (XI (XI (XO (XO (XO
                            (XO (XI XH))))))))))))))))) (nth O d VNull))
                          (fits_text (S O) (S (S (S (S O))))
                            (nth (S O) d VNull)))
                        (fits_text O (S O) (nth (S (S O)) d VNull)))
                      (fits_text (S O) (S (S (S O)))
                        (nth (S (S (S O))) d VNull)))
                    (fits_text O (S O) (nth (S (S (S (S O)))) d VNull)))
                  (fits_int (Zneg (XI (XI (XI (XO (XO (XI (XI (XI (XI
                    XH)))))))))) (Zpos (XI (XI (XI (XI (XO (XO (XO (XO (XI
                    (XI (XI (XO (XO XH))))))))))))))
                    (nth (S (S (S (S (S O))))) d VNull)))
                (fits_text O (S O) (nth (S (S (S (S (S (S O)))))) d VNull)))
              (coord_in_range (nth (S (S (S (S (S (S (S O))))))) d VNull)))
            (coord_in_range (nth (S (S (S (S (S (S (S (S O)))))))) d VNull)))
          (coord_in_range (nth (S (S (S (S (S (S (S (S (S O))))))))) d VNull)))
        (fits_real
          (qopp { qnum = (Zpos (XI (XI (XI (XI (XO (XO (XO (XO (XI (XI (XI
            (XO (XO XH)))))))))))))); qden = (XO (XO (XI (XO (XO (XI
            XH)))))) }) { qnum = (Zpos (XI (XI (XI (XI (XI (XO (XO (XI (XO
          (XI (XI (XO (XO (XO (XO (XI XH))))))))))))))))); qden = (XO (XO (XI
          (XO (XO (XI XH)))))) }
          (nth (S (S (S (S (S (S (S (S (S (S O)))))))))) d VNull)))
      (fits_real
        (qopp { qnum = (Zpos (XI (XI (XI (XI (XO (XO (XO (XO (XI (XI (XI (XO
          (XO XH)))))))))))))); qden = (XO (XO (XI (XO (XO (XI XH)))))) })
        { qnum = (Zpos (XI (XI (XI (XI (XI (XO (XO (XI (XO (XI (XI (XO (XO
        (XO (XO (XI XH))))))))))))))))); qden = (XO (XO (XI (XO (XO (XI
        XH)))))) }
        (nth (S (S (S (S (S (S (S (S (S (S (S O))))))))))) d VNull)))
    (fits_text (S O) (S (S O))
      (nth (S (S (S (S (S (S (S (S (S (S (S (S O)))))))))))) d VNull))

(** val decimal_value : string -> (q * nat) option **)

let decimal_value s0 =
  let s = trim s0 in
  let (neg, body) = split_sign s in
  let (ip, fp) = split_dot body in
  let fpart = match fp with
              | Some f -> f
              | None -> EmptyString in
  if (&&) ((&&) (all_digits ip) (all_digits fpart)) (str_nonempty ip)
  then let q0 = { qnum = (digits_val Z0 (append ip fpart)); qden =
         (Z.to_pos (pow10 (length0 fpart))) }
       in
       Some ((if neg then qopp q0 else q0), (length0 fpart))
  else None

(** val int_digits : q -> nat **)

let int_digits q0 =
  length0 (digits (qfloor (qabs q0)))

(** val max_fit : q -> nat **)

let max_fit q0 =
  Nat.min (S (S (S O)))
    (sub
      (sub (S (S (S (S (S (S (S (S O))))))))
        (add (int_digits q0)
          (if qltb q0 { qnum = Z0; qden = XH } then S O else O))) (S O))

(** val near_power_of_ten : q -> bool **)

let near_power_of_ten q0 =
  let a0 = qabs q0 in
  existsb (fun k ->
    (&&)
      (qleb
        (qminus (inject_Z (Z.pow (Zpos (XO (XI (XO XH)))) k)) { qnum = (Zpos
          XH); qden = (XO XH) }) a0)
      (qltb a0 (inject_Z (Z.pow (Zpos (XO (XI (XO XH)))) k)))) ((Zpos (XI
    XH)) :: ((Zpos (XO (XO XH))) :: ((Zpos (XI (XO XH))) :: ((Zpos (XO (XI
    XH))) :: ((Zpos (XI (XI XH))) :: ((Zpos (XO (XO (XO XH)))) :: []))))))

(** val coord_ok : val0 -> string -> bool **)

let coord_ok v0 field =
  match real_of v0 with
  | Some q0 ->
    (match decimal_value field with
     | Some p ->
       let (r, k) = p in
       (&&)
         ((&&) (Nat.eqb (length0 field) (S (S (S (S (S (S (S (S O)))))))))
           (qleb (qabs (qminus r q0))
             (qdiv { qnum = (Zpos XH); qden = (XO XH) } (inject_Z (pow10 k)))))
         (if (&&)
               (qltb
                 (qopp { qnum = (Zpos (XI (XI (XO (XI (XO (XO (XO (XO (XI (XI
                   (XI (XO (XO XH)))))))))))))); qden = (XO (XI (XO XH))) })
                 q0)
               (qltb q0 { qnum = (Zpos (XI (XI (XO (XI (XI (XO (XO (XI (XO
                 (XI (XI (XO (XO (XO (XO (XI XH))))))))))))))))); qden = (XO
                 (XI (XO XH))) })
          then Nat.eqb k (S (S (S O)))
          else (||) (Nat.eqb k (max_fit q0))
                 ((&&) (near_power_of_ten q0) (Nat.eqb (S k) (max_fit q0))))
     | None -> false)
  | None -> false

(** val text_ok : val0 -> string -> bool **)

let text_ok v0 field =
  match v0 with
  | VText s -> eqb1 (trim field) s
  | _ -> false

(** val int_ok : val0 -> string -> bool **)

let int_ok v0 field =
  match v0 with
  | VInt z0 ->
    (match parse_int field with
     | NumOk z' -> Z.eqb z0 z'
     | _ -> false)
  | _ -> false

(** val real2_ok : val0 -> string -> bool **)

let real2_ok v0 field =
  match real_of v0 with
  | Some q0 ->
    (match decimal_value field with
     | Some p ->
       let (r, k) = p in
       (&&) (Nat.eqb k (S (S O)))
         (qleb (qabs (qminus r q0)) { qnum = (Zpos (XI (XO XH))); qden = (XO
           (XO (XO (XI (XO (XI (XI (XI (XI XH))))))))) })
     | None -> false)
  | None -> false

(** val line_ok : row -> string -> bool **)

let line_ok d line =
  (&&)
    ((&&)
      ((&&)
        ((&&)
          ((&&)
            ((&&)
              ((&&)
                ((&&)
                  ((&&)
                    ((&&)
                      ((&&)
                        ((&&)
                          ((&&)
                            ((&&)
                              (Nat.eqb (length0 line) (S (S (S (S (S (S (S (S
                                (S (S (S (S (S (S (S (S (S (S (S (S (S (S (S
                                (S (S (S (S (S (S (S (S (S (S (S (S (S (S (S
                                (S (S (S (S (S (S (S (S (S (S (S (S (S (S (S
                                (S (S (S (S (S (S (S (S (S (S (S (S (S (S (S
                                (S (S (S (S (S (S (S (S (S (S (S (S
                                O)))))))))))))))))))))))))))))))))))))))))))))))))))))))))))))))))))))))))))))))))
                              (eqb1
                                (substring O (S (S (S (S (S (S O)))))) line)
                                (String ((Ascii (true, false, false, false,
                                false, false, true, false)), (String ((Ascii
                                (false, false, true, false, true, false,
                                true, false)), (String ((Ascii (true, true,
                                true, true, false, false, true, false)),
                                (String ((Ascii (true, false, true, true,
                                false, false, true, false)), (String ((Ascii
                                (false, false, false, false, false, true,
                                false, false)), (String ((Ascii (false,
                                false, false, false, false, true, false,
                                false)), EmptyString))))))))))))))
                            (int_ok (nth O d VNull)
                              (columns (S (S (S (S (S (S (S O))))))) (S (S (S
                                (S (S (S (S (S (S (S (S O))))))))))) line)))
                          (text_ok (nth (S O) d VNull)
                            (columns (S (S (S (S (S (S (S (S (S (S (S (S (S
                              O))))))))))))) (S (S (S (S (S (S (S (S (S (S (S
                              (S (S (S (S (S O)))))))))))))))) line)))
                        (text_ok (nth (S (S O)) d VNull)
                          (columns (S (S (S (S (S (S (S (S (S (S (S (S (S (S
                            (S (S (S O))))))))))))))))) (S (S (S (S (S (S (S
                            (S (S (S (S (S (S (S (S (S (S O)))))))))))))))))
                            line)))
                      (text_ok (nth (S (S (S O))) d VNull)
                        (columns (S (S (S (S (S (S (S (S (S (S (S (S (S (S (S
                          (S (S (S O)))))))))))))))))) (S (S (S (S (S (S (S
                          (S (S (S (S (S (S (S (S (S (S (S (S (S
                          O)))))))))))))))))))) line)))
                    (text_ok (nth (S (S (S (S O)))) d VNull)
                      (columns (S (S (S (S (S (S (S (S (S (S (S (S (S (S (S
                        (S (S (S (S (S (S (S O)))))))))))))))))))))) (S (S (S
                        (S (S (S (S (S (S (S (S (S (S (S (S (S (S (S (S (S (S
                        (S O)))))))))))))))))))))) line)))
                  (int_ok (nth (S (S (S (S (S O))))) d VNull)
                    (columns (S (S (S (S (S (S (S (S (S (S (S (S (S (S (S (S
                      (S (S (S (S (S (S (S O))))))))))))))))))))))) (S (S (S
                      (S (S (S (S (S (S (S (S (S (S (S (S (S (S (S (S (S (S
                      (S (S (S (S (S O)))))))))))))))))))))))))) line)))
                (text_ok (nth (S (S (S (S (S (S O)))))) d VNull)
                  (columns (S (S (S (S (S (S (S (S (S (S (S (S (S (S (S (S (S
                    (S (S (S (S (S (S (S (S (S (S
                    O))))))))))))))))))))))))))) (S (S (S (S (S (S (S (S (S
                    (S (S (S (S (S (S (S (S (S (S (S (S (S (S (S (S (S (S
                    O))))))))))))))))))))))))))) line)))
              (coord_ok (nth (S (S (S (S (S (S (S O))))))) d VNull)
                (columns (S (S (S (S (S (S (S (S (S (S (S (S (S (S (S (S (S
                  (S (S (S (S (S (S (S (S (S (S (S (S (S (S
                  O))))))))))))))))))))))))))))))) (S (S (S (S (S (S (S (S (S
                  (S (S (S (S (S (S (S (S (S (S (S (S (S (S (S (S (S (S (S (S
                  (S (S (S (S (S (S (S (S (S
                  O)))))))))))))))))))))))))))))))))))))) line)))
            (coord_ok (nth (S (S (S (S (S (S (S (S O)))))))) d VNull)
              (columns (S (S (S (S (S (S (S (S (S (S (S (S (S (S (S (S (S (S
                (S (S (S (S (S (S (S (S (S (S (S (S (S (S (S (S (S (S (S (S
                (S O))))))))))))))))))))))))))))))))))))))) (S (S (S (S (S (S
                (S (S (S (S (S (S (S (S (S (S (S (S (S (S (S (S (S (S (S (S
                (S (S (S (S (S (S (S (S (S (S (S (S (S (S (S (S (S (S (S (S
                O)))))))))))))))))))))))))))))))))))))))))))))) line)))
          (coord_ok (nth (S (S (S (S (S (S (S (S (S O))))))))) d VNull)
            (columns (S (S (S (S (S (S (S (S (S (S (S (S (S (S (S (S (S (S (S
              (S (S (S (S (S (S (S (S (S (S (S (S (S (S (S (S (S (S (S (S (S
              (S (S (S (S (S (S (S
              O))))))))))))))))))))))))))))))))))))))))))))))) (S (S (S (S (S
              (S (S (S (S (S (S (S (S (S (S (S (S (S (S (S (S (S (S (S (S (S
              (S (S (S (S (S (S (S (S (S (S (S (S (S (S (S (S (S (S (S (S (S
              (S (S (S (S (S (S (S
              O)))))))))))))))))))))))))))))))))))))))))))))))))))))) line)))
        (real2_ok (nth (S (S (S (S (S (S (S (S (S (S O)))))))))) d VNull)
          (columns (S (S (S (S (S (S (S (S (S (S (S (S (S (S (S (S (S (S (S
            (S (S (S (S (S (S (S (S (S (S (S (S (S (S (S (S (S (S (S (S (S (S
            (S (S (S (S (S (S (S (S (S (S (S (S (S (S
            O))))))))))))))))))))))))))))))))))))))))))))))))))))))) (S (S (S
            (S (S (S (S (S (S (S (S (S (S (S (S (S (S (S (S (S (S (S (S (S (S
            (S (S (S (S (S (S (S (S (S (S (S (S (S (S (S (S (S (S (S (S (S (S
            (S (S (S (S (S (S (S (S (S (S (S (S (S
            O))))))))))))))))))))))))))))))))))))))))))))))))))))))))))))
            line)))
      (real2_ok (nth (S (S (S (S (S (S (S (S (S (S (S O))))))))))) d VNull)
        (columns (S (S (S (S (S (S (S (S (S (S (S (S (S (S (S (S (S (S (S (S
          (S (S (S (S (S (S (S (S (S (S (S (S (S (S (S (S (S (S (S (S (S (S
          (S (S (S (S (S (S (S (S (S (S (S (S (S (S (S (S (S (S (S
          O))))))))))))))))))))))))))))))))))))))))))))))))))))))))))))) (S
          (S (S (S (S (S (S (S (S (S (S (S (S (S (S (S (S (S (S (S (S (S (S
          (S (S (S (S (S (S (S (S (S (S (S (S (S (S (S (S (S (S (S (S (S (S
          (S (S (S (S (S (S (S (S (S (S (S (S (S (S (S (S (S (S (S (S (S
          O))))))))))))))))))))))))))))))))))))))))))))))))))))))))))))))))))
          line)))
    (text_ok (nth (S (S (S (S (S (S (S (S (S (S (S (S O)))))))))))) d VNull)
      (columns (S (S (S (S (S (S (S (S (S (S (S (S (S (S (S (S (S (S (S (S (S
        (S (S (S (S (S (S (S (S (S (S (S (S (S (S (S (S (S (S (S (S (S (S (S
        (S (S (S (S (S (S (S (S (S (S (S (S (S (S (S (S (S (S (S (S (S (S (S
        (S (S (S (S (S (S (S (S (S (S
        O)))))))))))))))))))))))))))))))))))))))))))))))))))))))))))))))))))))))))))))
        (S (S (S (S (S (S (S (S (S (S (S (S (S (S (S (S (S (S (S (S (S (S (S
        (S (S (S (S (S (S (S (S (S (S (S (S (S (S (S (S (S (S (S (S (S (S (S
        (S (S (S (S (S (S (S (S (S (S (S (S (S (S (S (S (S (S (S (S (S (S (S
        (S (S (S (S (S (S (S (S (S
        O))))))))))))))))))))))))))))))))))))))))))))))))))))))))))))))))))))))))))))))
        line))

(** val val_eqb : val0 -> val0 -> bool **)

let val_eqb a0 b =
  match a0 with
  | VInt x -> (match b with
               | VInt y -> Z.eqb x y
               | _ -> false)
  | VReal x -> (match b with
                | VReal y -> qeqb x y
                | _ -> false)
  | VText x -> (match b with
                | VText y -> eqb1 x y
                | _ -> false)
  | _ -> false

(** val slack : q -> q **)

let slack x =
  qplus
    (qmult (qabs x) { qnum = (Zpos XH); qden = (XO (XO (XO (XO (XO (XO (XO
      (XO (XO (XO (XO (XO (XO (XO (XO (XO (XO (XO (XO (XO (XO (XO (XO (XO (XO
      (XO (XO (XO (XO (XO (XO (XO (XO (XO (XO (XO (XO (XO (XO (XO (XO (XO (XO
      (XO (XO (XO (XO (XO (XO (XO
      XH)))))))))))))))))))))))))))))))))))))))))))))))))) }) { qnum = (Zpos
    XH); qden = (XO (XO (XO (XO (XO (XO (XO (XO (XO (XO (XO (XO (XI (XO (XO
    (XO (XI (XO (XI (XO (XO (XI (XO (XI (XO (XO (XI (XO (XI (XO (XI (XI (XO
    (XO (XO (XI (XO (XI (XI XH))))))))))))))))))))))))))))))))))))))) }

(** val within : q -> val0 -> val0 -> bool **)

let within tol a0 b =
  match real_of a0 with
  | Some x ->
    (match real_of b with
     | Some y -> qleb (qabs (qminus x y)) (qplus tol (slack x))
     | None -> false)
  | None -> false

(** val coord_tol : val0 -> q **)

let coord_tol v0 =
  match real_of v0 with
  | Some q0 ->
    if (&&)
         (qltb
           (qopp { qnum = (Zpos (XI (XI (XO (XI (XO (XO (XO (XO (XI (XI (XI
             (XO (XO XH)))))))))))))); qden = (XO (XI (XO XH))) }) q0)
         (qltb q0 { qnum = (Zpos (XI (XI (XO (XI (XI (XO (XO (XI (XO (XI (XI
           (XO (XO (XO (XO (XI XH))))))))))))))))); qden = (XO (XI (XO
           XH))) })
    then { qnum = (Zpos (XI (XO XH))); qden = (XO (XO (XO (XO (XI (XO (XO (XO
           (XI (XI (XI (XO (XO XH))))))))))))) }
    else qdiv { qnum = (Zpos XH); qden = (XO XH) }
           (inject_Z (pow10 (Nat.pred (max_fit q0))))
  | None -> { qnum = Z0; qden = XH }

(** val approx_row : row -> row -> bool **)

let approx_row d d' =
  (&&)
    ((&&)
      ((&&)
        (Nat.eqb (length d') (S (S (S (S (S (S (S (S (S (S (S (S (S (S
          O)))))))))))))))
        (forallb (fun i -> val_eqb (nth i d VNull) (nth i d' VNull))
          (O :: ((S O) :: ((S (S O)) :: ((S (S (S O))) :: ((S (S (S (S
          O)))) :: ((S (S (S (S (S O))))) :: ((S (S (S (S (S (S
          O)))))) :: ((S (S (S (S (S (S (S (S (S (S (S (S
          O)))))))))))) :: []))))))))))
      (forallb (fun i ->
        within (coord_tol (nth i d VNull)) (nth i d VNull) (nth i d' VNull))
        ((S (S (S (S (S (S (S O))))))) :: ((S (S (S (S (S (S (S (S
        O)))))))) :: ((S (S (S (S (S (S (S (S (S O))))))))) :: [])))))
    (forallb (fun i ->
      within { qnum = (Zpos (XI (XO XH))); qden = (XO (XO (XO (XI (XO (XI (XI
        (XI (XI XH))))))))) } (nth i d VNull) (nth i d' VNull)) ((S (S (S (S
      (S (S (S (S (S (S O)))))))))) :: ((S (S (S (S (S (S (S (S (S (S (S
      O))))))))))) :: [])))

(** val row_of_V : v -> row **)

let row_of_V v0 =
  map val_of_V (getL v0)

(** val run_export : string -> v list -> v option **)

let run_export cmd a0 =
  if eqb1 cmd (String ((Ascii (true, false, true, false, false, true, true,
       false)), (String ((Ascii (false, false, false, true, true, true, true,
       false)), (String ((Ascii (false, false, false, false, true, true,
       true, false)), (String ((Ascii (true, true, true, true, false, true,
       true, false)), (String ((Ascii (false, true, false, false, true, true,
       true, false)), (String ((Ascii (false, false, true, false, true, true,
       true, false)), (String ((Ascii (false, true, true, true, false, true,
       false, false)), (String ((Ascii (false, false, true, true, false,
       true, true, false)), (String ((Ascii (true, false, false, true, false,
       true, true, false)), (String ((Ascii (false, true, true, true, false,
       true, true, false)), (String ((Ascii (true, false, true, false, false,
       true, true, false)), EmptyString))))))))))))))))))))))
  then Some
         (vres
           (bind (line_of_row (row_of_V (nth O a0 (VZ Z0)))) (fun s -> Ok (VS
             s))))
  else if eqb1 cmd (String ((Ascii (true, false, true, false, false, true,
            true, false)), (String ((Ascii (false, false, false, true, true,
            true, true, false)), (String ((Ascii (false, false, false, false,
            true, true, true, false)), (String ((Ascii (true, true, true,
            true, false, true, true, false)), (String ((Ascii (false, true,
            false, false, true, true, true, false)), (String ((Ascii (false,
            false, true, false, true, true, true, false)), (String ((Ascii
            (false, true, true, true, false, true, false, false)), (String
            ((Ascii (false, false, false, true, true, true, true, false)),
            (String ((Ascii (true, false, false, true, true, true, true,
            false)), (String ((Ascii (false, true, false, true, true, true,
            true, false)), EmptyString))))))))))))))))))))
       then Some
              (vres
                (bind (format_xyz_src (getQ (nth O a0 (VZ Z0)))) (fun s -> Ok
                  (VS s))))
       else if eqb1 cmd (String ((Ascii (true, false, true, false, false,
                 true, true, false)), (String ((Ascii (false, false, false,
                 true, true, true, true, false)), (String ((Ascii (false,
                 false, false, false, true, true, true, false)), (String
                 ((Ascii (true, true, true, true, false, true, true, false)),
                 (String ((Ascii (false, true, false, false, true, true,
                 true, false)), (String ((Ascii (false, false, true, false,
                 true, true, true, false)), (String ((Ascii (false, true,
                 true, true, false, true, false, false)), (String ((Ascii
                 (true, false, false, false, false, true, true, false)),
                 (String ((Ascii (false, false, true, false, true, true,
                 true, false)), (String ((Ascii (true, true, true, true,
                 false, true, true, false)), (String ((Ascii (true, false,
                 true, true, false, true, true, false)), (String ((Ascii
                 (false, true, true, true, false, true, true, false)),
                 (String ((Ascii (true, false, false, false, false, true,
                 true, false)), (String ((Ascii (true, false, true, true,
                 false, true, true, false)), (String ((Ascii (true, false,
                 true, false, false, true, true, false)),
                 EmptyString))))))))))))))))))))))))))))))
            then Some
                   (vres
                     (bind
                       (format_atomname_src (getS (nth O a0 (VZ Z0)))
                         (getS (nth (S O) a0 (VZ Z0)))) (fun s -> Ok (VS s))))
            else if eqb1 cmd (String ((Ascii (true, true, false, false, true,
                      true, true, false)), (String ((Ascii (false, false,
                      false, false, true, true, true, false)), (String
                      ((Ascii (true, false, true, false, false, true, true,
                      false)), (String ((Ascii (true, true, false, false,
                      false, true, true, false)), (String ((Ascii (false,
                      true, true, true, false, true, false, false)), (String
                      ((Ascii (true, false, true, false, false, true, true,
                      false)), (String ((Ascii (false, false, false, true,
                      true, true, true, false)), (String ((Ascii (false,
                      false, false, false, true, true, true, false)), (String
                      ((Ascii (true, true, true, true, false, true, true,
                      false)), (String ((Ascii (false, true, false, false,
                      true, true, true, false)), (String ((Ascii (false,
                      false, true, false, true, true, true, false)), (String
                      ((Ascii (false, true, true, true, false, true, false,
                      false)), (String ((Ascii (false, true, true, false,
                      false, true, true, false)), (String ((Ascii (true,
                      false, false, true, false, true, true, false)), (String
                      ((Ascii (false, false, true, false, true, true, true,
                      false)), (String ((Ascii (true, true, false, false,
                      true, true, true, false)),
                      EmptyString))))))))))))))))))))))))))))))))
                 then Some (vB (fits (row_of_V (nth O a0 (VZ Z0)))))
                 else if eqb1 cmd (String ((Ascii (true, true, false, false,
                           true, true, true, false)), (String ((Ascii (false,
                           false, false, false, true, true, true, false)),
                           (String ((Ascii (true, false, true, false, false,
                           true, true, false)), (String ((Ascii (true, true,
                           false, false, false, true, true, false)), (String
                           ((Ascii (false, true, true, true, false, true,
                           false, false)), (String ((Ascii (true, false,
                           true, false, false, true, true, false)), (String
                           ((Ascii (false, false, false, true, true, true,
                           true, false)), (String ((Ascii (false, false,
                           false, false, true, true, true, false)), (String
                           ((Ascii (true, true, true, true, false, true,
                           true, false)), (String ((Ascii (false, true,
                           false, false, true, true, true, false)), (String
                           ((Ascii (false, false, true, false, true, true,
                           true, false)), (String ((Ascii (false, true, true,
                           true, false, true, false, false)), (String ((Ascii
                           (false, false, true, true, false, true, true,
                           false)), (String ((Ascii (true, false, false,
                           true, false, true, true, false)), (String ((Ascii
                           (false, true, true, true, false, true, true,
                           false)), (String ((Ascii (true, false, true,
                           false, false, true, true, false)), (String ((Ascii
                           (true, true, true, true, true, false, true,
                           false)), (String ((Ascii (true, true, true, true,
                           false, true, true, false)), (String ((Ascii (true,
                           true, false, true, false, true, true, false)),
                           EmptyString))))))))))))))))))))))))))))))))))))))
                      then Some
                             (vB
                               (line_ok (row_of_V (nth O a0 (VZ Z0)))
                                 (getS (nth (S O) a0 (VZ Z0)))))
                      else if eqb1 cmd (String ((Ascii (true, true, false,
                                false, true, true, true, false)), (String
                                ((Ascii (false, false, false, false, true,
                                true, true, false)), (String ((Ascii (true,
                                false, true, false, false, true, true,
                                false)), (String ((Ascii (true, true, false,
                                false, false, true, true, false)), (String
                                ((Ascii (false, true, true, true, false,
                                true, false, false)), (String ((Ascii (true,
                                false, true, false, false, true, true,
                                false)), (String ((Ascii (false, false,
                                false, true, true, true, true, false)),
                                (String ((Ascii (false, false, false, false,
                                true, true, true, false)), (String ((Ascii
                                (true, true, true, true, false, true, true,
                                false)), (String ((Ascii (false, true, false,
                                false, true, true, true, false)), (String
                                ((Ascii (false, false, true, false, true,
                                true, true, false)), (String ((Ascii (false,
                                true, true, true, false, true, false,
                                false)), (String ((Ascii (true, true, false,
                                false, false, true, true, false)), (String
                                ((Ascii (true, true, true, true, false, true,
                                true, false)), (String ((Ascii (true, true,
                                true, true, false, true, true, false)),
                                (String ((Ascii (false, true, false, false,
                                true, true, true, false)), (String ((Ascii
                                (false, false, true, false, false, true,
                                true, false)), (String ((Ascii (true, true,
                                true, true, true, false, true, false)),
                                (String ((Ascii (true, true, true, true,
                                false, true, true, false)), (String ((Ascii
                                (true, true, false, true, false, true, true,
                                false)),
                                EmptyString))))))))))))))))))))))))))))))))))))))))
                           then Some
                                  (vB
                                    (coord_ok (VReal
                                      (getQ (nth O a0 (VZ Z0))))
                                      (getS (nth (S O) a0 (VZ Z0)))))
                           else if eqb1 cmd (String ((Ascii (true, true,
                                     false, false, true, true, true, false)),
                                     (String ((Ascii (false, false, false,
                                     false, true, true, true, false)),
                                     (String ((Ascii (true, false, true,
                                     false, false, true, true, false)),
                                     (String ((Ascii (true, true, false,
                                     false, false, true, true, false)),
                                     (String ((Ascii (false, true, true,
                                     true, false, true, false, false)),
                                     (String ((Ascii (true, false, true,
                                     false, false, true, true, false)),
                                     (String ((Ascii (false, false, false,
                                     true, true, true, true, false)), (String
                                     ((Ascii (false, false, false, false,
                                     true, true, true, false)), (String
                                     ((Ascii (true, true, true, true, false,
                                     true, true, false)), (String ((Ascii
                                     (false, true, false, false, true, true,
                                     true, false)), (String ((Ascii (false,
                                     false, true, false, true, true, true,
                                     false)), (String ((Ascii (false, true,
                                     true, true, false, true, false, false)),
                                     (String ((Ascii (true, true, false,
                                     false, false, true, true, false)),
                                     (String ((Ascii (true, true, true, true,
                                     false, true, true, false)), (String
                                     ((Ascii (true, true, true, true, false,
                                     true, true, false)), (String ((Ascii
                                     (false, true, false, false, true, true,
                                     true, false)), (String ((Ascii (false,
                                     false, true, false, false, true, true,
                                     false)), (String ((Ascii (true, true,
                                     true, true, true, false, true, false)),
                                     (String ((Ascii (true, false, false,
                                     true, false, true, true, false)),
                                     (String ((Ascii (false, true, true,
                                     true, false, true, true, false)),
                                     (String ((Ascii (true, true, true, true,
                                     true, false, true, false)), (String
                                     ((Ascii (false, true, false, false,
                                     true, true, true, false)), (String
                                     ((Ascii (true, false, false, false,
                                     false, true, true, false)), (String
                                     ((Ascii (false, true, true, true, false,
                                     true, true, false)), (String ((Ascii
                                     (true, true, true, false, false, true,
                                     true, false)), (String ((Ascii (true,
                                     false, true, false, false, true, true,
                                     false)),
                                     EmptyString))))))))))))))))))))))))))))))))))))))))))))))))))))
                                then Some
                                       (vB
                                         (coord_in_range (VReal
                                           (getQ (nth O a0 (VZ Z0))))))
                                else if eqb1 cmd (String ((Ascii (true, true,
                                          false, false, true, true, true,
                                          false)), (String ((Ascii (false,
                                          false, false, false, true, true,
                                          true, false)), (String ((Ascii
                                          (true, false, true, false, false,
                                          true, true, false)), (String
                                          ((Ascii (true, true, false, false,
                                          false, true, true, false)), (String
                                          ((Ascii (false, true, true, true,
                                          false, true, false, false)),
                                          (String ((Ascii (true, false, true,
                                          false, false, true, true, false)),
                                          (String ((Ascii (false, false,
                                          false, true, true, true, true,
                                          false)), (String ((Ascii (false,
                                          false, false, false, true, true,
                                          true, false)), (String ((Ascii
                                          (true, true, true, true, false,
                                          true, true, false)), (String
                                          ((Ascii (false, true, false, false,
                                          true, true, true, false)), (String
                                          ((Ascii (false, false, true, false,
                                          true, true, true, false)), (String
                                          ((Ascii (false, true, true, true,
                                          false, true, false, false)),
                                          (String ((Ascii (true, false,
                                          false, false, false, true, true,
                                          false)), (String ((Ascii (false,
                                          false, false, false, true, true,
                                          true, false)), (String ((Ascii
                                          (false, false, false, false, true,
                                          true, true, false)), (String
                                          ((Ascii (false, true, false, false,
                                          true, true, true, false)), (String
                                          ((Ascii (true, true, true, true,
                                          false, true, true, false)), (String
                                          ((Ascii (false, false, false, true,
                                          true, true, true, false)), (String
                                          ((Ascii (true, true, true, true,
                                          true, false, true, false)), (String
                                          ((Ascii (false, true, false, false,
                                          true, true, true, false)), (String
                                          ((Ascii (true, true, true, true,
                                          false, true, true, false)), (String
                                          ((Ascii (true, true, true, false,
                                          true, true, true, false)),
                                          EmptyString))))))))))))))))))))))))))))))))))))))))))))
                                     then Some
                                            (vB
                                              (approx_row
                                                (row_of_V (nth O a0 (VZ Z0)))
                                                (row_of_V
                                                  (nth (S O) a0 (VZ Z0)))))
                                     else None

(** val val_eqb0 : val0 -> val0 -> bool **)

let val_eqb0 a0 b =
  match a0 with
  | VInt x ->
    (match b with
     | VInt y -> Z.eqb x y
     | VReal y -> qeq_bool (inject_Z x) y
     | _ -> false)
  | VReal x ->
    (match b with
     | VInt y -> qeq_bool x (inject_Z y)
     | VReal y -> qeq_bool x y
     | _ -> false)
  | VText x -> (match b with
                | VText y -> eqb1 x y
                | _ -> false)
  | _ -> false

type table = row list

(** val key_of : nat list -> row -> val0 list **)

let key_of idx r =
  map (fun i -> nth i r VNull) idx

(** val keys_eqb : val0 list -> val0 list -> bool **)

let rec keys_eqb a0 b =
  match a0 with
  | [] -> (match b with
           | [] -> true
           | _ :: _ -> false)
  | x :: a' ->
    (match b with
     | [] -> false
     | y :: b' -> (&&) (val_eqb0 x y) (keys_eqb a' b'))

(** val same_key : nat list -> row -> row -> bool **)

let same_key idx r r' =
  keys_eqb (key_of idx r) (key_of idx r')

(** val join : nat list -> table list -> row list list **)

let rec join idx = function
| [] -> [] :: []
| t :: rest ->
  flat_map (fun r ->
    map (fun x -> r :: x) (filter (forallb (same_key idx r)) (join idx rest)))
    t

(** val project : nat list -> row -> row **)

let project cols r =
  map (fun i -> nth i r VNull) cols

(** val get_intersection :
    nat list -> nat list -> table list -> row list list **)

let get_intersection idx cols tables0 =
  let tuples = join idx tables0 in
  map (fun it -> map (fun tup -> project cols (nth it tup [])) tuples)
    (seq O (length tables0))

(** val std_cols : string list **)

let std_cols =
  (String ((Ascii (true, true, false, false, true, true, true, false)),
    (String ((Ascii (true, false, true, false, false, true, true, false)),
    (String ((Ascii (false, true, false, false, true, true, true, false)),
    (String ((Ascii (true, false, false, true, false, true, true, false)),
    (String ((Ascii (true, false, false, false, false, true, true, false)),
    (String ((Ascii (false, false, true, true, false, true, true, false)),
    EmptyString)))))))))))) :: ((String ((Ascii (false, true, true, true,
    false, true, true, false)), (String ((Ascii (true, false, false, false,
    false, true, true, false)), (String ((Ascii (true, false, true, true,
    false, true, true, false)), (String ((Ascii (true, false, true, false,
    false, true, true, false)), EmptyString)))))))) :: ((String ((Ascii
    (true, false, false, false, false, true, true, false)), (String ((Ascii
    (false, false, true, true, false, true, true, false)), (String ((Ascii
    (false, false, true, false, true, true, true, false)), (String ((Ascii
    (false, false, true, true, false, false, true, false)), (String ((Ascii
    (true, true, true, true, false, true, true, false)), (String ((Ascii
    (true, true, false, false, false, true, true, false)),
    EmptyString)))))))))))) :: ((String ((Ascii (false, true, false, false,
    true, true, true, false)), (String ((Ascii (true, false, true, false,
    false, true, true, false)), (String ((Ascii (true, true, false, false,
    true, true, true, false)), (String ((Ascii (false, true, true, true,
    false, false, true, false)), (String ((Ascii (true, false, false, false,
    false, true, true, false)), (String ((Ascii (true, false, true, true,
    false, true, true, false)), (String ((Ascii (true, false, true, false,
    false, true, true, false)), EmptyString)))))))))))))) :: ((String ((Ascii
    (true, true, false, false, false, true, true, false)), (String ((Ascii
    (false, false, false, true, false, true, true, false)), (String ((Ascii
    (true, false, false, false, false, true, true, false)), (String ((Ascii
    (true, false, false, true, false, true, true, false)), (String ((Ascii
    (false, true, true, true, false, true, true, false)), (String ((Ascii
    (true, false, false, true, false, false, true, false)), (String ((Ascii
    (false, false, true, false, false, false, true, false)),
    EmptyString)))))))))))))) :: ((String ((Ascii (false, true, false, false,
    true, true, true, false)), (String ((Ascii (true, false, true, false,
    false, true, true, false)), (String ((Ascii (true, true, false, false,
    true, true, true, false)), (String ((Ascii (true, true, false, false,
    true, false, true, false)), (String ((Ascii (true, false, true, false,
    false, true, true, false)), (String ((Ascii (true, false, false, false,
    true, true, true, false)), EmptyString)))))))))))) :: ((String ((Ascii
    (true, false, false, true, false, true, true, false)), (String ((Ascii
    (true, true, false, false, false, false, true, false)), (String ((Ascii
    (true, true, true, true, false, true, true, false)), (String ((Ascii
    (false, false, true, false, false, true, true, false)), (String ((Ascii
    (true, false, true, false, false, true, true, false)),
    EmptyString)))))))))) :: ((String ((Ascii (false, false, false, true,
    true, true, true, false)), EmptyString)) :: ((String ((Ascii (true,
    false, false, true, true, true, true, false)), EmptyString)) :: ((String
    ((Ascii (false, true, false, true, true, true, true, false)),
    EmptyString)) :: ((String ((Ascii (true, true, true, true, false, true,
    true, false)), (String ((Ascii (true, true, false, false, false, true,
    true, false)), (String ((Ascii (true, true, false, false, false, true,
    true, false)), EmptyString)))))) :: ((String ((Ascii (false, false, true,
    false, true, true, true, false)), (String ((Ascii (true, false, true,
    false, false, true, true, false)), (String ((Ascii (true, false, true,
    true, false, true, true, false)), (String ((Ascii (false, false, false,
    false, true, true, true, false)), EmptyString)))))))) :: ((String ((Ascii
    (true, false, true, false, false, true, true, false)), (String ((Ascii
    (false, false, true, true, false, true, true, false)), (String ((Ascii
    (true, false, true, false, false, true, true, false)), (String ((Ascii
    (true, false, true, true, false, true, true, false)), (String ((Ascii
    (true, false, true, false, false, true, true, false)), (String ((Ascii
    (false, true, true, true, false, true, true, false)), (String ((Ascii
    (false, false, true, false, true, true, true, false)),
    EmptyString)))))))))))))) :: ((String ((Ascii (true, false, true, true,
    false, true, true, false)), (String ((Ascii (true, true, true, true,
    false, true, true, false)), (String ((Ascii (false, false, true, false,
    false, true, true, false)), (String ((Ascii (true, false, true, false,
    false, true, true, false)), (String ((Ascii (false, false, true, true,
    false, true, true, false)), EmptyString)))))))))) :: [])))))))))))))

(** val lower_char : ascii -> ascii **)

let lower_char c =
  let n0 = nat_of_ascii c in
  if (&&)
       (Nat.leb (S (S (S (S (S (S (S (S (S (S (S (S (S (S (S (S (S (S (S (S
         (S (S (S (S (S (S (S (S (S (S (S (S (S (S (S (S (S (S (S (S (S (S (S
         (S (S (S (S (S (S (S (S (S (S (S (S (S (S (S (S (S (S (S (S (S (S
         O)))))))))))))))))))))))))))))))))))))))))))))))))))))))))))))))))
         n0)
       (Nat.leb n0 (S (S (S (S (S (S (S (S (S (S (S (S (S (S (S (S (S (S (S
         (S (S (S (S (S (S (S (S (S (S (S (S (S (S (S (S (S (S (S (S (S (S (S
         (S (S (S (S (S (S (S (S (S (S (S (S (S (S (S (S (S (S (S (S (S (S (S
         (S (S (S (S (S (S (S (S (S (S (S (S (S (S (S (S (S (S (S (S (S (S (S
         (S (S
         O)))))))))))))))))))))))))))))))))))))))))))))))))))))))))))))))))))))))))))))))))))))))))))
  then ascii_of_nat
         (add n0 (S (S (S (S (S (S (S (S (S (S (S (S (S (S (S (S (S (S (S (S
           (S (S (S (S (S (S (S (S (S (S (S (S
           O)))))))))))))))))))))))))))))))))
  else c

(** val lower : string -> string **)

let rec lower = function
| EmptyString -> EmptyString
| String (c, t) -> String ((lower_char c), (lower t))

(** val index_of :
    (string -> string -> bool) -> string -> string list -> nat -> nat option **)

let rec index_of eq x l k =
  match l with
  | [] -> None
  | y :: t -> if eq x y then Some k else index_of eq x t (S k)

(** val col_index_ci : string -> nat option **)

let col_index_ci c =
  index_of (fun a0 b -> eqb1 (lower a0) (lower b)) c std_cols O

(** val find_key : nat list -> row -> table -> row option **)

let find_key idx r t =
  find (same_key idx r) t

(** val find_all : nat list -> row -> table list -> row list option **)

let rec find_all idx r = function
| [] -> Some []
| t :: rest ->
  (match find_key idx r t with
   | Some x ->
     (match find_all idx r rest with
      | Some xs -> Some (x :: xs)
      | None -> None)
   | None -> None)

(** val spec_tuples : nat list -> table list -> row list list **)

let spec_tuples idx = function
| [] -> [] :: []
| t0 :: rest ->
  flat_map (fun r ->
    match find_all idx r rest with
    | Some xs -> (r :: xs) :: []
    | None -> []) t0

(** val spec_intersection :
    nat list -> nat list -> table list -> row list list **)

let spec_intersection idx cols tables0 =
  let tuples = spec_tuples idx tables0 in
  map (fun it -> map (fun tup -> project cols (nth it tup [])) tuples)
    (seq O (length tables0))

(** val unique_keys : nat list -> table -> bool **)

let rec unique_keys idx = function
| [] -> true
| r :: rest ->
  (&&) (negb (existsb (same_key idx r) rest)) (unique_keys idx rest)

(** val tables_of_V : v -> table list **)

let tables_of_V v0 =
  map (fun t -> map row_of_V (getL t)) (getL v0)

(** val nats_of_V : v -> nat list **)

let nats_of_V v0 =
  map (fun x -> Z.to_nat (getZ x)) (getL v0)

(** val vtables : row list list -> v **)

let vtables ts =
  VL (map vrows ts)

(** val run_many : string -> v list -> v option **)

let run_many cmd a0 =
  if eqb1 cmd (String ((Ascii (true, false, true, true, false, true, true,
       false)), (String ((Ascii (true, false, false, false, false, true,
       true, false)), (String ((Ascii (false, true, true, true, false, true,
       true, false)), (String ((Ascii (true, false, false, true, true, true,
       true, false)), (String ((Ascii (false, true, true, true, false, true,
       false, false)), (String ((Ascii (true, false, false, true, false,
       true, true, false)), (String ((Ascii (false, true, true, true, false,
       true, true, false)), (String ((Ascii (false, false, true, false, true,
       true, true, false)), (String ((Ascii (true, false, true, false, false,
       true, true, false)), (String ((Ascii (false, true, false, false, true,
       true, true, false)), (String ((Ascii (true, true, false, false, true,
       true, true, false)), (String ((Ascii (true, false, true, false, false,
       true, true, false)), (String ((Ascii (true, true, false, false, false,
       true, true, false)), (String ((Ascii (false, false, true, false, true,
       true, true, false)), (String ((Ascii (true, false, false, true, false,
       true, true, false)), (String ((Ascii (true, true, true, true, false,
       true, true, false)), (String ((Ascii (false, true, true, true, false,
       true, true, false)), EmptyString))))))))))))))))))))))))))))))))))
  then Some
         (vtables
           (get_intersection (nats_of_V (nth O a0 (VZ Z0)))
             (nats_of_V (nth (S O) a0 (VZ Z0)))
             (tables_of_V (nth (S (S O)) a0 (VZ Z0)))))
  else if eqb1 cmd (String ((Ascii (true, true, false, false, true, true,
            true, false)), (String ((Ascii (false, false, false, false, true,
            true, true, false)), (String ((Ascii (true, false, true, false,
            false, true, true, false)), (String ((Ascii (true, true, false,
            false, false, true, true, false)), (String ((Ascii (false, true,
            true, true, false, true, false, false)), (String ((Ascii (true,
            false, true, true, false, true, true, false)), (String ((Ascii
            (true, false, false, false, false, true, true, false)), (String
            ((Ascii (false, true, true, true, false, true, true, false)),
            (String ((Ascii (true, false, false, true, true, true, true,
            false)), (String ((Ascii (false, true, true, true, false, true,
            false, false)), (String ((Ascii (true, false, false, true, false,
            true, true, false)), (String ((Ascii (false, true, true, true,
            false, true, true, false)), (String ((Ascii (false, false, true,
            false, true, true, true, false)), (String ((Ascii (true, false,
            true, false, false, true, true, false)), (String ((Ascii (false,
            true, false, false, true, true, true, false)), (String ((Ascii
            (true, true, false, false, true, true, true, false)), (String
            ((Ascii (true, false, true, false, false, true, true, false)),
            (String ((Ascii (true, true, false, false, false, true, true,
            false)), (String ((Ascii (false, false, true, false, true, true,
            true, false)), (String ((Ascii (true, false, false, true, false,
            true, true, false)), (String ((Ascii (true, true, true, true,
            false, true, true, false)), (String ((Ascii (false, true, true,
            true, false, true, true, false)),
            EmptyString))))))))))))))))))))))))))))))))))))))))))))
       then Some
              (vtables
                (spec_intersection (nats_of_V (nth O a0 (VZ Z0)))
                  (nats_of_V (nth (S O) a0 (VZ Z0)))
                  (tables_of_V (nth (S (S O)) a0 (VZ Z0)))))
       else if eqb1 cmd (String ((Ascii (true, true, false, false, true,
                 true, true, false)), (String ((Ascii (false, false, false,
                 false, true, true, true, false)), (String ((Ascii (true,
                 false, true, false, false, true, true, false)), (String
                 ((Ascii (true, true, false, false, false, true, true,
                 false)), (String ((Ascii (false, true, true, true, false,
                 true, false, false)), (String ((Ascii (true, false, true,
                 true, false, true, true, false)), (String ((Ascii (true,
                 false, false, false, false, true, true, false)), (String
                 ((Ascii (false, true, true, true, false, true, true,
                 false)), (String ((Ascii (true, false, false, true, true,
                 true, true, false)), (String ((Ascii (false, true, true,
                 true, false, true, false, false)), (String ((Ascii (true,
                 false, true, false, true, true, true, false)), (String
                 ((Ascii (false, true, true, true, false, true, true,
                 false)), (String ((Ascii (true, false, false, true, false,
                 true, true, false)), (String ((Ascii (true, false, false,
                 false, true, true, true, false)), (String ((Ascii (true,
                 false, true, false, true, true, true, false)), (String
                 ((Ascii (true, false, true, false, false, true, true,
                 false)), EmptyString))))))))))))))))))))))))))))))))
            then Some
                   (vB
                     (forallb (unique_keys (nats_of_V (nth O a0 (VZ Z0))))
                       (tables_of_V (nth (S O) a0 (VZ Z0)))))
            else if eqb1 cmd (String ((Ascii (true, false, true, true, false,
                      true, true, false)), (String ((Ascii (true, false,
                      false, false, false, true, true, false)), (String
                      ((Ascii (false, true, true, true, false, true, true,
                      false)), (String ((Ascii (true, false, false, true,
                      true, true, true, false)), (String ((Ascii (false,
                      true, true, true, false, true, false, false)), (String
                      ((Ascii (true, true, false, false, false, true, true,
                      false)), (String ((Ascii (true, true, true, true,
                      false, true, true, false)), (String ((Ascii (false,
                      false, true, true, false, true, true, false)), (String
                      ((Ascii (true, true, true, true, true, false, true,
                      false)), (String ((Ascii (true, false, false, true,
                      false, true, true, false)), (String ((Ascii (false,
                      true, true, true, false, true, true, false)), (String
                      ((Ascii (false, false, true, false, false, true, true,
                      false)), (String ((Ascii (true, false, true, false,
                      false, true, true, false)), (String ((Ascii (false,
                      false, false, true, true, true, true, false)),
                      EmptyString))))))))))))))))))))))))))))
                 then Some
                        (match col_index_ci (getS (nth O a0 (VZ Z0))) with
                         | Some k -> VZ (Z.of_nat k)
                         | None -> VZ (Zneg XH))
                 else None

(** val snapshot : row list -> row list res **)

let snapshot rows =
  bind (export rows) (fun ls ->
    bind (parse_lines ls Z0) (fun r -> Ok (fst r)))

(** val run_store : string -> v list -> v option **)

let run_store cmd a0 =
  if eqb1 cmd (String ((Ascii (true, true, false, false, true, true, true,
       false)), (String ((Ascii (false, false, true, false, true, true, true,
       false)), (String ((Ascii (true, true, true, true, false, true, true,
       false)), (String ((Ascii (false, true, false, false, true, true, true,
       false)), (String ((Ascii (true, false, true, false, false, true, true,
       false)), (String ((Ascii (false, true, true, true, false, true, false,
       false)), (String ((Ascii (true, true, false, false, true, true, true,
       false)), (String ((Ascii (false, true, true, true, false, true, true,
       false)), (String ((Ascii (true, false, false, false, false, true,
       true, false)), (String ((Ascii (false, false, false, false, true,
       true, true, false)), (String ((Ascii (true, true, false, false, true,
       true, true, false)), (String ((Ascii (false, false, false, true,
       false, true, true, false)), (String ((Ascii (true, true, true, true,
       false, true, true, false)), (String ((Ascii (false, false, true,
       false, true, true, true, false)),
       EmptyString))))))))))))))))))))))))))))
  then Some
         (vres
           (bind (snapshot (map row_of_V (getL (nth O a0 (VZ Z0)))))
             (fun t -> Ok (vrows t))))
  else if eqb1 cmd (String ((Ascii (true, true, false, false, true, true,
            true, false)), (String ((Ascii (false, false, false, false, true,
            true, true, false)), (String ((Ascii (true, false, true, false,
            false, true, true, false)), (String ((Ascii (true, true, false,
            false, false, true, true, false)), (String ((Ascii (false, true,
            true, true, false, true, false, false)), (String ((Ascii (true,
            true, false, false, true, true, true, false)), (String ((Ascii
            (false, false, true, false, true, true, true, false)), (String
            ((Ascii (true, true, true, true, false, true, true, false)),
            (String ((Ascii (false, true, false, false, true, true, true,
            false)), (String ((Ascii (true, false, true, false, false, true,
            true, false)), (String ((Ascii (false, true, true, true, false,
            true, false, false)), (String ((Ascii (true, false, false, false,
            false, true, true, false)), (String ((Ascii (false, false, false,
            false, true, true, true, false)), (String ((Ascii (false, false,
            false, false, true, true, true, false)), (String ((Ascii (false,
            true, false, false, true, true, true, false)), (String ((Ascii
            (true, true, true, true, false, true, true, false)), (String
            ((Ascii (false, false, false, true, true, true, true, false)),
            (String ((Ascii (true, true, true, true, true, false, true,
            false)), (String ((Ascii (false, false, true, false, true, true,
            true, false)), (String ((Ascii (true, false, false, false, false,
            true, true, false)), (String ((Ascii (false, true, false, false,
            false, true, true, false)), (String ((Ascii (false, false, true,
            true, false, true, true, false)), (String ((Ascii (true, false,
            true, false, false, true, true, false)),
            EmptyString))))))))))))))))))))))))))))))))))))))))))))))
       then let s = map row_of_V (getL (nth O a0 (VZ Z0))) in
            let d = map row_of_V (getL (nth (S O) a0 (VZ Z0))) in
            Some
            (vB
              ((&&) (Nat.eqb (length s) (length d))
                (forallb (fun p -> approx_row (fst p) (snd p)) (combine s d))))
       else None

type vec = (q * q) * q

type mat = (vec * vec) * vec

(** val vadd : vec -> vec -> vec **)

let vadd a0 b =
  let (p, a3) = a0 in
  let (a1, a2) = p in
  let (p0, b3) = b in
  let (b1, b2) = p0 in
  (((qred (qplus a1 b1)), (qred (qplus a2 b2))), (qred (qplus a3 b3)))

(** val vsub : vec -> vec -> vec **)

let vsub a0 b =
  let (p, a3) = a0 in
  let (a1, a2) = p in
  let (p0, b3) = b in
  let (b1, b2) = p0 in
  (((qred (qminus a1 b1)), (qred (qminus a2 b2))), (qred (qminus a3 b3)))

(** val vdot : vec -> vec -> q **)

let vdot a0 b =
  let (p, a3) = a0 in
  let (a1, a2) = p in
  let (p0, b3) = b in
  let (b1, b2) = p0 in
  qred (qplus (qplus (qmult a1 b1) (qmult a2 b2)) (qmult a3 b3))

(** val mv : mat -> vec -> vec **)

let mv m v0 =
  let (p, r3) = m in
  let (r1, r2) = p in (((vdot r1 v0), (vdot r2 v0)), (vdot r3 v0))

(** val vscale : q -> vec -> vec **)

let vscale k = function
| (p, a3) ->
  let (a1, a2) = p in
  (((qred (qmult k a1)), (qred (qmult k a2))), (qred (qmult k a3)))

(** val vsum : vec list -> vec **)

let vsum l =
  fold_right vadd (({ qnum = Z0; qden = XH }, { qnum = Z0; qden = XH }),
    { qnum = Z0; qden = XH }) l

(** val mean : vec list -> vec **)

let mean l =
  vscale
    (qdiv { qnum = (Zpos XH); qden = XH } (inject_Z (Z.of_nat (length l))))
    (vsum l)

(** val superpose_selection :
    mat -> vec list -> vec list -> vec list -> vec list **)

let superpose_selection rmat sel_mob sel_tar xyz =
  let cm = mean sel_mob in
  let ct = mean sel_tar in map (fun x -> vadd (mv rmat (vsub x cm)) ct) xyz

(** val xyz_of : row -> vec **)

let xyz_of r =
  match nth (S (S (S (S (S (S (S O))))))) r VNull with
  | VReal x ->
    (match nth (S (S (S (S (S (S (S (S O)))))))) r VNull with
     | VReal y ->
       (match nth (S (S (S (S (S (S (S (S (S O))))))))) r VNull with
        | VReal z0 -> ((x, y), z0)
        | _ ->
          (({ qnum = Z0; qden = XH }, { qnum = Z0; qden = XH }), { qnum = Z0;
            qden = XH }))
     | _ ->
       (({ qnum = Z0; qden = XH }, { qnum = Z0; qden = XH }), { qnum = Z0;
         qden = XH }))
  | _ ->
    (({ qnum = Z0; qden = XH }, { qnum = Z0; qden = XH }), { qnum = Z0;
      qden = XH })

(** val pairs_of_tuples : row list list -> vec list * vec list **)

let pairs_of_tuples tuples =
  ((map (fun t -> xyz_of (nth O t [])) tuples),
    (map (fun t -> xyz_of (nth (S O) t [])) tuples))

(** val paired_selections :
    row list -> row list -> (vec list * vec list) res **)

let paired_selections sel_mobile sel_target =
  if Nat.eqb (length sel_mobile) (length sel_target)
  then Ok ((map xyz_of sel_mobile), (map xyz_of sel_target))
  else bind (snapshot sel_mobile) (fun a0 ->
         bind (snapshot sel_target) (fun b -> Ok
           (pairs_of_tuples
             (join ((S O) :: ((S (S (S O))) :: ((S (S (S (S (S O))))) :: ((S
               (S (S (S O)))) :: [])))) (a0 :: (b :: []))))))

(** val set_xyz : row -> vec -> row **)

let set_xyz r = function
| (p, z0) ->
  let (x, y) = p in
  map (fun iv ->
    match fst iv with
    | O -> snd iv
    | S n0 ->
      (match n0 with
       | O -> snd iv
       | S n1 ->
         (match n1 with
          | O -> snd iv
          | S n2 ->
            (match n2 with
             | O -> snd iv
             | S n3 ->
               (match n3 with
                | O -> snd iv
                | S n4 ->
                  (match n4 with
                   | O -> snd iv
                   | S n5 ->
                     (match n5 with
                      | O -> snd iv
                      | S n6 ->
                        (match n6 with
                         | O -> VReal x
                         | S n7 ->
                           (match n7 with
                            | O -> VReal y
                            | S n8 ->
                              (match n8 with
                               | O -> VReal z0
                               | S _ -> snd iv))))))))))
    (combine (seq O (length r)) r)

(** val superpose :
    mat -> row list -> row list -> row list -> row list res **)

let superpose rmat mobile sel_mobile sel_target =
  bind (paired_selections sel_mobile sel_target) (fun p ->
    let new0 = superpose_selection rmat (fst p) (snd p) (map xyz_of mobile) in
    Ok (map (fun rv -> set_xyz (fst rv) (snd rv)) (combine mobile new0)))

(** val det : mat -> q **)

let det = function
| (p, v0) ->
  let (v1, v2) = p in
  let (p0, c) = v1 in
  let (a0, b) = p0 in
  let (p1, f) = v2 in
  let (d, e) = p1 in
  let (p2, i) = v0 in
  let (g, h) = p2 in
  qplus
    (qminus (qmult a0 (qminus (qmult e i) (qmult f h)))
      (qmult b (qminus (qmult d i) (qmult f g))))
    (qmult c (qminus (qmult d h) (qmult e g)))

(** val shared_pairs : row list -> row list -> vec list * vec list **)

let shared_pairs sel_mobile sel_target =
  pairs_of_tuples
    (join ((S O) :: ((S (S (S O))) :: ((S (S (S (S (S O))))) :: ((S (S (S (S
      O)))) :: [])))) (sel_mobile :: (sel_target :: [])))

(** val close_to : q -> q -> q -> bool **)

let close_to eps a0 b =
  qleb (qabs (qminus a0 b)) eps

(** val is_rotation_eps : q -> mat -> bool **)

let is_rotation_eps eps m = match m with
| (p, r3) ->
  let (r1, r2) = p in
  (&&)
    ((&&)
      ((&&)
        ((&&)
          ((&&)
            ((&&) (close_to eps (vdot r1 r1) { qnum = (Zpos XH); qden = XH })
              (close_to eps (vdot r2 r2) { qnum = (Zpos XH); qden = XH }))
            (close_to eps (vdot r3 r3) { qnum = (Zpos XH); qden = XH }))
          (close_to eps (vdot r1 r2) { qnum = Z0; qden = XH }))
        (close_to eps (vdot r1 r3) { qnum = Z0; qden = XH }))
      (close_to eps (vdot r2 r3) { qnum = Z0; qden = XH }))
    (close_to eps (det m) { qnum = (Zpos XH); qden = XH })

(** val vec_of_V : v -> vec **)

let vec_of_V v0 =
  (((getQ (nth O (getL v0) (VZ Z0))), (getQ (nth (S O) (getL v0) (VZ Z0)))),
    (getQ (nth (S (S O)) (getL v0) (VZ Z0))))

(** val mat_of_V : v -> mat **)

let mat_of_V v0 =
  (((vec_of_V (nth O (getL v0) (VZ Z0))),
    (vec_of_V (nth (S O) (getL v0) (VZ Z0)))),
    (vec_of_V (nth (S (S O)) (getL v0) (VZ Z0))))

(** val vvec : vec -> v **)

let vvec = function
| (p, z0) ->
  let (x, y) = p in
  VL ((vQ (qred x)) :: ((vQ (qred y)) :: ((vQ (qred z0)) :: [])))

(** val rows_of_V : v -> row list **)

let rows_of_V v0 =
  map row_of_V (getL v0)

(** val run_superpose : string -> v list -> v option **)

let run_superpose cmd a0 =
  if eqb1 cmd (String ((Ascii (true, true, false, false, true, true, true,
       false)), (String ((Ascii (true, false, true, false, true, true, true,
       false)), (String ((Ascii (false, false, false, false, true, true,
       true, false)), (String ((Ascii (true, false, true, false, false, true,
       true, false)), (String ((Ascii (false, true, false, false, true, true,
       true, false)), (String ((Ascii (false, false, false, false, true,
       true, true, false)), (String ((Ascii (true, true, true, true, false,
       true, true, false)), (String ((Ascii (true, true, false, false, true,
       true, true, false)), (String ((Ascii (true, false, true, false, false,
       true, true, false)), (String ((Ascii (false, true, true, true, false,
       true, false, false)), (String ((Ascii (true, false, true, true, false,
       true, true, false)), (String ((Ascii (true, true, true, true, false,
       true, true, false)), (String ((Ascii (false, false, true, false,
       false, true, true, false)), (String ((Ascii (true, false, true, false,
       false, true, true, false)), (String ((Ascii (false, false, true, true,
       false, true, true, false)), EmptyString))))))))))))))))))))))))))))))
  then Some
         (vres
           (bind
             (superpose (mat_of_V (nth O a0 (VZ Z0)))
               (rows_of_V (nth (S O) a0 (VZ Z0)))
               (rows_of_V (nth (S (S O)) a0 (VZ Z0)))
               (rows_of_V (nth (S (S (S O))) a0 (VZ Z0)))) (fun new0 -> Ok
             (VL (map (fun r -> vvec (xyz_of r)) new0)))))
  else if eqb1 cmd (String ((Ascii (true, true, false, false, true, true,
            true, false)), (String ((Ascii (true, false, true, false, true,
            true, true, false)), (String ((Ascii (false, false, false, false,
            true, true, true, false)), (String ((Ascii (true, false, true,
            false, false, true, true, false)), (String ((Ascii (false, true,
            false, false, true, true, true, false)), (String ((Ascii (false,
            false, false, false, true, true, true, false)), (String ((Ascii
            (true, true, true, true, false, true, true, false)), (String
            ((Ascii (true, true, false, false, true, true, true, false)),
            (String ((Ascii (true, false, true, false, false, true, true,
            false)), (String ((Ascii (false, true, true, true, false, true,
            false, false)), (String ((Ascii (false, false, false, false,
            true, true, true, false)), (String ((Ascii (true, false, false,
            false, false, true, true, false)), (String ((Ascii (true, false,
            false, true, false, true, true, false)), (String ((Ascii (false,
            true, false, false, true, true, true, false)), (String ((Ascii
            (true, false, true, false, false, true, true, false)), (String
            ((Ascii (false, false, true, false, false, true, true, false)),
            EmptyString))))))))))))))))))))))))))))))))
       then Some
              (vres
                (bind
                  (paired_selections (rows_of_V (nth O a0 (VZ Z0)))
                    (rows_of_V (nth (S O) a0 (VZ Z0)))) (fun pq -> Ok (VL
                  ((VL (map vvec (fst pq))) :: ((VL
                  (map vvec (snd pq))) :: []))))))
       else if eqb1 cmd (String ((Ascii (true, true, false, false, true,
                 true, true, false)), (String ((Ascii (false, false, false,
                 false, true, true, true, false)), (String ((Ascii (true,
                 false, true, false, false, true, true, false)), (String
                 ((Ascii (true, true, false, false, false, true, true,
                 false)), (String ((Ascii (false, true, true, true, false,
                 true, false, false)), (String ((Ascii (true, true, false,
                 false, true, true, true, false)), (String ((Ascii (true,
                 false, true, false, true, true, true, false)), (String
                 ((Ascii (false, false, false, false, true, true, true,
                 false)), (String ((Ascii (true, false, true, false, false,
                 true, true, false)), (String ((Ascii (false, true, false,
                 false, true, true, true, false)), (String ((Ascii (false,
                 false, false, false, true, true, true, false)), (String
                 ((Ascii (true, true, true, true, false, true, true, false)),
                 (String ((Ascii (true, true, false, false, true, true, true,
                 false)), (String ((Ascii (true, false, true, false, false,
                 true, true, false)), (String ((Ascii (false, true, true,
                 true, false, true, false, false)), (String ((Ascii (true,
                 true, false, false, true, true, true, false)), (String
                 ((Ascii (false, false, false, true, false, true, true,
                 false)), (String ((Ascii (true, false, false, false, false,
                 true, true, false)), (String ((Ascii (false, true, false,
                 false, true, true, true, false)), (String ((Ascii (true,
                 false, true, false, false, true, true, false)), (String
                 ((Ascii (false, false, true, false, false, true, true,
                 false)), (String ((Ascii (true, true, true, true, true,
                 false, true, false)), (String ((Ascii (false, false, false,
                 false, true, true, true, false)), (String ((Ascii (true,
                 false, false, false, false, true, true, false)), (String
                 ((Ascii (true, false, false, true, false, true, true,
                 false)), (String ((Ascii (false, true, false, false, true,
                 true, true, false)), (String ((Ascii (true, true, false,
                 false, true, true, true, false)),
                 EmptyString))))))))))))))))))))))))))))))))))))))))))))))))))))))
            then let (p, q0) =
                   shared_pairs (rows_of_V (nth O a0 (VZ Z0)))
                     (rows_of_V (nth (S O) a0 (VZ Z0)))
                 in
                 Some (VL ((VL (map vvec p)) :: ((VL (map vvec q0)) :: [])))
            else if eqb1 cmd (String ((Ascii (true, true, false, false, true,
                      true, true, false)), (String ((Ascii (false, false,
                      false, false, true, true, true, false)), (String
                      ((Ascii (true, false, true, false, false, true, true,
                      false)), (String ((Ascii (true, true, false, false,
                      false, true, true, false)), (String ((Ascii (false,
                      true, true, true, false, true, false, false)), (String
                      ((Ascii (true, true, false, false, true, true, true,
                      false)), (String ((Ascii (true, false, true, false,
                      true, true, true, false)), (String ((Ascii (false,
                      false, false, false, true, true, true, false)), (String
                      ((Ascii (true, false, true, false, false, true, true,
                      false)), (String ((Ascii (false, true, false, false,
                      true, true, true, false)), (String ((Ascii (false,
                      false, false, false, true, true, true, false)), (String
                      ((Ascii (true, true, true, true, false, true, true,
                      false)), (String ((Ascii (true, true, false, false,
                      true, true, true, false)), (String ((Ascii (true,
                      false, true, false, false, true, true, false)), (String
                      ((Ascii (false, true, true, true, false, true, false,
                      false)), (String ((Ascii (true, false, false, true,
                      false, true, true, false)), (String ((Ascii (true,
                      true, false, false, true, true, true, false)), (String
                      ((Ascii (true, true, true, true, true, false, true,
                      false)), (String ((Ascii (false, true, false, false,
                      true, true, true, false)), (String ((Ascii (true, true,
                      true, true, false, true, true, false)), (String ((Ascii
                      (false, false, true, false, true, true, true, false)),
                      (String ((Ascii (true, false, false, false, false,
                      true, true, false)), (String ((Ascii (false, false,
                      true, false, true, true, true, false)), (String ((Ascii
                      (true, false, false, true, false, true, true, false)),
                      (String ((Ascii (true, true, true, true, false, true,
                      true, false)), (String ((Ascii (false, true, true,
                      true, false, true, true, false)),
                      EmptyString))))))))))))))))))))))))))))))))))))))))))))))))))))
                 then Some
                        (vB
                          (is_rotation_eps (getQ (nth O a0 (VZ Z0)))
                            (mat_of_V (nth (S O) a0 (VZ Z0)))))
                 else None

type pv =
| PInt of z
| PFloat of q
| PStr of string
| PNone

type cval =
| CScalar of pv
| CList of pv list

type conds = (string * cval) list

(** val upper_ascii : ascii -> ascii **)

let upper_ascii c =
  let n0 = nat_of_ascii c in
  if (&&)
       (Nat.leb (S (S (S (S (S (S (S (S (S (S (S (S (S (S (S (S (S (S (S (S
         (S (S (S (S (S (S (S (S (S (S (S (S (S (S (S (S (S (S (S (S (S (S (S
         (S (S (S (S (S (S (S (S (S (S (S (S (S (S (S (S (S (S (S (S (S (S (S
         (S (S (S (S (S (S (S (S (S (S (S (S (S (S (S (S (S (S (S (S (S (S (S
         (S (S (S (S (S (S (S (S
         O)))))))))))))))))))))))))))))))))))))))))))))))))))))))))))))))))))))))))))))))))))))))))))))))))
         n0)
       (Nat.leb n0 (S (S (S (S (S (S (S (S (S (S (S (S (S (S (S (S (S (S (S
         (S (S (S (S (S (S (S (S (S (S (S (S (S (S (S (S (S (S (S (S (S (S (S
         (S (S (S (S (S (S (S (S (S (S (S (S (S (S (S (S (S (S (S (S (S (S (S
         (S (S (S (S (S (S (S (S (S (S (S (S (S (S (S (S (S (S (S (S (S (S (S
         (S (S (S (S (S (S (S (S (S (S (S (S (S (S (S (S (S (S (S (S (S (S (S
         (S (S (S (S (S (S (S (S (S (S (S
         O)))))))))))))))))))))))))))))))))))))))))))))))))))))))))))))))))))))))))))))))))))))))))))))))))))))))))))))))))))))))))))
  then ascii_of_nat
         (sub n0 (S (S (S (S (S (S (S (S (S (S (S (S (S (S (S (S (S (S (S (S
           (S (S (S (S (S (S (S (S (S (S (S (S
           O)))))))))))))))))))))))))))))))))
  else c

(** val str_upper : string -> string **)

let rec str_upper = function
| EmptyString -> EmptyString
| String (c, t) -> String ((upper_ascii c), (str_upper t))

(** val ci_eqb : string -> string -> bool **)

let ci_eqb a0 b =
  eqb1 (str_upper a0) (str_upper b)

type aff =
| AInt
| AText
| ABlob
| AReal
| ANumeric

(** val affinity_of_decl : string -> aff **)

let affinity_of_decl ty =
  let u = str_upper ty in
  if is_substring (String ((Ascii (true, false, false, true, false, false,
       true, false)), (String ((Ascii (false, true, true, true, false, false,
       true, false)), (String ((Ascii (false, false, true, false, true,
       false, true, false)), EmptyString)))))) u
  then AInt
  else if (||)
            ((||)
              (is_substring (String ((Ascii (true, true, false, false, false,
                false, true, false)), (String ((Ascii (false, false, false,
                true, false, false, true, false)), (String ((Ascii (true,
                false, false, false, false, false, true, false)), (String
                ((Ascii (false, true, false, false, true, false, true,
                false)), EmptyString)))))))) u)
              (is_substring (String ((Ascii (true, true, false, false, false,
                false, true, false)), (String ((Ascii (false, false, true,
                true, false, false, true, false)), (String ((Ascii (true,
                true, true, true, false, false, true, false)), (String
                ((Ascii (false, true, false, false, false, false, true,
                false)), EmptyString)))))))) u))
            (is_substring (String ((Ascii (false, false, true, false, true,
              false, true, false)), (String ((Ascii (true, false, true,
              false, false, false, true, false)), (String ((Ascii (false,
              false, false, true, true, false, true, false)), (String ((Ascii
              (false, false, true, false, true, false, true, false)),
              EmptyString)))))))) u)
       then AText
       else if (||)
                 (is_substring (String ((Ascii (false, true, false, false,
                   false, false, true, false)), (String ((Ascii (false,
                   false, true, true, false, false, true, false)), (String
                   ((Ascii (true, true, true, true, false, false, true,
                   false)), (String ((Ascii (false, true, false, false,
                   false, false, true, false)), EmptyString)))))))) u)
                 (eqb1 u EmptyString)
            then ABlob
            else if (||)
                      ((||)
                        (is_substring (String ((Ascii (false, true, false,
                          false, true, false, true, false)), (String ((Ascii
                          (true, false, true, false, false, false, true,
                          false)), (String ((Ascii (true, false, false,
                          false, false, false, true, false)), (String ((Ascii
                          (false, false, true, true, false, false, true,
                          false)), EmptyString)))))))) u)
                        (is_substring (String ((Ascii (false, true, true,
                          false, false, false, true, false)), (String ((Ascii
                          (false, false, true, true, false, false, true,
                          false)), (String ((Ascii (true, true, true, true,
                          false, false, true, false)), (String ((Ascii (true,
                          false, false, false, false, false, true, false)),
                          EmptyString)))))))) u))
                      (is_substring (String ((Ascii (false, false, true,
                        false, false, false, true, false)), (String ((Ascii
                        (true, true, true, true, false, false, true, false)),
                        (String ((Ascii (true, false, true, false, true,
                        false, true, false)), (String ((Ascii (false, true,
                        false, false, false, false, true, false)),
                        EmptyString)))))))) u)
                 then AReal
                 else ANumeric

(** val aff_numeric : aff -> bool **)

let aff_numeric = function
| AText -> false
| ABlob -> false
| _ -> true

(** val two53 : z **)

let two53 =
  Zpos (XO (XO (XO (XO (XO (XO (XO (XO (XO (XO (XO (XO (XO (XO (XO (XO (XO
    (XO (XO (XO (XO (XO (XO (XO (XO (XO (XO (XO (XO (XO (XO (XO (XO (XO (XO
    (XO (XO (XO (XO (XO (XO (XO (XO (XO (XO (XO (XO (XO (XO (XO (XO (XO (XO
    XH)))))))))))))))))))))))))))))))))))))))))))))))))))))

(** val int_in_range : z -> bool **)

let int_in_range z0 =
  Z.ltb (Z.abs z0) two53

(** val q_is_int : q -> bool **)

let q_is_int q0 =
  Coq_Pos.eqb (qred q0).qden XH

(** val q_to_int : q -> z **)

let q_to_int q0 =
  (qred q0).qnum

type numtext =
| NTNum of q
| NTText
| NTOut

(** val only_chars : string -> string -> bool **)

let rec only_chars allowed = function
| EmptyString -> true
| String (c, t) -> (&&) (has_char c allowed) (only_chars allowed t)

(** val sql_numeric_text : string -> numtext **)

let sql_numeric_text s0 =
  let s = strip s0 in
  let (neg, body) = split_sign s in
  let (ip, fp) = split_dot body in
  let fpart = match fp with
              | Some f -> f
              | None -> EmptyString in
  if (&&) ((&&) (all_digits ip) (all_digits fpart))
       ((||) (str_nonempty ip) (str_nonempty fpart))
  then if Nat.leb (add (length0 ip) (length0 fpart)) (S (S (S (S (S (S (S (S
            (S (S (S (S (S (S (S O)))))))))))))))
       then let n0 = digits_val Z0 (append ip fpart) in
            let q0 =
              qred { qnum = n0; qden = (Z.to_pos (pow10 (length0 fpart))) }
            in
            NTNum (b64 (if neg then qred (qopp q0) else q0))
       else NTOut
  else if (&&)
            (only_chars (String ((Ascii (false, false, false, false, true,
              true, false, false)), (String ((Ascii (true, false, false,
              false, true, true, false, false)), (String ((Ascii (false,
              true, false, false, true, true, false, false)), (String ((Ascii
              (true, true, false, false, true, true, false, false)), (String
              ((Ascii (false, false, true, false, true, true, false, false)),
              (String ((Ascii (true, false, true, false, true, true, false,
              false)), (String ((Ascii (false, true, true, false, true, true,
              false, false)), (String ((Ascii (true, true, true, false, true,
              true, false, false)), (String ((Ascii (false, false, false,
              true, true, true, false, false)), (String ((Ascii (true, false,
              false, true, true, true, false, false)), (String ((Ascii
              (false, true, true, true, false, true, false, false)), (String
              ((Ascii (true, false, true, false, false, true, true, false)),
              (String ((Ascii (true, false, true, false, false, false, true,
              false)), (String ((Ascii (true, true, false, true, false, true,
              false, false)), (String ((Ascii (true, false, true, true,
              false, true, false, false)),
              EmptyString)))))))))))))))))))))))))))))) s)
            ((||)
              (has_char (Ascii (true, false, true, false, false, true, true,
                false)) s)
              (has_char (Ascii (true, false, true, false, false, false, true,
                false)) s))
       then NTOut
       else NTText

(** val q_eq_canon : q -> q -> bool **)

let q_eq_canon x y =
  (&&) (Z.eqb x.qnum y.qnum) (Coq_Pos.eqb x.qden y.qden)

(** val val_sql_eq : val0 -> val0 -> bool **)

let val_sql_eq a0 b =
  match a0 with
  | VInt z0 ->
    (match b with
     | VInt y -> Z.eqb z0 y
     | VReal q0 -> q_eq_canon (inject_Z z0) q0
     | _ -> false)
  | VReal q0 ->
    (match b with
     | VInt z0 -> q_eq_canon (inject_Z z0) q0
     | VReal y -> q_eq_canon q0 y
     | _ -> false)
  | VText s -> (match b with
                | VText t -> eqb1 s t
                | _ -> false)
  | _ -> false

(** val is_null : val0 -> bool **)

let is_null = function
| VNull -> true
| _ -> false

(** val out_of_model : 'a1 res **)

let out_of_model =
  Err (String ((Ascii (true, true, true, true, false, false, true, false)),
    (String ((Ascii (true, false, true, false, true, true, true, false)),
    (String ((Ascii (false, false, true, false, true, true, true, false)),
    (String ((Ascii (true, true, true, true, false, false, true, false)),
    (String ((Ascii (false, true, true, false, false, true, true, false)),
    (String ((Ascii (true, false, true, true, false, false, true, false)),
    (String ((Ascii (true, true, true, true, false, true, true, false)),
    (String ((Ascii (false, false, true, false, false, true, true, false)),
    (String ((Ascii (true, false, true, false, false, true, true, false)),
    (String ((Ascii (false, false, true, true, false, true, true, false)),
    EmptyString))))))))))))))))))))

(** val real_val : q -> val0 **)

let real_val q0 =
  VReal (qred q0)

(** val num_val_int_pref : q -> val0 res **)

let num_val_int_pref q0 =
  if q_is_int q0
  then if int_in_range (q_to_int q0)
       then Ok (VInt (q_to_int q0))
       else out_of_model
  else Ok (real_val q0)

(** val cmp_operand : aff -> pv -> val0 res **)

let cmp_operand a0 = function
| PInt z0 ->
  if int_in_range z0
  then (match a0 with
        | AText -> Ok (VText (str_of_Z z0))
        | _ -> Ok (VInt z0))
  else out_of_model
| PFloat q0 -> (match a0 with
                | AText -> out_of_model
                | _ -> Ok (real_val q0))
| PStr s ->
  if aff_numeric a0
  then (match sql_numeric_text s with
        | NTNum q0 -> Ok (real_val q0)
        | NTText -> Ok (VText s)
        | NTOut -> out_of_model)
  else Ok (VText s)
| PNone -> Ok VNull

(** val store_val : aff -> pv -> val0 res **)

let store_val a0 = function
| PInt z0 ->
  if int_in_range z0
  then (match a0 with
        | AText -> Ok (VText (str_of_Z z0))
        | AReal -> Ok (real_val (inject_Z z0))
        | _ -> Ok (VInt z0))
  else out_of_model
| PFloat q0 ->
  (match a0 with
   | AInt -> num_val_int_pref q0
   | AText -> out_of_model
   | ANumeric -> num_val_int_pref q0
   | _ -> Ok (real_val q0))
| PStr s ->
  (match a0 with
   | AInt ->
     (match sql_numeric_text s with
      | NTNum q0 -> num_val_int_pref q0
      | NTText -> Ok (VText s)
      | NTOut -> out_of_model)
   | AReal ->
     (match sql_numeric_text s with
      | NTNum q0 -> Ok (real_val q0)
      | NTText -> Ok (VText s)
      | NTOut -> out_of_model)
   | ANumeric ->
     (match sql_numeric_text s with
      | NTNum q0 -> num_val_int_pref q0
      | NTText -> Ok (VText s)
      | NTOut -> out_of_model)
   | _ -> Ok (VText s))
| PNone -> Ok VNull

(** val default_store : aff -> pv -> val0 res **)

let default_store a0 v0 =
  match a0 with
  | ABlob ->
    (match v0 with
     | PInt _ -> store_val ANumeric v0
     | PFloat _ -> store_val ANumeric v0
     | _ -> store_val a0 v0)
  | _ -> store_val a0 v0

(** val in_true : val0 -> val0 list -> bool **)

let in_true x vs =
  existsb (val_sql_eq x) vs

(** val not_in_true : val0 -> val0 list -> bool **)

let not_in_true x vs = match vs with
| [] -> true
| _ :: _ ->
  (&&) ((&&) (negb (is_null x)) (negb (existsb is_null vs)))
    (negb (existsb (val_sql_eq x) vs))

(** val cond_true : bool -> val0 -> val0 list -> bool **)

let cond_true neg x vs =
  if neg then not_in_true x vs else in_true x vs

(** val is_alpha_ : ascii -> bool **)

let is_alpha_ c =
  let n0 = nat_of_ascii c in
  (||)
    ((||)
      ((&&)
        (Nat.leb (S (S (S (S (S (S (S (S (S (S (S (S (S (S (S (S (S (S (S (S
          (S (S (S (S (S (S (S (S (S (S (S (S (S (S (S (S (S (S (S (S (S (S
          (S (S (S (S (S (S (S (S (S (S (S (S (S (S (S (S (S (S (S (S (S (S
          (S
          O)))))))))))))))))))))))))))))))))))))))))))))))))))))))))))))))))
          n0)
        (Nat.leb n0 (S (S (S (S (S (S (S (S (S (S (S (S (S (S (S (S (S (S (S
          (S (S (S (S (S (S (S (S (S (S (S (S (S (S (S (S (S (S (S (S (S (S
          (S (S (S (S (S (S (S (S (S (S (S (S (S (S (S (S (S (S (S (S (S (S
          (S (S (S (S (S (S (S (S (S (S (S (S (S (S (S (S (S (S (S (S (S (S
          (S (S (S (S (S
          O))))))))))))))))))))))))))))))))))))))))))))))))))))))))))))))))))))))))))))))))))))))))))))
      ((&&)
        (Nat.leb (S (S (S (S (S (S (S (S (S (S (S (S (S (S (S (S (S (S (S (S
          (S (S (S (S (S (S (S (S (S (S (S (S (S (S (S (S (S (S (S (S (S (S
          (S (S (S (S (S (S (S (S (S (S (S (S (S (S (S (S (S (S (S (S (S (S
          (S (S (S (S (S (S (S (S (S (S (S (S (S (S (S (S (S (S (S (S (S (S
          (S (S (S (S (S (S (S (S (S (S (S
          O)))))))))))))))))))))))))))))))))))))))))))))))))))))))))))))))))))))))))))))))))))))))))))))))))
          n0)
        (Nat.leb n0 (S (S (S (S (S (S (S (S (S (S (S (S (S (S (S (S (S (S (S
          (S (S (S (S (S (S (S (S (S (S (S (S (S (S (S (S (S (S (S (S (S (S
          (S (S (S (S (S (S (S (S (S (S (S (S (S (S (S (S (S (S (S (S (S (S
          (S (S (S (S (S (S (S (S (S (S (S (S (S (S (S (S (S (S (S (S (S (S
          (S (S (S (S (S (S (S (S (S (S (S (S (S (S (S (S (S (S (S (S (S (S
          (S (S (S (S (S (S (S (S (S (S (S (S (S (S (S
          O)))))))))))))))))))))))))))))))))))))))))))))))))))))))))))))))))))))))))))))))))))))))))))))))))))))))))))))))))))))))))))))
    (Nat.eqb n0 (S (S (S (S (S (S (S (S (S (S (S (S (S (S (S (S (S (S (S (S
      (S (S (S (S (S (S (S (S (S (S (S (S (S (S (S (S (S (S (S (S (S (S (S (S
      (S (S (S (S (S (S (S (S (S (S (S (S (S (S (S (S (S (S (S (S (S (S (S (S
      (S (S (S (S (S (S (S (S (S (S (S (S (S (S (S (S (S (S (S (S (S (S (S (S
      (S (S (S
      O))))))))))))))))))))))))))))))))))))))))))))))))))))))))))))))))))))))))))))))))))))))))))))))))

(** val all_ident_chars : string -> bool **)

let rec all_ident_chars = function
| EmptyString -> true
| String (c, t) -> (&&) ((||) (is_alpha_ c) (is_digit c)) (all_ident_chars t)

(** val ident_shape : string -> bool **)

let ident_shape = function
| EmptyString -> false
| String (c, t) -> (&&) (is_alpha_ c) (all_ident_chars t)

(** val sql_keywords : string list **)

let sql_keywords =
  (String ((Ascii (true, false, false, false, false, false, true, false)),
    (String ((Ascii (false, true, false, false, false, false, true, false)),
    (String ((Ascii (true, true, true, true, false, false, true, false)),
    (String ((Ascii (false, true, false, false, true, false, true, false)),
    (String ((Ascii (false, false, true, false, true, false, true, false)),
    EmptyString)))))))))) :: ((String ((Ascii (true, false, false, false,
    false, false, true, false)), (String ((Ascii (true, true, false, false,
    false, false, true, false)), (String ((Ascii (false, false, true, false,
    true, false, true, false)), (String ((Ascii (true, false, false, true,
    false, false, true, false)), (String ((Ascii (true, true, true, true,
    false, false, true, false)), (String ((Ascii (false, true, true, true,
    false, false, true, false)), EmptyString)))))))))))) :: ((String ((Ascii
    (true, false, false, false, false, false, true, false)), (String ((Ascii
    (false, false, true, false, false, false, true, false)), (String ((Ascii
    (false, false, true, false, false, false, true, false)),
    EmptyString)))))) :: ((String ((Ascii (true, false, false, false, false,
    false, true, false)), (String ((Ascii (false, true, true, false, false,
    false, true, false)), (String ((Ascii (false, false, true, false, true,
    false, true, false)), (String ((Ascii (true, false, true, false, false,
    false, true, false)), (String ((Ascii (false, true, false, false, true,
    false, true, false)), EmptyString)))))))))) :: ((String ((Ascii (true,
    false, false, false, false, false, true, false)), (String ((Ascii (false,
    false, true, true, false, false, true, false)), (String ((Ascii (false,
    false, true, true, false, false, true, false)),
    EmptyString)))))) :: ((String ((Ascii (true, false, false, false, false,
    false, true, false)), (String ((Ascii (false, false, true, true, false,
    false, true, false)), (String ((Ascii (false, false, true, false, true,
    false, true, false)), (String ((Ascii (true, false, true, false, false,
    false, true, false)), (String ((Ascii (false, true, false, false, true,
    false, true, false)), EmptyString)))))))))) :: ((String ((Ascii (true,
    false, false, false, false, false, true, false)), (String ((Ascii (false,
    false, true, true, false, false, true, false)), (String ((Ascii (true,
    true, true, false, true, false, true, false)), (String ((Ascii (true,
    false, false, false, false, false, true, false)), (String ((Ascii (true,
    false, false, true, true, false, true, false)), (String ((Ascii (true,
    true, false, false, true, false, true, false)),
    EmptyString)))))))))))) :: ((String ((Ascii (true, false, false, false,
    false, false, true, false)), (String ((Ascii (false, true, true, true,
    false, false, true, false)), (String ((Ascii (true, false, false, false,
    false, false, true, false)), (String ((Ascii (false, false, true, true,
    false, false, true, false)), (String ((Ascii (true, false, false, true,
    true, false, true, false)), (String ((Ascii (false, true, false, true,
    true, false, true, false)), (String ((Ascii (true, false, true, false,
    false, false, true, false)), EmptyString)))))))))))))) :: ((String
    ((Ascii (true, false, false, false, false, false, true, false)), (String
    ((Ascii (false, true, true, true, false, false, true, false)), (String
    ((Ascii (false, false, true, false, false, false, true, false)),
    EmptyString)))))) :: ((String ((Ascii (true, false, false, false, false,
    false, true, false)), (String ((Ascii (true, true, false, false, true,
    false, true, false)), EmptyString)))) :: ((String ((Ascii (true, false,
    false, false, false, false, true, false)), (String ((Ascii (true, true,
    false, false, true, false, true, false)), (String ((Ascii (true, true,
    false, false, false, false, true, false)), EmptyString)))))) :: ((String
    ((Ascii (true, false, false, false, false, false, true, false)), (String
    ((Ascii (false, false, true, false, true, false, true, false)), (String
    ((Ascii (false, false, true, false, true, false, true, false)), (String
    ((Ascii (true, false, false, false, false, false, true, false)), (String
    ((Ascii (true, true, false, false, false, false, true, false)), (String
    ((Ascii (false, false, false, true, false, false, true, false)),
    EmptyString)))))))))))) :: ((String ((Ascii (true, false, false, false,
    false, false, true, false)), (String ((Ascii (true, false, true, false,
    true, false, true, false)), (String ((Ascii (false, false, true, false,
    true, false, true, false)), (String ((Ascii (true, true, true, true,
    false, false, true, false)), (String ((Ascii (true, false, false, true,
    false, false, true, false)), (String ((Ascii (false, true, true, true,
    false, false, true, false)), (String ((Ascii (true, true, false, false,
    false, false, true, false)), (String ((Ascii (false, true, false, false,
    true, false, true, false)), (String ((Ascii (true, false, true, false,
    false, false, true, false)), (String ((Ascii (true, false, true, true,
    false, false, true, false)), (String ((Ascii (true, false, true, false,
    false, false, true, false)), (String ((Ascii (false, true, true, true,
    false, false, true, false)), (String ((Ascii (false, false, true, false,
    true, false, true, false)),
    EmptyString)))))))))))))))))))))))))) :: ((String ((Ascii (false, true,
    false, false, false, false, true, false)), (String ((Ascii (true, false,
    true, false, false, false, true, false)), (String ((Ascii (false, true,
    true, false, false, false, true, false)), (String ((Ascii (true, true,
    true, true, false, false, true, false)), (String ((Ascii (false, true,
    false, false, true, false, true, false)), (String ((Ascii (true, false,
    true, false, false, false, true, false)),
    EmptyString)))))))))))) :: ((String ((Ascii (false, true, false, false,
    false, false, true, false)), (String ((Ascii (true, false, true, false,
    false, false, true, false)), (String ((Ascii (true, true, true, false,
    false, false, true, false)), (String ((Ascii (true, false, false, true,
    false, false, true, false)), (String ((Ascii (false, true, true, true,
    false, false, true, false)), EmptyString)))))))))) :: ((String ((Ascii
    (false, true, false, false, false, false, true, false)), (String ((Ascii
    (true, false, true, false, false, false, true, false)), (String ((Ascii
    (false, false, true, false, true, false, true, false)), (String ((Ascii
    (true, true, true, false, true, false, true, false)), (String ((Ascii
    (true, false, true, false, false, false, true, false)), (String ((Ascii
    (true, false, true, false, false, false, true, false)), (String ((Ascii
    (false, true, true, true, false, false, true, false)),
    EmptyString)))))))))))))) :: ((String ((Ascii (false, true, false, false,
    false, false, true, false)), (String ((Ascii (true, false, false, true,
    true, false, true, false)), EmptyString)))) :: ((String ((Ascii (true,
    true, false, false, false, false, true, false)), (String ((Ascii (true,
    false, false, false, false, false, true, false)), (String ((Ascii (true,
    true, false, false, true, false, true, false)), (String ((Ascii (true,
    true, false, false, false, false, true, false)), (String ((Ascii (true,
    false, false, false, false, false, true, false)), (String ((Ascii (false,
    false, true, false, false, false, true, false)), (String ((Ascii (true,
    false, true, false, false, false, true, false)),
    EmptyString)))))))))))))) :: ((String ((Ascii (true, true, false, false,
    false, false, true, false)), (String ((Ascii (true, false, false, false,
    false, false, true, false)), (String ((Ascii (true, true, false, false,
    true, false, true, false)), (String ((Ascii (true, false, true, false,
    false, false, true, false)), EmptyString)))))))) :: ((String ((Ascii
    (true, true, false, false, false, false, true, false)), (String ((Ascii
    (true, false, false, false, false, false, true, false)), (String ((Ascii
    (true, true, false, false, true, false, true, false)), (String ((Ascii
    (false, false, true, false, true, false, true, false)),
    EmptyString)))))))) :: ((String ((Ascii (true, true, false, false, false,
    false, true, false)), (String ((Ascii (false, false, false, true, false,
    false, true, false)), (String ((Ascii (true, false, true, false, false,
    false, true, false)), (String ((Ascii (true, true, false, false, false,
    false, true, false)), (String ((Ascii (true, true, false, true, false,
    false, true, false)), EmptyString)))))))))) :: ((String ((Ascii (true,
    true, false, false, false, false, true, false)), (String ((Ascii (true,
    true, true, true, false, false, true, false)), (String ((Ascii (false,
    false, true, true, false, false, true, false)), (String ((Ascii (false,
    false, true, true, false, false, true, false)), (String ((Ascii (true,
    false, false, false, false, false, true, false)), (String ((Ascii (false,
    false, true, false, true, false, true, false)), (String ((Ascii (true,
    false, true, false, false, false, true, false)),
    EmptyString)))))))))))))) :: ((String ((Ascii (true, true, false, false,
    false, false, true, false)), (String ((Ascii (true, true, true, true,
    false, false, true, false)), (String ((Ascii (false, false, true, true,
    false, false, true, false)), (String ((Ascii (true, false, true, false,
    true, false, true, false)), (String ((Ascii (true, false, true, true,
    false, false, true, false)), (String ((Ascii (false, true, true, true,
    false, false, true, false)), EmptyString)))))))))))) :: ((String ((Ascii
    (true, true, false, false, false, false, true, false)), (String ((Ascii
    (true, true, true, true, false, false, true, false)), (String ((Ascii
    (true, false, true, true, false, false, true, false)), (String ((Ascii
    (true, false, true, true, false, false, true, false)), (String ((Ascii
    (true, false, false, true, false, false, true, false)), (String ((Ascii
    (false, false, true, false, true, false, true, false)),
    EmptyString)))))))))))) :: ((String ((Ascii (true, true, false, false,
    false, false, true, false)), (String ((Ascii (true, true, true, true,
    false, false, true, false)), (String ((Ascii (false, true, true, true,
    false, false, true, false)), (String ((Ascii (false, true, true, false,
    false, false, true, false)), (String ((Ascii (false, false, true, true,
    false, false, true, false)), (String ((Ascii (true, false, false, true,
    false, false, true, false)), (String ((Ascii (true, true, false, false,
    false, false, true, false)), (String ((Ascii (false, false, true, false,
    true, false, true, false)), EmptyString)))))))))))))))) :: ((String
    ((Ascii (true, true, false, false, false, false, true, false)), (String
    ((Ascii (true, true, true, true, false, false, true, false)), (String
    ((Ascii (false, true, true, true, false, false, true, false)), (String
    ((Ascii (true, true, false, false, true, false, true, false)), (String
    ((Ascii (false, false, true, false, true, false, true, false)), (String
    ((Ascii (false, true, false, false, true, false, true, false)), (String
    ((Ascii (true, false, false, false, false, false, true, false)), (String
    ((Ascii (true, false, false, true, false, false, true, false)), (String
    ((Ascii (false, true, true, true, false, false, true, false)), (String
    ((Ascii (false, false, true, false, true, false, true, false)),
    EmptyString)))))))))))))))))))) :: ((String ((Ascii (true, true, false,
    false, false, false, true, false)), (String ((Ascii (false, true, false,
    false, true, false, true, false)), (String ((Ascii (true, false, true,
    false, false, false, true, false)), (String ((Ascii (true, false, false,
    false, false, false, true, false)), (String ((Ascii (false, false, true,
    false, true, false, true, false)), (String ((Ascii (true, false, true,
    false, false, false, true, false)), EmptyString)))))))))))) :: ((String
    ((Ascii (true, true, false, false, false, false, true, false)), (String
    ((Ascii (false, true, false, false, true, false, true, false)), (String
    ((Ascii (true, true, true, true, false, false, true, false)), (String
    ((Ascii (true, true, false, false, true, false, true, false)), (String
    ((Ascii (true, true, false, false, true, false, true, false)),
    EmptyString)))))))))) :: ((String ((Ascii (true, true, false, false,
    false, false, true, false)), (String ((Ascii (true, false, true, false,
    true, false, true, false)), (String ((Ascii (false, true, false, false,
    true, false, true, false)), (String ((Ascii (false, true, false, false,
    true, false, true, false)), (String ((Ascii (true, false, true, false,
    false, false, true, false)), (String ((Ascii (false, true, true, true,
    false, false, true, false)), (String ((Ascii (false, false, true, false,
    true, false, true, false)), EmptyString)))))))))))))) :: ((String ((Ascii
    (true, true, false, false, false, false, true, false)), (String ((Ascii
    (true, false, true, false, true, false, true, false)), (String ((Ascii
    (false, true, false, false, true, false, true, false)), (String ((Ascii
    (false, true, false, false, true, false, true, false)), (String ((Ascii
    (true, false, true, false, false, false, true, false)), (String ((Ascii
    (false, true, true, true, false, false, true, false)), (String ((Ascii
    (false, false, true, false, true, false, true, false)), (String ((Ascii
    (true, true, true, true, true, false, true, false)), (String ((Ascii
    (false, false, true, false, false, false, true, false)), (String ((Ascii
    (true, false, false, false, false, false, true, false)), (String ((Ascii
    (false, false, true, false, true, false, true, false)), (String ((Ascii
    (true, false, true, false, false, false, true, false)),
    EmptyString)))))))))))))))))))))))) :: ((String ((Ascii (true, true,
    false, false, false, false, true, false)), (String ((Ascii (true, false,
    true, false, true, false, true, false)), (String ((Ascii (false, true,
    false, false, true, false, true, false)), (String ((Ascii (false, true,
    false, false, true, false, true, false)), (String ((Ascii (true, false,
    true, false, false, false, true, false)), (String ((Ascii (false, true,
    true, true, false, false, true, false)), (String ((Ascii (false, false,
    true, false, true, false, true, false)), (String ((Ascii (true, true,
    true, true, true, false, true, false)), (String ((Ascii (false, false,
    true, false, true, false, true, false)), (String ((Ascii (true, false,
    false, true, false, false, true, false)), (String ((Ascii (true, false,
    true, true, false, false, true, false)), (String ((Ascii (true, false,
    true, false, false, false, true, false)),
    EmptyString)))))))))))))))))))))))) :: ((String ((Ascii (true, true,
    false, false, false, false, true, false)), (String ((Ascii (true, false,
    true, false, true, false, true, false)), (String ((Ascii (false, true,
    false, false, true, false, true, false)), (String ((Ascii (false, true,
    false, false, true, false, true, false)), (String ((Ascii (true, false,
    true, false, false, false, true, false)), (String ((Ascii (false, true,
    true, true, false, false, true, false)), (String ((Ascii (false, false,
    true, false, true, false, true, false)), (String ((Ascii (true, true,
    true, true, true, false, true, false)), (String ((Ascii (false, false,
    true, false, true, false, true, false)), (String ((Ascii (true, false,
    false, true, false, false, true, false)), (String ((Ascii (true, false,
    true, true, false, false, true, false)), (String ((Ascii (true, false,
    true, false, false, false, true, false)), (String ((Ascii (true, true,
    false, false, true, false, true, false)), (String ((Ascii (false, false,
    true, false, true, false, true, false)), (String ((Ascii (true, false,
    false, false, false, false, true, false)), (String ((Ascii (true, false,
    true, true, false, false, true, false)), (String ((Ascii (false, false,
    false, false, true, false, true, false)),
    EmptyString)))))))))))))))))))))))))))))))))) :: ((String ((Ascii (false,
    false, true, false, false, false, true, false)), (String ((Ascii (true,
    false, false, false, false, false, true, false)), (String ((Ascii (false,
    false, true, false, true, false, true, false)), (String ((Ascii (true,
    false, false, false, false, false, true, false)), (String ((Ascii (false,
    true, false, false, false, false, true, false)), (String ((Ascii (true,
    false, false, false, false, false, true, false)), (String ((Ascii (true,
    true, false, false, true, false, true, false)), (String ((Ascii (true,
    false, true, false, false, false, true, false)),
    EmptyString)))))))))))))))) :: ((String ((Ascii (false, false, true,
    false, false, false, true, false)), (String ((Ascii (true, false, true,
    false, false, false, true, false)), (String ((Ascii (false, true, true,
    false, false, false, true, false)), (String ((Ascii (true, false, false,
    false, false, false, true, false)), (String ((Ascii (true, false, true,
    false, true, false, true, false)), (String ((Ascii (false, false, true,
    true, false, false, true, false)), (String ((Ascii (false, false, true,
    false, true, false, true, false)), EmptyString)))))))))))))) :: ((String
    ((Ascii (false, false, true, false, false, false, true, false)), (String
    ((Ascii (true, false, true, false, false, false, true, false)), (String
    ((Ascii (false, true, true, false, false, false, true, false)), (String
    ((Ascii (true, false, true, false, false, false, true, false)), (String
    ((Ascii (false, true, false, false, true, false, true, false)), (String
    ((Ascii (false, true, false, false, true, false, true, false)), (String
    ((Ascii (true, false, false, false, false, false, true, false)), (String
    ((Ascii (false, true, false, false, false, false, true, false)), (String
    ((Ascii (false, false, true, true, false, false, true, false)), (String
    ((Ascii (true, false, true, false, false, false, true, false)),
    EmptyString)))))))))))))))))))) :: ((String ((Ascii (false, false, true,
    false, false, false, true, false)), (String ((Ascii (true, false, true,
    false, false, false, true, false)), (String ((Ascii (false, true, true,
    false, false, false, true, false)), (String ((Ascii (true, false, true,
    false, false, false, true, false)), (String ((Ascii (false, true, false,
    false, true, false, true, false)), (String ((Ascii (false, true, false,
    false, true, false, true, false)), (String ((Ascii (true, false, true,
    false, false, false, true, false)), (String ((Ascii (false, false, true,
    false, false, false, true, false)),
    EmptyString)))))))))))))))) :: ((String ((Ascii (false, false, true,
    false, false, false, true, false)), (String ((Ascii (true, false, true,
    false, false, false, true, false)), (String ((Ascii (false, false, true,
    true, false, false, true, false)), (String ((Ascii (true, false, true,
    false, false, false, true, false)), (String ((Ascii (false, false, true,
    false, true, false, true, false)), (String ((Ascii (true, false, true,
    false, false, false, true, false)), EmptyString)))))))))))) :: ((String
    ((Ascii (false, false, true, false, false, false, true, false)), (String
    ((Ascii (true, false, true, false, false, false, true, false)), (String
    ((Ascii (true, true, false, false, true, false, true, false)), (String
    ((Ascii (true, true, false, false, false, false, true, false)),
    EmptyString)))))))) :: ((String ((Ascii (false, false, true, false,
    false, false, true, false)), (String ((Ascii (true, false, true, false,
    false, false, true, false)), (String ((Ascii (false, false, true, false,
    true, false, true, false)), (String ((Ascii (true, false, false, false,
    false, false, true, false)), (String ((Ascii (true, true, false, false,
    false, false, true, false)), (String ((Ascii (false, false, false, true,
    false, false, true, false)), EmptyString)))))))))))) :: ((String ((Ascii
    (false, false, true, false, false, false, true, false)), (String ((Ascii
    (true, false, false, true, false, false, true, false)), (String ((Ascii
    (true, true, false, false, true, false, true, false)), (String ((Ascii
    (false, false, true, false, true, false, true, false)), (String ((Ascii
    (true, false, false, true, false, false, true, false)), (String ((Ascii
    (false, true, true, true, false, false, true, false)), (String ((Ascii
    (true, true, false, false, false, false, true, false)), (String ((Ascii
    (false, false, true, false, true, false, true, false)),
    EmptyString)))))))))))))))) :: ((String ((Ascii (false, false, true,
    false, false, false, true, false)), (String ((Ascii (true, true, true,
    true, false, false, true, false)), EmptyString)))) :: ((String ((Ascii
    (false, false, true, false, false, false, true, false)), (String ((Ascii
    (false, true, false, false, true, false, true, false)), (String ((Ascii
    (true, true, true, true, false, false, true, false)), (String ((Ascii
    (false, false, false, false, true, false, true, false)),
    EmptyString)))))))) :: ((String ((Ascii (true, false, true, false, false,
    false, true, false)), (String ((Ascii (true, false, false, false, false,
    false, true, false)), (String ((Ascii (true, true, false, false, false,
    false, true, false)), (String ((Ascii (false, false, false, true, false,
    false, true, false)), EmptyString)))))))) :: ((String ((Ascii (true,
    false, true, false, false, false, true, false)), (String ((Ascii (false,
    false, true, true, false, false, true, false)), (String ((Ascii (true,
    true, false, false, true, false, true, false)), (String ((Ascii (true,
    false, true, false, false, false, true, false)),
    EmptyString)))))))) :: ((String ((Ascii (true, false, true, false, false,
    false, true, false)), (String ((Ascii (false, true, true, true, false,
    false, true, false)), (String ((Ascii (false, false, true, false, false,
    false, true, false)), EmptyString)))))) :: ((String ((Ascii (true, false,
    true, false, false, false, true, false)), (String ((Ascii (true, true,
    false, false, true, false, true, false)), (String ((Ascii (true, true,
    false, false, false, false, true, false)), (String ((Ascii (true, false,
    false, false, false, false, true, false)), (String ((Ascii (false, false,
    false, false, true, false, true, false)), (String ((Ascii (true, false,
    true, false, false, false, true, false)),
    EmptyString)))))))))))) :: ((String ((Ascii (true, false, true, false,
    false, false, true, false)), (String ((Ascii (false, false, false, true,
    true, false, true, false)), (String ((Ascii (true, true, false, false,
    false, false, true, false)), (String ((Ascii (true, false, true, false,
    false, false, true, false)), (String ((Ascii (false, false, false, false,
    true, false, true, false)), (String ((Ascii (false, false, true, false,
    true, false, true, false)), EmptyString)))))))))))) :: ((String ((Ascii
    (true, false, true, false, false, false, true, false)), (String ((Ascii
    (false, false, false, true, true, false, true, false)), (String ((Ascii
    (true, true, false, false, false, false, true, false)), (String ((Ascii
    (false, false, true, true, false, false, true, false)), (String ((Ascii
    (true, false, true, false, true, false, true, false)), (String ((Ascii
    (false, false, true, false, false, false, true, false)), (String ((Ascii
    (true, false, true, false, false, false, true, false)),
    EmptyString)))))))))))))) :: ((String ((Ascii (true, false, true, false,
    false, false, true, false)), (String ((Ascii (false, false, false, true,
    true, false, true, false)), (String ((Ascii (true, true, false, false,
    false, false, true, false)), (String ((Ascii (false, false, true, true,
    false, false, true, false)), (String ((Ascii (true, false, true, false,
    true, false, true, false)), (String ((Ascii (true, true, false, false,
    true, false, true, false)), (String ((Ascii (true, false, false, true,
    false, false, true, false)), (String ((Ascii (false, true, true, false,
    true, false, true, false)), (String ((Ascii (true, false, true, false,
    false, false, true, false)), EmptyString)))))))))))))))))) :: ((String
    ((Ascii (true, false, true, false, false, false, true, false)), (String
    ((Ascii (false, false, false, true, true, false, true, false)), (String
    ((Ascii (true, false, false, true, false, false, true, false)), (String
    ((Ascii (true, true, false, false, true, false, true, false)), (String
    ((Ascii (false, false, true, false, true, false, true, false)), (String
    ((Ascii (true, true, false, false, true, false, true, false)),
    EmptyString)))))))))))) :: ((String ((Ascii (true, false, true, false,
    false, false, true, false)), (String ((Ascii (false, false, false, true,
    true, false, true, false)), (String ((Ascii (false, false, false, false,
    true, false, true, false)), (String ((Ascii (false, false, true, true,
    false, false, true, false)), (String ((Ascii (true, false, false, false,
    false, false, true, false)), (String ((Ascii (true, false, false, true,
    false, false, true, false)), (String ((Ascii (false, true, true, true,
    false, false, true, false)), EmptyString)))))))))))))) :: ((String
    ((Ascii (false, true, true, false, false, false, true, false)), (String
    ((Ascii (true, false, false, false, false, false, true, false)), (String
    ((Ascii (true, false, false, true, false, false, true, false)), (String
    ((Ascii (false, false, true, true, false, false, true, false)),
    EmptyString)))))))) :: ((String ((Ascii (false, true, true, false, false,
    false, true, false)), (String ((Ascii (true, false, false, false, false,
    false, true, false)), (String ((Ascii (false, false, true, true, false,
    false, true, false)), (String ((Ascii (true, true, false, false, true,
    false, true, false)), (String ((Ascii (true, false, true, false, false,
    false, true, false)), EmptyString)))))))))) :: ((String ((Ascii (false,
    true, true, false, false, false, true, false)), (String ((Ascii (true,
    false, false, true, false, false, true, false)), (String ((Ascii (false,
    false, true, true, false, false, true, false)), (String ((Ascii (false,
    false, true, false, true, false, true, false)), (String ((Ascii (true,
    false, true, false, false, false, true, false)), (String ((Ascii (false,
    true, false, false, true, false, true, false)),
    EmptyString)))))))))))) :: ((String ((Ascii (false, true, true, false,
    false, false, true, false)), (String ((Ascii (true, false, false, true,
    false, false, true, false)), (String ((Ascii (false, true, false, false,
    true, false, true, false)), (String ((Ascii (true, true, false, false,
    true, false, true, false)), (String ((Ascii (false, false, true, false,
    true, false, true, false)), EmptyString)))))))))) :: ((String ((Ascii
    (false, true, true, false, false, false, true, false)), (String ((Ascii
    (true, true, true, true, false, false, true, false)), (String ((Ascii
    (false, false, true, true, false, false, true, false)), (String ((Ascii
    (false, false, true, true, false, false, true, false)), (String ((Ascii
    (true, true, true, true, false, false, true, false)), (String ((Ascii
    (true, true, true, false, true, false, true, false)), (String ((Ascii
    (true, false, false, true, false, false, true, false)), (String ((Ascii
    (false, true, true, true, false, false, true, false)), (String ((Ascii
    (true, true, true, false, false, false, true, false)),
    EmptyString)))))))))))))))))) :: ((String ((Ascii (false, true, true,
    false, false, false, true, false)), (String ((Ascii (true, true, true,
    true, false, false, true, false)), (String ((Ascii (false, true, false,
    false, true, false, true, false)), EmptyString)))))) :: ((String ((Ascii
    (false, true, true, false, false, false, true, false)), (String ((Ascii
    (true, true, true, true, false, false, true, false)), (String ((Ascii
    (false, true, false, false, true, false, true, false)), (String ((Ascii
    (true, false, true, false, false, false, true, false)), (String ((Ascii
    (true, false, false, true, false, false, true, false)), (String ((Ascii
    (true, true, true, false, false, false, true, false)), (String ((Ascii
    (false, true, true, true, false, false, true, false)),
    EmptyString)))))))))))))) :: ((String ((Ascii (false, true, true, false,
    false, false, true, false)), (String ((Ascii (false, true, false, false,
    true, false, true, false)), (String ((Ascii (true, true, true, true,
    false, false, true, false)), (String ((Ascii (true, false, true, true,
    false, false, true, false)), EmptyString)))))))) :: ((String ((Ascii
    (false, true, true, false, false, false, true, false)), (String ((Ascii
    (true, false, true, false, true, false, true, false)), (String ((Ascii
    (false, false, true, true, false, false, true, false)), (String ((Ascii
    (false, false, true, true, false, false, true, false)),
    EmptyString)))))))) :: ((String ((Ascii (true, true, true, false, false,
    false, true, false)), (String ((Ascii (true, false, true, false, false,
    false, true, false)), (String ((Ascii (false, true, true, true, false,
    false, true, false)), (String ((Ascii (true, false, true, false, false,
    false, true, false)), (String ((Ascii (false, true, false, false, true,
    false, true, false)), (String ((Ascii (true, false, false, false, false,
    false, true, false)), (String ((Ascii (false, false, true, false, true,
    false, true, false)), (String ((Ascii (true, false, true, false, false,
    false, true, false)), (String ((Ascii (false, false, true, false, false,
    false, true, false)), EmptyString)))))))))))))))))) :: ((String ((Ascii
    (true, true, true, false, false, false, true, false)), (String ((Ascii
    (false, false, true, true, false, false, true, false)), (String ((Ascii
    (true, true, true, true, false, false, true, false)), (String ((Ascii
    (false, true, false, false, false, false, true, false)),
    EmptyString)))))))) :: ((String ((Ascii (true, true, true, false, false,
    false, true, false)), (String ((Ascii (false, true, false, false, true,
    false, true, false)), (String ((Ascii (true, true, true, true, false,
    false, true, false)), (String ((Ascii (true, false, true, false, true,
    false, true, false)), (String ((Ascii (false, false, false, false, true,
    false, true, false)), EmptyString)))))))))) :: ((String ((Ascii (true,
    true, true, false, false, false, true, false)), (String ((Ascii (false,
    true, false, false, true, false, true, false)), (String ((Ascii (true,
    true, true, true, false, false, true, false)), (String ((Ascii (true,
    false, true, false, true, false, true, false)), (String ((Ascii (false,
    false, false, false, true, false, true, false)), (String ((Ascii (true,
    true, false, false, true, false, true, false)),
    EmptyString)))))))))))) :: ((String ((Ascii (false, false, false, true,
    false, false, true, false)), (String ((Ascii (true, false, false, false,
    false, false, true, false)), (String ((Ascii (false, true, true, false,
    true, false, true, false)), (String ((Ascii (true, false, false, true,
    false, false, true, false)), (String ((Ascii (false, true, true, true,
    false, false, true, false)), (String ((Ascii (true, true, true, false,
    false, false, true, false)), EmptyString)))))))))))) :: ((String ((Ascii
    (true, false, false, true, false, false, true, false)), (String ((Ascii
    (false, true, true, false, false, false, true, false)),
    EmptyString)))) :: ((String ((Ascii (true, false, false, true, false,
    false, true, false)), (String ((Ascii (true, true, true, false, false,
    false, true, false)), (String ((Ascii (false, true, true, true, false,
    false, true, false)), (String ((Ascii (true, true, true, true, false,
    false, true, false)), (String ((Ascii (false, true, false, false, true,
    false, true, false)), (String ((Ascii (true, false, true, false, false,
    false, true, false)), EmptyString)))))))))))) :: ((String ((Ascii (true,
    false, false, true, false, false, true, false)), (String ((Ascii (true,
    false, true, true, false, false, true, false)), (String ((Ascii (true,
    false, true, true, false, false, true, false)), (String ((Ascii (true,
    false, true, false, false, false, true, false)), (String ((Ascii (false,
    false, true, false, false, false, true, false)), (String ((Ascii (true,
    false, false, true, false, false, true, false)), (String ((Ascii (true,
    false, false, false, false, false, true, false)), (String ((Ascii (false,
    false, true, false, true, false, true, false)), (String ((Ascii (true,
    false, true, false, false, false, true, false)),
    EmptyString)))))))))))))))))) :: ((String ((Ascii (true, false, false,
    true, false, false, true, false)), (String ((Ascii (false, true, true,
    true, false, false, true, false)), EmptyString)))) :: ((String ((Ascii
    (true, false, false, true, false, false, true, false)), (String ((Ascii
    (false, true, true, true, false, false, true, false)), (String ((Ascii
    (false, false, true, false, false, false, true, false)), (String ((Ascii
    (true, false, true, false, false, false, true, false)), (String ((Ascii
    (false, false, false, true, true, false, true, false)),
    EmptyString)))))))))) :: ((String ((Ascii (true, false, false, true,
    false, false, true, false)), (String ((Ascii (false, true, true, true,
    false, false, true, false)), (String ((Ascii (false, false, true, false,
    false, false, true, false)), (String ((Ascii (true, false, true, false,
    false, false, true, false)), (String ((Ascii (false, false, false, true,
    true, false, true, false)), (String ((Ascii (true, false, true, false,
    false, false, true, false)), (String ((Ascii (false, false, true, false,
    false, false, true, false)), EmptyString)))))))))))))) :: ((String
    ((Ascii (true, false, false, true, false, false, true, false)), (String
    ((Ascii (false, true, true, true, false, false, true, false)), (String
    ((Ascii (true, false, false, true, false, false, true, false)), (String
    ((Ascii (false, false, true, false, true, false, true, false)), (String
    ((Ascii (true, false, false, true, false, false, true, false)), (String
    ((Ascii (true, false, false, false, false, false, true, false)), (String
    ((Ascii (false, false, true, true, false, false, true, false)), (String
    ((Ascii (false, false, true, true, false, false, true, false)), (String
    ((Ascii (true, false, false, true, true, false, true, false)),
    EmptyString)))))))))))))))))) :: ((String ((Ascii (true, false, false,
    true, false, false, true, false)), (String ((Ascii (false, true, true,
    true, false, false, true, false)), (String ((Ascii (false, true, true,
    true, false, false, true, false)), (String ((Ascii (true, false, true,
    false, false, false, true, false)), (String ((Ascii (false, true, false,
    false, true, false, true, false)), EmptyString)))))))))) :: ((String
    ((Ascii (true, false, false, true, false, false, true, false)), (String
    ((Ascii (false, true, true, true, false, false, true, false)), (String
    ((Ascii (true, true, false, false, true, false, true, false)), (String
    ((Ascii (true, false, true, false, false, false, true, false)), (String
    ((Ascii (false, true, false, false, true, false, true, false)), (String
    ((Ascii (false, false, true, false, true, false, true, false)),
    EmptyString)))))))))))) :: ((String ((Ascii (true, false, false, true,
    false, false, true, false)), (String ((Ascii (false, true, true, true,
    false, false, true, false)), (String ((Ascii (true, true, false, false,
    true, false, true, false)), (String ((Ascii (false, false, true, false,
    true, false, true, false)), (String ((Ascii (true, false, true, false,
    false, false, true, false)), (String ((Ascii (true, false, false, false,
    false, false, true, false)), (String ((Ascii (false, false, true, false,
    false, false, true, false)), EmptyString)))))))))))))) :: ((String
    ((Ascii (true, false, false, true, false, false, true, false)), (String
    ((Ascii (false, true, true, true, false, false, true, false)), (String
    ((Ascii (false, false, true, false, true, false, true, false)), (String
    ((Ascii (true, false, true, false, false, false, true, false)), (String
    ((Ascii (false, true, false, false, true, false, true, false)), (String
    ((Ascii (true, true, false, false, true, false, true, false)), (String
    ((Ascii (true, false, true, false, false, false, true, false)), (String
    ((Ascii (true, true, false, false, false, false, true, false)), (String
    ((Ascii (false, false, true, false, true, false, true, false)),
    EmptyString)))))))))))))))))) :: ((String ((Ascii (true, false, false,
    true, false, false, true, false)), (String ((Ascii (false, true, true,
    true, false, false, true, false)), (String ((Ascii (false, false, true,
    false, true, false, true, false)), (String ((Ascii (true, true, true,
    true, false, false, true, false)), EmptyString)))))))) :: ((String
    ((Ascii (true, false, false, true, false, false, true, false)), (String
    ((Ascii (true, true, false, false, true, false, true, false)),
    EmptyString)))) :: ((String ((Ascii (true, false, false, true, false,
    false, true, false)), (String ((Ascii (true, true, false, false, true,
    false, true, false)), (String ((Ascii (false, true, true, true, false,
    false, true, false)), (String ((Ascii (true, false, true, false, true,
    false, true, false)), (String ((Ascii (false, false, true, true, false,
    false, true, false)), (String ((Ascii (false, false, true, true, false,
    false, true, false)), EmptyString)))))))))))) :: ((String ((Ascii (false,
    true, false, true, false, false, true, false)), (String ((Ascii (true,
    true, true, true, false, false, true, false)), (String ((Ascii (true,
    false, false, true, false, false, true, false)), (String ((Ascii (false,
    true, true, true, false, false, true, false)),
    EmptyString)))))))) :: ((String ((Ascii (true, true, false, true, false,
    false, true, false)), (String ((Ascii (true, false, true, false, false,
    false, true, false)), (String ((Ascii (true, false, false, true, true,
    false, true, false)), EmptyString)))))) :: ((String ((Ascii (false,
    false, true, true, false, false, true, false)), (String ((Ascii (true,
    false, false, false, false, false, true, false)), (String ((Ascii (true,
    true, false, false, true, false, true, false)), (String ((Ascii (false,
    false, true, false, true, false, true, false)),
    EmptyString)))))))) :: ((String ((Ascii (false, false, true, true, false,
    false, true, false)), (String ((Ascii (true, false, true, false, false,
    false, true, false)), (String ((Ascii (false, true, true, false, false,
    false, true, false)), (String ((Ascii (false, false, true, false, true,
    false, true, false)), EmptyString)))))))) :: ((String ((Ascii (false,
    false, true, true, false, false, true, false)), (String ((Ascii (true,
    false, false, true, false, false, true, false)), (String ((Ascii (true,
    true, false, true, false, false, true, false)), (String ((Ascii (true,
    false, true, false, false, false, true, false)),
    EmptyString)))))))) :: ((String ((Ascii (false, false, true, true, false,
    false, true, false)), (String ((Ascii (true, false, false, true, false,
    false, true, false)), (String ((Ascii (true, false, true, true, false,
    false, true, false)), (String ((Ascii (true, false, false, true, false,
    false, true, false)), (String ((Ascii (false, false, true, false, true,
    false, true, false)), EmptyString)))))))))) :: ((String ((Ascii (true,
    false, true, true, false, false, true, false)), (String ((Ascii (true,
    false, false, false, false, false, true, false)), (String ((Ascii (false,
    false, true, false, true, false, true, false)), (String ((Ascii (true,
    true, false, false, false, false, true, false)), (String ((Ascii (false,
    false, false, true, false, false, true, false)),
    EmptyString)))))))))) :: ((String ((Ascii (true, false, true, true,
    false, false, true, false)), (String ((Ascii (true, false, false, false,
    false, false, true, false)), (String ((Ascii (false, false, true, false,
    true, false, true, false)), (String ((Ascii (true, false, true, false,
    false, false, true, false)), (String ((Ascii (false, true, false, false,
    true, false, true, false)), (String ((Ascii (true, false, false, true,
    false, false, true, false)), (String ((Ascii (true, false, false, false,
    false, false, true, false)), (String ((Ascii (false, false, true, true,
    false, false, true, false)), (String ((Ascii (true, false, false, true,
    false, false, true, false)), (String ((Ascii (false, true, false, true,
    true, false, true, false)), (String ((Ascii (true, false, true, false,
    false, false, true, false)), (String ((Ascii (false, false, true, false,
    false, false, true, false)),
    EmptyString)))))))))))))))))))))))) :: ((String ((Ascii (false, true,
    true, true, false, false, true, false)), (String ((Ascii (true, false,
    false, false, false, false, true, false)), (String ((Ascii (false, false,
    true, false, true, false, true, false)), (String ((Ascii (true, false,
    true, false, true, false, true, false)), (String ((Ascii (false, true,
    false, false, true, false, true, false)), (String ((Ascii (true, false,
    false, false, false, false, true, false)), (String ((Ascii (false, false,
    true, true, false, false, true, false)),
    EmptyString)))))))))))))) :: ((String ((Ascii (false, true, true, true,
    false, false, true, false)), (String ((Ascii (true, true, true, true,
    false, false, true, false)), EmptyString)))) :: ((String ((Ascii (false,
    true, true, true, false, false, true, false)), (String ((Ascii (true,
    true, true, true, false, false, true, false)), (String ((Ascii (false,
    false, true, false, true, false, true, false)),
    EmptyString)))))) :: ((String ((Ascii (false, true, true, true, false,
    false, true, false)), (String ((Ascii (true, true, true, true, false,
    false, true, false)), (String ((Ascii (false, false, true, false, true,
    false, true, false)), (String ((Ascii (false, false, false, true, false,
    false, true, false)), (String ((Ascii (true, false, false, true, false,
    false, true, false)), (String ((Ascii (false, true, true, true, false,
    false, true, false)), (String ((Ascii (true, true, true, false, false,
    false, true, false)), EmptyString)))))))))))))) :: ((String ((Ascii
    (false, true, true, true, false, false, true, false)), (String ((Ascii
    (true, true, true, true, false, false, true, false)), (String ((Ascii
    (false, false, true, false, true, false, true, false)), (String ((Ascii
    (false, true, true, true, false, false, true, false)), (String ((Ascii
    (true, false, true, false, true, false, true, false)), (String ((Ascii
    (false, false, true, true, false, false, true, false)), (String ((Ascii
    (false, false, true, true, false, false, true, false)),
    EmptyString)))))))))))))) :: ((String ((Ascii (false, true, true, true,
    false, false, true, false)), (String ((Ascii (true, false, true, false,
    true, false, true, false)), (String ((Ascii (false, false, true, true,
    false, false, true, false)), (String ((Ascii (false, false, true, true,
    false, false, true, false)), EmptyString)))))))) :: ((String ((Ascii
    (false, true, true, true, false, false, true, false)), (String ((Ascii
    (true, false, true, false, true, false, true, false)), (String ((Ascii
    (false, false, true, true, false, false, true, false)), (String ((Ascii
    (false, false, true, true, false, false, true, false)), (String ((Ascii
    (true, true, false, false, true, false, true, false)),
    EmptyString)))))))))) :: ((String ((Ascii (true, true, true, true, false,
    false, true, false)), (String ((Ascii (false, true, true, false, false,
    false, true, false)), EmptyString)))) :: ((String ((Ascii (true, true,
    true, true, false, false, true, false)), (String ((Ascii (false, true,
    true, false, false, false, true, false)), (String ((Ascii (false, true,
    true, false, false, false, true, false)), (String ((Ascii (true, true,
    false, false, true, false, true, false)), (String ((Ascii (true, false,
    true, false, false, false, true, false)), (String ((Ascii (false, false,
    true, false, true, false, true, false)),
    EmptyString)))))))))))) :: ((String ((Ascii (true, true, true, true,
    false, false, true, false)), (String ((Ascii (false, true, true, true,
    false, false, true, false)), EmptyString)))) :: ((String ((Ascii (true,
    true, true, true, false, false, true, false)), (String ((Ascii (false,
    true, false, false, true, false, true, false)),
    EmptyString)))) :: ((String ((Ascii (true, true, true, true, false,
    false, true, false)), (String ((Ascii (false, true, false, false, true,
    false, true, false)), (String ((Ascii (false, false, true, false, false,
    false, true, false)), (String ((Ascii (true, false, true, false, false,
    false, true, false)), (String ((Ascii (false, true, false, false, true,
    false, true, false)), EmptyString)))))))))) :: ((String ((Ascii (true,
    true, true, true, false, false, true, false)), (String ((Ascii (false,
    false, true, false, true, false, true, false)), (String ((Ascii (false,
    false, false, true, false, false, true, false)), (String ((Ascii (true,
    false, true, false, false, false, true, false)), (String ((Ascii (false,
    true, false, false, true, false, true, false)), (String ((Ascii (true,
    true, false, false, true, false, true, false)),
    EmptyString)))))))))))) :: ((String ((Ascii (true, true, true, true,
    false, false, true, false)), (String ((Ascii (true, false, true, false,
    true, false, true, false)), (String ((Ascii (false, false, true, false,
    true, false, true, false)), (String ((Ascii (true, false, true, false,
    false, false, true, false)), (String ((Ascii (false, true, false, false,
    true, false, true, false)), EmptyString)))))))))) :: ((String ((Ascii
    (true, true, true, true, false, false, true, false)), (String ((Ascii
    (false, true, true, false, true, false, true, false)), (String ((Ascii
    (true, false, true, false, false, false, true, false)), (String ((Ascii
    (false, true, false, false, true, false, true, false)),
    EmptyString)))))))) :: ((String ((Ascii (false, false, false, false,
    true, false, true, false)), (String ((Ascii (true, false, false, false,
    false, false, true, false)), (String ((Ascii (false, true, false, false,
    true, false, true, false)), (String ((Ascii (false, false, true, false,
    true, false, true, false)), (String ((Ascii (true, false, false, true,
    false, false, true, false)), (String ((Ascii (false, false, true, false,
    true, false, true, false)), (String ((Ascii (true, false, false, true,
    false, false, true, false)), (String ((Ascii (true, true, true, true,
    false, false, true, false)), (String ((Ascii (false, true, true, true,
    false, false, true, false)), EmptyString)))))))))))))))))) :: ((String
    ((Ascii (false, false, false, false, true, false, true, false)), (String
    ((Ascii (false, false, true, true, false, false, true, false)), (String
    ((Ascii (true, false, false, false, false, false, true, false)), (String
    ((Ascii (false, true, true, true, false, false, true, false)),
    EmptyString)))))))) :: ((String ((Ascii (false, false, false, false,
    true, false, true, false)), (String ((Ascii (false, true, false, false,
    true, false, true, false)), (String ((Ascii (true, false, false, false,
    false, false, true, false)), (String ((Ascii (true, true, true, false,
    false, false, true, false)), (String ((Ascii (true, false, true, true,
    false, false, true, false)), (String ((Ascii (true, false, false, false,
    false, false, true, false)), EmptyString)))))))))))) :: ((String ((Ascii
    (false, false, false, false, true, false, true, false)), (String ((Ascii
    (false, true, false, false, true, false, true, false)), (String ((Ascii
    (true, false, true, false, false, false, true, false)), (String ((Ascii
    (true, true, false, false, false, false, true, false)), (String ((Ascii
    (true, false, true, false, false, false, true, false)), (String ((Ascii
    (false, false, true, false, false, false, true, false)), (String ((Ascii
    (true, false, false, true, false, false, true, false)), (String ((Ascii
    (false, true, true, true, false, false, true, false)), (String ((Ascii
    (true, true, true, false, false, false, true, false)),
    EmptyString)))))))))))))))))) :: ((String ((Ascii (false, false, false,
    false, true, false, true, false)), (String ((Ascii (false, true, false,
    false, true, false, true, false)), (String ((Ascii (true, false, false,
    true, false, false, true, false)), (String ((Ascii (true, false, true,
    true, false, false, true, false)), (String ((Ascii (true, false, false,
    false, false, false, true, false)), (String ((Ascii (false, true, false,
    false, true, false, true, false)), (String ((Ascii (true, false, false,
    true, true, false, true, false)), EmptyString)))))))))))))) :: ((String
    ((Ascii (true, false, false, false, true, false, true, false)), (String
    ((Ascii (true, false, true, false, true, false, true, false)), (String
    ((Ascii (true, false, true, false, false, false, true, false)), (String
    ((Ascii (false, true, false, false, true, false, true, false)), (String
    ((Ascii (true, false, false, true, true, false, true, false)),
    EmptyString)))))))))) :: ((String ((Ascii (false, true, false, false,
    true, false, true, false)), (String ((Ascii (true, false, false, false,
    false, false, true, false)), (String ((Ascii (true, false, false, true,
    false, false, true, false)), (String ((Ascii (true, true, false, false,
    true, false, true, false)), (String ((Ascii (true, false, true, false,
    false, false, true, false)), EmptyString)))))))))) :: ((String ((Ascii
    (false, true, false, false, true, false, true, false)), (String ((Ascii
    (true, false, false, false, false, false, true, false)), (String ((Ascii
    (false, true, true, true, false, false, true, false)), (String ((Ascii
    (true, true, true, false, false, false, true, false)), (String ((Ascii
    (true, false, true, false, false, false, true, false)),
    EmptyString)))))))))) :: ((String ((Ascii (false, true, false, false,
    true, false, true, false)), (String ((Ascii (true, false, true, false,
    false, false, true, false)), (String ((Ascii (true, true, false, false,
    false, false, true, false)), (String ((Ascii (true, false, true, false,
    true, false, true, false)), (String ((Ascii (false, true, false, false,
    true, false, true, false)), (String ((Ascii (true, true, false, false,
    true, false, true, false)), (String ((Ascii (true, false, false, true,
    false, false, true, false)), (String ((Ascii (false, true, true, false,
    true, false, true, false)), (String ((Ascii (true, false, true, false,
    false, false, true, false)), EmptyString)))))))))))))))))) :: ((String
    ((Ascii (false, true, false, false, true, false, true, false)), (String
    ((Ascii (true, false, true, false, false, false, true, false)), (String
    ((Ascii (false, true, true, false, false, false, true, false)), (String
    ((Ascii (true, false, true, false, false, false, true, false)), (String
    ((Ascii (false, true, false, false, true, false, true, false)), (String
    ((Ascii (true, false, true, false, false, false, true, false)), (String
    ((Ascii (false, true, true, true, false, false, true, false)), (String
    ((Ascii (true, true, false, false, false, false, true, false)), (String
    ((Ascii (true, false, true, false, false, false, true, false)), (String
    ((Ascii (true, true, false, false, true, false, true, false)),
    EmptyString)))))))))))))))))))) :: ((String ((Ascii (false, true, false,
    false, true, false, true, false)), (String ((Ascii (true, false, true,
    false, false, false, true, false)), (String ((Ascii (true, true, true,
    false, false, false, true, false)), (String ((Ascii (true, false, true,
    false, false, false, true, false)), (String ((Ascii (false, false, false,
    true, true, false, true, false)), (String ((Ascii (false, false, false,
    false, true, false, true, false)), EmptyString)))))))))))) :: ((String
    ((Ascii (false, true, false, false, true, false, true, false)), (String
    ((Ascii (true, false, true, false, false, false, true, false)), (String
    ((Ascii (true, false, false, true, false, false, true, false)), (String
    ((Ascii (false, true, true, true, false, false, true, false)), (String
    ((Ascii (false, false, true, false, false, false, true, false)), (String
    ((Ascii (true, false, true, false, false, false, true, false)), (String
    ((Ascii (false, false, false, true, true, false, true, false)),
    EmptyString)))))))))))))) :: ((String ((Ascii (false, true, false, false,
    true, false, true, false)), (String ((Ascii (true, false, true, false,
    false, false, true, false)), (String ((Ascii (false, false, true, true,
    false, false, true, false)), (String ((Ascii (true, false, true, false,
    false, false, true, false)), (String ((Ascii (true, false, false, false,
    false, false, true, false)), (String ((Ascii (true, true, false, false,
    true, false, true, false)), (String ((Ascii (true, false, true, false,
    false, false, true, false)), EmptyString)))))))))))))) :: ((String
    ((Ascii (false, true, false, false, true, false, true, false)), (String
    ((Ascii (true, false, true, false, false, false, true, false)), (String
    ((Ascii (false, true, true, true, false, false, true, false)), (String
    ((Ascii (true, false, false, false, false, false, true, false)), (String
    ((Ascii (true, false, true, true, false, false, true, false)), (String
    ((Ascii (true, false, true, false, false, false, true, false)),
    EmptyString)))))))))))) :: ((String ((Ascii (false, true, false, false,
    true, false, true, false)), (String ((Ascii (true, false, true, false,
    false, false, true, false)), (String ((Ascii (false, false, false, false,
    true, false, true, false)), (String ((Ascii (false, false, true, true,
    false, false, true, false)), (String ((Ascii (true, false, false, false,
    false, false, true, false)), (String ((Ascii (true, true, false, false,
    false, false, true, false)), (String ((Ascii (true, false, true, false,
    false, false, true, false)), EmptyString)))))))))))))) :: ((String
    ((Ascii (false, true, false, false, true, false, true, false)), (String
    ((Ascii (true, false, true, false, false, false, true, false)), (String
    ((Ascii (true, true, false, false, true, false, true, false)), (String
    ((Ascii (false, false, true, false, true, false, true, false)), (String
    ((Ascii (false, true, false, false, true, false, true, false)), (String
    ((Ascii (true, false, false, true, false, false, true, false)), (String
    ((Ascii (true, true, false, false, false, false, true, false)), (String
    ((Ascii (false, false, true, false, true, false, true, false)),
    EmptyString)))))))))))))))) :: ((String ((Ascii (false, true, false,
    false, true, false, true, false)), (String ((Ascii (true, false, true,
    false, false, false, true, false)), (String ((Ascii (false, false, true,
    false, true, false, true, false)), (String ((Ascii (true, false, true,
    false, true, false, true, false)), (String ((Ascii (false, true, false,
    false, true, false, true, false)), (String ((Ascii (false, true, true,
    true, false, false, true, false)), (String ((Ascii (true, false, false,
    true, false, false, true, false)), (String ((Ascii (false, true, true,
    true, false, false, true, false)), (String ((Ascii (true, true, true,
    false, false, false, true, false)),
    EmptyString)))))))))))))))))) :: ((String ((Ascii (false, true, false,
    false, true, false, true, false)), (String ((Ascii (true, false, false,
    true, false, false, true, false)), (String ((Ascii (true, true, true,
    false, false, false, true, false)), (String ((Ascii (false, false, false,
    true, false, false, true, false)), (String ((Ascii (false, false, true,
    false, true, false, true, false)), EmptyString)))))))))) :: ((String
    ((Ascii (false, true, false, false, true, false, true, false)), (String
    ((Ascii (true, true, true, true, false, false, true, false)), (String
    ((Ascii (false, false, true, true, false, false, true, false)), (String
    ((Ascii (false, false, true, true, false, false, true, false)), (String
    ((Ascii (false, true, false, false, false, false, true, false)), (String
    ((Ascii (true, false, false, false, false, false, true, false)), (String
    ((Ascii (true, true, false, false, false, false, true, false)), (String
    ((Ascii (true, true, false, true, false, false, true, false)),
    EmptyString)))))))))))))))) :: ((String ((Ascii (false, true, false,
    false, true, false, true, false)), (String ((Ascii (true, true, true,
    true, false, false, true, false)), (String ((Ascii (true, true, true,
    false, true, false, true, false)), EmptyString)))))) :: ((String ((Ascii
    (false, true, false, false, true, false, true, false)), (String ((Ascii
    (true, true, true, true, false, false, true, false)), (String ((Ascii
    (true, true, true, false, true, false, true, false)), (String ((Ascii
    (true, true, false, false, true, false, true, false)),
    EmptyString)))))))) :: ((String ((Ascii (true, true, false, false, true,
    false, true, false)), (String ((Ascii (true, false, false, false, false,
    false, true, false)), (String ((Ascii (false, true, true, false, true,
    false, true, false)), (String ((Ascii (true, false, true, false, false,
    false, true, false)), (String ((Ascii (false, false, false, false, true,
    false, true, false)), (String ((Ascii (true, true, true, true, false,
    false, true, false)), (String ((Ascii (true, false, false, true, false,
    false, true, false)), (String ((Ascii (false, true, true, true, false,
    false, true, false)), (String ((Ascii (false, false, true, false, true,
    false, true, false)), EmptyString)))))))))))))))))) :: ((String ((Ascii
    (true, true, false, false, true, false, true, false)), (String ((Ascii
    (true, false, true, false, false, false, true, false)), (String ((Ascii
    (false, false, true, true, false, false, true, false)), (String ((Ascii
    (true, false, true, false, false, false, true, false)), (String ((Ascii
    (true, true, false, false, false, false, true, false)), (String ((Ascii
    (false, false, true, false, true, false, true, false)),
    EmptyString)))))))))))) :: ((String ((Ascii (true, true, false, false,
    true, false, true, false)), (String ((Ascii (true, false, true, false,
    false, false, true, false)), (String ((Ascii (false, false, true, false,
    true, false, true, false)), EmptyString)))))) :: ((String ((Ascii (false,
    false, true, false, true, false, true, false)), (String ((Ascii (true,
    false, false, false, false, false, true, false)), (String ((Ascii (false,
    true, false, false, false, false, true, false)), (String ((Ascii (false,
    false, true, true, false, false, true, false)), (String ((Ascii (true,
    false, true, false, false, false, true, false)),
    EmptyString)))))))))) :: ((String ((Ascii (false, false, true, false,
    true, false, true, false)), (String ((Ascii (true, false, true, false,
    false, false, true, false)), (String ((Ascii (true, false, true, true,
    false, false, true, false)), (String ((Ascii (false, false, false, false,
    true, false, true, false)), EmptyString)))))))) :: ((String ((Ascii
    (false, false, true, false, true, false, true, false)), (String ((Ascii
    (true, false, true, false, false, false, true, false)), (String ((Ascii
    (true, false, true, true, false, false, true, false)), (String ((Ascii
    (false, false, false, false, true, false, true, false)), (String ((Ascii
    (true, true, true, true, false, false, true, false)), (String ((Ascii
    (false, true, false, false, true, false, true, false)), (String ((Ascii
    (true, false, false, false, false, false, true, false)), (String ((Ascii
    (false, true, false, false, true, false, true, false)), (String ((Ascii
    (true, false, false, true, true, false, true, false)),
    EmptyString)))))))))))))))))) :: ((String ((Ascii (false, false, true,
    false, true, false, true, false)), (String ((Ascii (false, false, false,
    true, false, false, true, false)), (String ((Ascii (true, false, true,
    false, false, false, true, false)), (String ((Ascii (false, true, true,
    true, false, false, true, false)), EmptyString)))))))) :: ((String
    ((Ascii (false, false, true, false, true, false, true, false)), (String
    ((Ascii (true, false, false, true, false, false, true, false)), (String
    ((Ascii (true, false, true, false, false, false, true, false)), (String
    ((Ascii (true, true, false, false, true, false, true, false)),
    EmptyString)))))))) :: ((String ((Ascii (false, false, true, false, true,
    false, true, false)), (String ((Ascii (true, true, true, true, false,
    false, true, false)), EmptyString)))) :: ((String ((Ascii (false, false,
    true, false, true, false, true, false)), (String ((Ascii (false, true,
    false, false, true, false, true, false)), (String ((Ascii (true, false,
    false, false, false, false, true, false)), (String ((Ascii (false, true,
    true, true, false, false, true, false)), (String ((Ascii (true, true,
    false, false, true, false, true, false)), (String ((Ascii (true, false,
    false, false, false, false, true, false)), (String ((Ascii (true, true,
    false, false, false, false, true, false)), (String ((Ascii (false, false,
    true, false, true, false, true, false)), (String ((Ascii (true, false,
    false, true, false, false, true, false)), (String ((Ascii (true, true,
    true, true, false, false, true, false)), (String ((Ascii (false, true,
    true, true, false, false, true, false)),
    EmptyString)))))))))))))))))))))) :: ((String ((Ascii (false, false,
    true, false, true, false, true, false)), (String ((Ascii (false, true,
    false, false, true, false, true, false)), (String ((Ascii (true, false,
    false, true, false, false, true, false)), (String ((Ascii (true, true,
    true, false, false, false, true, false)), (String ((Ascii (true, true,
    true, false, false, false, true, false)), (String ((Ascii (true, false,
    true, false, false, false, true, false)), (String ((Ascii (false, true,
    false, false, true, false, true, false)),
    EmptyString)))))))))))))) :: ((String ((Ascii (false, false, true, false,
    true, false, true, false)), (String ((Ascii (false, true, false, false,
    true, false, true, false)), (String ((Ascii (true, false, true, false,
    true, false, true, false)), (String ((Ascii (true, false, true, false,
    false, false, true, false)), EmptyString)))))))) :: ((String ((Ascii
    (true, false, true, false, true, false, true, false)), (String ((Ascii
    (false, true, true, true, false, false, true, false)), (String ((Ascii
    (false, true, false, false, false, false, true, false)), (String ((Ascii
    (true, true, true, true, false, false, true, false)), (String ((Ascii
    (true, false, true, false, true, false, true, false)), (String ((Ascii
    (false, true, true, true, false, false, true, false)), (String ((Ascii
    (false, false, true, false, false, false, true, false)), (String ((Ascii
    (true, false, true, false, false, false, true, false)), (String ((Ascii
    (false, false, true, false, false, false, true, false)),
    EmptyString)))))))))))))))))) :: ((String ((Ascii (true, false, true,
    false, true, false, true, false)), (String ((Ascii (false, true, true,
    true, false, false, true, false)), (String ((Ascii (true, false, false,
    true, false, false, true, false)), (String ((Ascii (true, true, true,
    true, false, false, true, false)), (String ((Ascii (false, true, true,
    true, false, false, true, false)), EmptyString)))))))))) :: ((String
    ((Ascii (true, false, true, false, true, false, true, false)), (String
    ((Ascii (false, true, true, true, false, false, true, false)), (String
    ((Ascii (true, false, false, true, false, false, true, false)), (String
    ((Ascii (true, false, false, false, true, false, true, false)), (String
    ((Ascii (true, false, true, false, true, false, true, false)), (String
    ((Ascii (true, false, true, false, false, false, true, false)),
    EmptyString)))))))))))) :: ((String ((Ascii (true, false, true, false,
    true, false, true, false)), (String ((Ascii (false, false, false, false,
    true, false, true, false)), (String ((Ascii (false, false, true, false,
    false, false, true, false)), (String ((Ascii (true, false, false, false,
    false, false, true, false)), (String ((Ascii (false, false, true, false,
    true, false, true, false)), (String ((Ascii (true, false, true, false,
    false, false, true, false)), EmptyString)))))))))))) :: ((String ((Ascii
    (true, false, true, false, true, false, true, false)), (String ((Ascii
    (true, true, false, false, true, false, true, false)), (String ((Ascii
    (true, false, false, true, false, false, true, false)), (String ((Ascii
    (false, true, true, true, false, false, true, false)), (String ((Ascii
    (true, true, true, false, false, false, true, false)),
    EmptyString)))))))))) :: ((String ((Ascii (false, true, true, false,
    true, false, true, false)), (String ((Ascii (true, false, false, false,
    false, false, true, false)), (String ((Ascii (true, true, false, false,
    false, false, true, false)), (String ((Ascii (true, false, true, false,
    true, false, true, false)), (String ((Ascii (true, false, true, false,
    true, false, true, false)), (String ((Ascii (true, false, true, true,
    false, false, true, false)), EmptyString)))))))))))) :: ((String ((Ascii
    (false, true, true, false, true, false, true, false)), (String ((Ascii
    (true, false, false, false, false, false, true, false)), (String ((Ascii
    (false, false, true, true, false, false, true, false)), (String ((Ascii
    (true, false, true, false, true, false, true, false)), (String ((Ascii
    (true, false, true, false, false, false, true, false)), (String ((Ascii
    (true, true, false, false, true, false, true, false)),
    EmptyString)))))))))))) :: ((String ((Ascii (false, true, true, false,
    true, false, true, false)), (String ((Ascii (true, false, false, true,
    false, false, true, false)), (String ((Ascii (true, false, true, false,
    false, false, true, false)), (String ((Ascii (true, true, true, false,
    true, false, true, false)), EmptyString)))))))) :: ((String ((Ascii
    (false, true, true, false, true, false, true, false)), (String ((Ascii
    (true, false, false, true, false, false, true, false)), (String ((Ascii
    (false, true, false, false, true, false, true, false)), (String ((Ascii
    (false, false, true, false, true, false, true, false)), (String ((Ascii
    (true, false, true, false, true, false, true, false)), (String ((Ascii
    (true, false, false, false, false, false, true, false)), (String ((Ascii
    (false, false, true, true, false, false, true, false)),
    EmptyString)))))))))))))) :: ((String ((Ascii (true, true, true, false,
    true, false, true, false)), (String ((Ascii (false, false, false, true,
    false, false, true, false)), (String ((Ascii (true, false, true, false,
    false, false, true, false)), (String ((Ascii (false, true, true, true,
    false, false, true, false)), EmptyString)))))))) :: ((String ((Ascii
    (true, true, true, false, true, false, true, false)), (String ((Ascii
    (false, false, false, true, false, false, true, false)), (String ((Ascii
    (true, false, true, false, false, false, true, false)), (String ((Ascii
    (false, true, false, false, true, false, true, false)), (String ((Ascii
    (true, false, true, false, false, false, true, false)),
    EmptyString)))))))))) :: ((String ((Ascii (true, true, true, false, true,
    false, true, false)), (String ((Ascii (true, false, false, true, false,
    false, true, false)), (String ((Ascii (false, true, true, true, false,
    false, true, false)), (String ((Ascii (false, false, true, false, false,
    false, true, false)), (String ((Ascii (true, true, true, true, false,
    false, true, false)), (String ((Ascii (true, true, true, false, true,
    false, true, false)), EmptyString)))))))))))) :: ((String ((Ascii (true,
    true, true, false, true, false, true, false)), (String ((Ascii (true,
    false, false, true, false, false, true, false)), (String ((Ascii (false,
    false, true, false, true, false, true, false)), (String ((Ascii (false,
    false, false, true, false, false, true, false)),
    EmptyString)))))))) :: ((String ((Ascii (true, true, true, false, true,
    false, true, false)), (String ((Ascii (true, false, false, true, false,
    false, true, false)), (String ((Ascii (false, false, true, false, true,
    false, true, false)), (String ((Ascii (false, false, false, true, false,
    false, true, false)), (String ((Ascii (true, true, true, true, false,
    false, true, false)), (String ((Ascii (true, false, true, false, true,
    false, true, false)), (String ((Ascii (false, false, true, false, true,
    false, true, false)),
    EmptyString)))))))))))))) :: []))))))))))))))))))))))))))))))))))))))))))))))))))))))))))))))))))))))))))))))))))))))))))))))))))))))))))))))))))))))))))))))))))))))))))))))))))))

(** val is_keyword : string -> bool **)

let is_keyword s =
  existsb (eqb1 (str_upper s)) sql_keywords

(** val plain_ident : string -> bool **)

let plain_ident s =
  (&&) (ident_shape s) (negb (is_keyword s))

(** val rowid_aliases : string list **)

let rowid_aliases =
  (String ((Ascii (false, true, false, false, true, false, true, false)),
    (String ((Ascii (true, true, true, true, false, false, true, false)),
    (String ((Ascii (true, true, true, false, true, false, true, false)),
    (String ((Ascii (true, false, false, true, false, false, true, false)),
    (String ((Ascii (false, false, true, false, false, false, true, false)),
    EmptyString)))))))))) :: ((String ((Ascii (true, true, true, true, false,
    false, true, false)), (String ((Ascii (true, false, false, true, false,
    false, true, false)), (String ((Ascii (false, false, true, false, false,
    false, true, false)), EmptyString)))))) :: ((String ((Ascii (true, true,
    true, true, true, false, true, false)), (String ((Ascii (false, true,
    false, false, true, false, true, false)), (String ((Ascii (true, true,
    true, true, false, false, true, false)), (String ((Ascii (true, true,
    true, false, true, false, true, false)), (String ((Ascii (true, false,
    false, true, false, false, true, false)), (String ((Ascii (false, false,
    true, false, false, false, true, false)), (String ((Ascii (true, true,
    true, true, true, false, true, false)), EmptyString)))))))))))))) :: []))

(** val is_rowid_alias : string -> bool **)

let is_rowid_alias s =
  existsb (eqb1 (str_upper s)) rowid_aliases

type table0 = { tcols : (string * string) list; trows : row list }

type db = { tables : (string * table0) list; nmodel : nat }

type pyv =
| PV of val0
| PL of pyv list

(** val find_ci : string -> (string * string) list -> nat -> nat option **)

let rec find_ci name cols i =
  match cols with
  | [] -> None
  | p :: t ->
    let (c, _) = p in if ci_eqb name c then Some i else find_ci name t (S i)

(** val find_table : string -> (string * table0) list -> table0 option **)

let rec find_table name = function
| [] -> None
| p :: r ->
  let (n0, t) = p in if ci_eqb name n0 then Some t else find_table name r

(** val set_table :
    string -> table0 -> (string * table0) list -> (string * table0) list **)

let rec set_table name t' = function
| [] -> []
| p :: r ->
  let (n0, t) = p in
  if ci_eqb name n0 then (n0, t') :: r else (n0, t) :: (set_table name t' r)

type cref =
| CRowid
| CCol of nat

(** val cell : z -> row -> cref -> val0 **)

let cell rid r = function
| CRowid -> VInt rid
| CCol i -> nth i r VNull

(** val col_aff : table0 -> cref -> aff **)

let col_aff t = function
| CRowid -> AInt
| CCol i -> affinity_of_decl (snd (nth i t.tcols (EmptyString, EmptyString)))

type scond = (cref * bool) * val0 list

(** val row_ok : scond list -> z -> row -> bool **)

let row_ok cs rid r =
  forallb (fun c ->
    let (p, vs) = c in let (cr, neg) = p in cond_true neg (cell rid r cr) vs)
    cs

(** val select_from : z -> row list -> cref list -> scond list -> row list **)

let rec select_from rid rows sel cs =
  match rows with
  | [] -> []
  | r :: t ->
    app (if row_ok cs rid r then (map (cell rid r) sel) :: [] else [])
      (select_from (Z.add rid (Zpos XH)) t sel cs)

(** val sql_select : table0 -> cref list -> scond list -> row list **)

let sql_select t sel cs =
  select_from (Zpos XH) t.trows sel cs

(** val special_literals : string list **)

let special_literals =
  (String ((Ascii (false, true, true, true, false, false, true, false)),
    (String ((Ascii (true, false, true, false, true, false, true, false)),
    (String ((Ascii (false, false, true, true, false, false, true, false)),
    (String ((Ascii (false, false, true, true, false, false, true, false)),
    EmptyString)))))))) :: ((String ((Ascii (false, false, true, false, true,
    false, true, false)), (String ((Ascii (false, true, false, false, true,
    false, true, false)), (String ((Ascii (true, false, true, false, true,
    false, true, false)), (String ((Ascii (true, false, true, false, false,
    false, true, false)), EmptyString)))))))) :: ((String ((Ascii (false,
    true, true, false, false, false, true, false)), (String ((Ascii (true,
    false, false, false, false, false, true, false)), (String ((Ascii (false,
    false, true, true, false, false, true, false)), (String ((Ascii (true,
    true, false, false, true, false, true, false)), (String ((Ascii (true,
    false, true, false, false, false, true, false)),
    EmptyString)))))))))) :: ((String ((Ascii (true, true, false, false,
    false, false, true, false)), (String ((Ascii (true, false, true, false,
    true, false, true, false)), (String ((Ascii (false, true, false, false,
    true, false, true, false)), (String ((Ascii (false, true, false, false,
    true, false, true, false)), (String ((Ascii (true, false, true, false,
    false, false, true, false)), (String ((Ascii (false, true, true, true,
    false, false, true, false)), (String ((Ascii (false, false, true, false,
    true, false, true, false)), (String ((Ascii (true, true, true, true,
    true, false, true, false)), (String ((Ascii (false, false, true, false,
    false, false, true, false)), (String ((Ascii (true, false, false, false,
    false, false, true, false)), (String ((Ascii (false, false, true, false,
    true, false, true, false)), (String ((Ascii (true, false, true, false,
    false, false, true, false)),
    EmptyString)))))))))))))))))))))))) :: ((String ((Ascii (true, true,
    false, false, false, false, true, false)), (String ((Ascii (true, false,
    true, false, true, false, true, false)), (String ((Ascii (false, true,
    false, false, true, false, true, false)), (String ((Ascii (false, true,
    false, false, true, false, true, false)), (String ((Ascii (true, false,
    true, false, false, false, true, false)), (String ((Ascii (false, true,
    true, true, false, false, true, false)), (String ((Ascii (false, false,
    true, false, true, false, true, false)), (String ((Ascii (true, true,
    true, true, true, false, true, false)), (String ((Ascii (false, false,
    true, false, true, false, true, false)), (String ((Ascii (true, false,
    false, true, false, false, true, false)), (String ((Ascii (true, false,
    true, true, false, false, true, false)), (String ((Ascii (true, false,
    true, false, false, false, true, false)),
    EmptyString)))))))))))))))))))))))) :: ((String ((Ascii (true, true,
    false, false, false, false, true, false)), (String ((Ascii (true, false,
    true, false, true, false, true, false)), (String ((Ascii (false, true,
    false, false, true, false, true, false)), (String ((Ascii (false, true,
    false, false, true, false, true, false)), (String ((Ascii (true, false,
    true, false, false, false, true, false)), (String ((Ascii (false, true,
    true, true, false, false, true, false)), (String ((Ascii (false, false,
    true, false, true, false, true, false)), (String ((Ascii (true, true,
    true, true, true, false, true, false)), (String ((Ascii (false, false,
    true, false, true, false, true, false)), (String ((Ascii (true, false,
    false, true, false, false, true, false)), (String ((Ascii (true, false,
    true, true, false, false, true, false)), (String ((Ascii (true, false,
    true, false, false, false, true, false)), (String ((Ascii (true, true,
    false, false, true, false, true, false)), (String ((Ascii (false, false,
    true, false, true, false, true, false)), (String ((Ascii (true, false,
    false, false, false, false, true, false)), (String ((Ascii (true, false,
    true, true, false, false, true, false)), (String ((Ascii (false, false,
    false, false, true, false, true, false)),
    EmptyString)))))))))))))))))))))))))))))))))) :: [])))))

(** val resolve_name : table0 -> string -> cref option res **)

let resolve_name t k =
  if negb (ident_shape k)
  then out_of_model
  else (match find_ci k t.tcols O with
        | Some i -> Ok (Some (CCol i))
        | None ->
          if is_rowid_alias k
          then Ok (Some CRowid)
          else if existsb (eqb1 (str_upper k)) special_literals
               then out_of_model
               else Ok None)

(** val split_comma_aux : string -> string -> string list **)

let rec split_comma_aux cur = function
| EmptyString -> (rev_str EmptyString cur) :: []
| String (c, t) ->
  if eqb0 c (Ascii (false, false, true, true, false, true, false, false))
  then (rev_str EmptyString cur) :: (split_comma_aux EmptyString t)
  else split_comma_aux (String (c, cur)) t

(** val split_comma : string -> string list **)

let split_comma s =
  split_comma_aux EmptyString s

(** val mem_str : string -> string list -> bool **)

let mem_str x l =
  existsb (eqb1 x) l

(** val index_of0 : string -> string list -> nat -> nat option **)

let rec index_of0 x l i =
  match l with
  | [] -> None
  | y :: t -> if eqb1 x y then Some i else index_of0 x t (S i)

(** val has_key : string -> conds -> bool **)

let rec has_key k = function
| [] -> false
| p :: t -> let (k', _) = p in (||) (eqb1 k' k) (has_key k t)

(** val dict_set : string -> cval -> conds -> conds **)

let rec dict_set k v0 = function
| [] -> (k, v0) :: []
| p :: t ->
  let (k', v') = p in
  if eqb1 k' k then (k, v0) :: t else (k', v') :: (dict_set k v0 t)

(** val key_of0 : string -> bool * string **)

let key_of0 k0 =
  if prefix (String ((Ascii (false, true, true, true, false, true, true,
       false)), (String ((Ascii (true, true, true, true, false, true, true,
       false)), (String ((Ascii (true, true, true, true, true, false, true,
       false)), EmptyString)))))) k0
  then (true, (substring (S (S (S O))) (length0 k0) k0))
  else (false, k0)

(** val chunks_aux : nat -> nat -> pv list -> pv list list **)

let rec chunks_aux fuel n0 l =
  match fuel with
  | O -> []
  | S f ->
    (match l with
     | [] -> []
     | _ :: _ -> (firstn n0 l) :: (chunks_aux f n0 (skipn n0 l)))

(** val chunks : nat -> pv list -> pv list list **)

let chunks n0 l =
  chunks_aux (length l) n0 l

(** val set_nth : nat -> 'a1 -> 'a1 list -> 'a1 list **)

let rec set_nth i x = function
| [] -> []
| y :: t -> (match i with
             | O -> x :: t
             | S j -> y :: (set_nth j x t))

(** val nodup_str : string list -> bool **)

let rec nodup_str = function
| [] -> true
| x :: t -> (&&) (negb (existsb (ci_eqb x) t)) (nodup_str t)

(** val max_sql_values : z **)

let max_sql_values =
  max_sql_values_src

(** val sql_limit : z **)

let sql_limit =
  sql_limit_src

(** val valid_colnames : db -> string list res **)

let valid_colnames d =
  match d.tables with
  | [] -> out_of_model
  | p :: _ ->
    let (_, t) = p in
    Ok ((String ((Ascii (false, true, false, false, true, true, true,
    false)), (String ((Ascii (true, true, true, true, false, true, true,
    false)), (String ((Ascii (true, true, true, false, true, true, true,
    false)), (String ((Ascii (true, false, false, true, false, false, true,
    false)), (String ((Ascii (false, false, true, false, false, false, true,
    false)), EmptyString)))))))))) :: (map fst t.tcols))

(** val check_columns_get : string list -> string -> unit res **)

let check_columns_get valid columns0 =
  if eqb1 columns0 (String ((Ascii (false, true, false, true, false, true,
       false, false)), EmptyString))
  then Ok ()
  else if forallb (fun i -> mem_str (strip i) valid) (split_comma columns0)
       then Ok ()
       else Err (String ((Ascii (false, true, true, false, true, false, true,
              false)), (String ((Ascii (true, false, false, false, false,
              true, true, false)), (String ((Ascii (false, false, true, true,
              false, true, true, false)), (String ((Ascii (true, false, true,
              false, true, true, true, false)), (String ((Ascii (true, false,
              true, false, false, true, true, false)), (String ((Ascii (true,
              false, true, false, false, false, true, false)), (String
              ((Ascii (false, true, false, false, true, true, true, false)),
              (String ((Ascii (false, true, false, false, true, true, true,
              false)), (String ((Ascii (true, true, true, true, false, true,
              true, false)), (String ((Ascii (false, true, false, false,
              true, true, true, false)), EmptyString))))))))))))))))))))

(** val sel_list : table0 -> string -> cref list res **)

let sel_list t columns0 =
  if eqb1 columns0 (String ((Ascii (false, true, false, true, false, true,
       false, false)), EmptyString))
  then Ok (map (fun x -> CCol x) (seq O (length t.tcols)))
  else mapM (fun p ->
         bind (resolve_name t (strip p)) (fun oc ->
           match oc with
           | Some c -> Ok c
           | None ->
             Err (String ((Ascii (true, true, false, false, true, true, true,
               false)), (String ((Ascii (true, false, false, false, true,
               true, true, false)), (String ((Ascii (false, false, true,
               true, false, true, true, false)), (String ((Ascii (true,
               false, false, true, false, true, true, false)), (String
               ((Ascii (false, false, true, false, true, true, true, false)),
               (String ((Ascii (true, false, true, false, false, true, true,
               false)), (String ((Ascii (true, true, false, false, true,
               true, false, false)), (String ((Ascii (false, true, true,
               true, false, true, false, false)), (String ((Ascii (true,
               false, true, false, false, false, true, false)), (String
               ((Ascii (false, true, false, false, true, true, true, false)),
               (String ((Ascii (false, true, false, false, true, true, true,
               false)), (String ((Ascii (true, true, true, true, false, true,
               true, false)), (String ((Ascii (false, true, false, false,
               true, true, true, false)),
               EmptyString)))))))))))))))))))))))))))) (split_comma columns0)

(** val check_keys : table0 option -> conds -> unit res **)

let rec check_keys ot = function
| [] -> Ok ()
| p :: rest ->
  let (k0, _) = p in
  let (_, k) = key_of0 k0 in
  (match ot with
   | Some t ->
     bind (resolve_name t k) (fun oc ->
       match oc with
       | Some _ -> check_keys ot rest
       | None ->
         Err (String ((Ascii (false, true, true, false, true, false, true,
           false)), (String ((Ascii (true, false, false, false, false, true,
           true, false)), (String ((Ascii (false, false, true, true, false,
           true, true, false)), (String ((Ascii (true, false, true, false,
           true, true, true, false)), (String ((Ascii (true, false, true,
           false, false, true, true, false)), (String ((Ascii (true, false,
           true, false, false, false, true, false)), (String ((Ascii (false,
           true, false, false, true, true, true, false)), (String ((Ascii
           (false, true, false, false, true, true, true, false)), (String
           ((Ascii (true, true, true, true, false, true, true, false)),
           (String ((Ascii (false, true, false, false, true, true, true,
           false)), EmptyString)))))))))))))))))))))
   | None ->
     Err (String ((Ascii (false, true, true, false, true, false, true,
       false)), (String ((Ascii (true, false, false, false, false, true,
       true, false)), (String ((Ascii (false, false, true, true, false, true,
       true, false)), (String ((Ascii (true, false, true, false, true, true,
       true, false)), (String ((Ascii (true, false, true, false, false, true,
       true, false)), (String ((Ascii (true, false, true, false, false,
       false, true, false)), (String ((Ascii (false, true, false, false,
       true, true, true, false)), (String ((Ascii (false, true, false, false,
       true, true, true, false)), (String ((Ascii (true, true, true, true,
       false, true, true, false)), (String ((Ascii (false, true, false,
       false, true, true, true, false)), EmptyString)))))))))))))))))))))

(** val rowid_shift : pv -> pv res **)

let rowid_shift = function
| PInt z0 -> Ok (PInt (Z.add z0 (Zpos XH)))
| PFloat _ -> out_of_model
| _ ->
  Err (String ((Ascii (false, false, true, false, true, false, true, false)),
    (String ((Ascii (true, false, false, true, true, true, true, false)),
    (String ((Ascii (false, false, false, false, true, true, true, false)),
    (String ((Ascii (true, false, true, false, false, true, true, false)),
    (String ((Ascii (true, false, true, false, false, false, true, false)),
    (String ((Ascii (false, true, false, false, true, true, true, false)),
    (String ((Ascii (false, true, false, false, true, true, true, false)),
    (String ((Ascii (true, true, true, true, false, true, true, false)),
    (String ((Ascii (false, true, false, false, true, true, true, false)),
    EmptyString))))))))))))))))))

type loop_res =
| LErr of string
| LChunk of string * pv list list
| LDone of ((string * bool) * pv list) list

(** val cond_loop : conds -> ((string * bool) * pv list) list -> loop_res **)

let rec cond_loop kw acc =
  match kw with
  | [] -> LDone (rev acc)
  | p :: rest ->
    let (k0, v0) = p in
    let (neg, k) = key_of0 k0 in
    (match v0 with
     | CScalar x ->
       if eqb1 k (String ((Ascii (false, true, false, false, true, true,
            true, false)), (String ((Ascii (true, true, true, true, false,
            true, true, false)), (String ((Ascii (true, true, true, false,
            true, true, true, false)), (String ((Ascii (true, false, false,
            true, false, false, true, false)), (String ((Ascii (false, false,
            true, false, false, false, true, false)), EmptyString))))))))))
       then (match rowid_shift x with
             | Ok x' -> cond_loop rest (((k, neg), (x' :: [])) :: acc)
             | Err e -> LErr e)
       else cond_loop rest (((k, neg), (x :: [])) :: acc)
     | CList l ->
       if Z.ltb max_sql_values (Z.of_nat (length l))
       then LChunk (k, (chunks (Z.to_nat max_sql_values) l))
       else if eqb1 k (String ((Ascii (false, true, false, false, true, true,
                 true, false)), (String ((Ascii (true, true, true, true,
                 false, true, true, false)), (String ((Ascii (true, true,
                 true, false, true, true, true, false)), (String ((Ascii
                 (true, false, false, true, false, false, true, false)),
                 (String ((Ascii (false, false, true, false, false, false,
                 true, false)), EmptyString))))))))))
            then (match mapM rowid_shift l with
                  | Ok l' -> cond_loop rest (((k, neg), l') :: acc)
                  | Err e -> LErr e)
            else cond_loop rest (((k, neg), l) :: acc))

(** val total_vals : ((string * bool) * pv list) list -> z **)

let total_vals cs =
  fold_right (fun c n0 -> Z.add (Z.of_nat (length (snd c))) n0) Z0 cs

(** val limit_error : conds -> string **)

let rec limit_error = function
| [] ->
  String ((Ascii (false, true, true, false, true, false, true, false)),
    (String ((Ascii (true, false, false, false, false, true, true, false)),
    (String ((Ascii (false, false, true, true, false, true, true, false)),
    (String ((Ascii (true, false, true, false, true, true, true, false)),
    (String ((Ascii (true, false, true, false, false, true, true, false)),
    (String ((Ascii (true, false, true, false, false, false, true, false)),
    (String ((Ascii (false, true, false, false, true, true, true, false)),
    (String ((Ascii (false, true, false, false, true, true, true, false)),
    (String ((Ascii (true, true, true, true, false, true, true, false)),
    (String ((Ascii (false, true, false, false, true, true, true, false)),
    EmptyString)))))))))))))))))))
| p :: t ->
  let (_, c) = p in
  (match c with
   | CScalar v0 ->
     (match v0 with
      | PStr _ -> limit_error t
      | _ ->
        String ((Ascii (false, false, true, false, true, false, true,
          false)), (String ((Ascii (true, false, false, true, true, true,
          true, false)), (String ((Ascii (false, false, false, false, true,
          true, true, false)), (String ((Ascii (true, false, true, false,
          false, true, true, false)), (String ((Ascii (true, false, true,
          false, false, false, true, false)), (String ((Ascii (false, true,
          false, false, true, true, true, false)), (String ((Ascii (false,
          true, false, false, true, true, true, false)), (String ((Ascii
          (true, true, true, true, false, true, true, false)), (String
          ((Ascii (false, true, false, false, true, true, true, false)),
          EmptyString))))))))))))))))))
   | CList _ -> limit_error t)

(** val norm_cond : table0 -> ((string * bool) * pv list) -> scond res **)

let norm_cond t = function
| (p, vs) ->
  let (k, neg) = p in
  bind (resolve_name t k) (fun oc ->
    match oc with
    | Some cr ->
      bind (mapM (cmp_operand (col_aff t cr)) vs) (fun vs' -> Ok ((cr, neg),
        vs'))
    | None ->
      Err (String ((Ascii (true, true, false, false, true, true, true,
        false)), (String ((Ascii (true, false, false, false, true, true,
        true, false)), (String ((Ascii (false, false, true, true, false,
        true, true, false)), (String ((Ascii (true, false, false, true,
        false, true, true, false)), (String ((Ascii (false, false, true,
        false, true, true, true, false)), (String ((Ascii (true, false, true,
        false, false, true, true, false)), (String ((Ascii (true, true,
        false, false, true, true, false, false)), (String ((Ascii (false,
        true, true, true, false, true, false, false)), (String ((Ascii (true,
        false, true, false, false, false, true, false)), (String ((Ascii
        (false, true, false, false, true, true, true, false)), (String
        ((Ascii (false, true, false, false, true, true, true, false)),
        (String ((Ascii (true, true, true, true, false, true, true, false)),
        (String ((Ascii (false, true, false, false, true, true, true,
        false)), EmptyString)))))))))))))))))))))))))))

(** val dec_at : nat -> row -> row **)

let rec dec_at i = function
| [] -> []
| v0 :: t ->
  (match i with
   | O -> (match v0 with
           | VInt z0 -> VInt (Z.sub z0 (Zpos XH))
           | _ -> v0) :: t
   | S j -> v0 :: (dec_at j t))

(** val post : string -> row list -> pyv list res **)

let post columns0 data = match data with
| [] -> Ok []
| r0 :: _ ->
  bind
    (if is_substring (String ((Ascii (false, true, false, false, true, true,
          true, false)), (String ((Ascii (true, true, true, true, false,
          true, true, false)), (String ((Ascii (true, true, true, false,
          true, true, true, false)), (String ((Ascii (true, false, false,
          true, false, false, true, false)), (String ((Ascii (false, false,
          true, false, false, false, true, false)), EmptyString))))))))))
          columns0
     then (match index_of0 (String ((Ascii (false, true, false, false, true,
                   true, true, false)), (String ((Ascii (true, true, true,
                   true, false, true, true, false)), (String ((Ascii (true,
                   true, true, false, true, true, true, false)), (String
                   ((Ascii (true, false, false, true, false, false, true,
                   false)), (String ((Ascii (false, false, true, false,
                   false, false, true, false)), EmptyString))))))))))
                   (map strip (split_comma columns0)) O with
           | Some i -> Ok (map (dec_at i) data)
           | None ->
             Err (String ((Ascii (false, true, true, false, true, false,
               true, false)), (String ((Ascii (true, false, false, false,
               false, true, true, false)), (String ((Ascii (false, false,
               true, true, false, true, true, false)), (String ((Ascii (true,
               false, true, false, true, true, true, false)), (String ((Ascii
               (true, false, true, false, false, true, true, false)), (String
               ((Ascii (true, false, true, false, false, false, true,
               false)), (String ((Ascii (false, true, false, false, true,
               true, true, false)), (String ((Ascii (false, true, false,
               false, true, true, true, false)), (String ((Ascii (true, true,
               true, true, false, true, true, false)), (String ((Ascii
               (false, true, false, false, true, true, true, false)),
               EmptyString)))))))))))))))))))))
     else Ok data) (fun data1 -> Ok
    (if Nat.eqb (length r0) (S O)
     then map (fun r -> PV (hd VNull r)) data1
     else map (fun r -> PL (map (fun x -> PV x) r)) data1))

(** val table_name_ok : string -> bool **)

let table_name_ok =
  plain_ident

(** val get_model : nat -> db -> string -> string -> conds -> pyv list res **)

let rec get_model fuel d columns0 tablename kw =
  match fuel with
  | O ->
    Err (String ((Ascii (false, true, false, false, true, false, true,
      false)), (String ((Ascii (true, false, true, false, false, true, true,
      false)), (String ((Ascii (true, true, false, false, false, true, true,
      false)), (String ((Ascii (true, false, true, false, true, true, true,
      false)), (String ((Ascii (false, true, false, false, true, true, true,
      false)), (String ((Ascii (true, true, false, false, true, true, true,
      false)), (String ((Ascii (true, false, false, true, false, true, true,
      false)), (String ((Ascii (true, true, true, true, false, true, true,
      false)), (String ((Ascii (false, true, true, true, false, true, true,
      false)), (String ((Ascii (true, false, true, false, false, false, true,
      false)), (String ((Ascii (false, true, false, false, true, true, true,
      false)), (String ((Ascii (false, true, false, false, true, true, true,
      false)), (String ((Ascii (true, true, true, true, false, true, true,
      false)), (String ((Ascii (false, true, false, false, true, true, true,
      false)), EmptyString))))))))))))))))))))))))))))
  | S f ->
    if negb (table_name_ok tablename)
    then out_of_model
    else bind (valid_colnames d) (fun valid ->
           bind (check_columns_get valid columns0) (fun _ ->
             if (&&)
                  (negb
                    (has_key (String ((Ascii (true, false, true, true, false,
                      true, true, false)), (String ((Ascii (true, true, true,
                      true, false, true, true, false)), (String ((Ascii
                      (false, false, true, false, false, true, true, false)),
                      (String ((Ascii (true, false, true, false, false, true,
                      true, false)), (String ((Ascii (false, false, true,
                      true, false, true, true, false)), EmptyString))))))))))
                      kw)) (Nat.ltb O d.nmodel)
             then bind
                    (mapM (fun i ->
                      bind
                        (get_model f d columns0 tablename
                          (dict_set (String ((Ascii (true, false, true, true,
                            false, true, true, false)), (String ((Ascii
                            (true, true, true, true, false, true, true,
                            false)), (String ((Ascii (false, false, true,
                            false, false, true, true, false)), (String
                            ((Ascii (true, false, true, false, false, true,
                            true, false)), (String ((Ascii (false, false,
                            true, true, false, true, true, false)),
                            EmptyString)))))))))) (CScalar (PInt
                            (Z.of_nat i))) kw)) (fun o -> Ok (PL o)))
                      (seq O d.nmodel)) (fun l -> Ok l)
             else let ot = find_table tablename d.tables in
                  (match kw with
                   | [] ->
                     (match ot with
                      | Some t ->
                        bind (sel_list t columns0) (fun sel ->
                          post columns0 (sql_select t sel []))
                      | None ->
                        Err (String ((Ascii (true, true, false, false, true,
                          true, true, false)), (String ((Ascii (true, false,
                          false, false, true, true, true, false)), (String
                          ((Ascii (false, false, true, true, false, true,
                          true, false)), (String ((Ascii (true, false, false,
                          true, false, true, true, false)), (String ((Ascii
                          (false, false, true, false, true, true, true,
                          false)), (String ((Ascii (true, false, true, false,
                          false, true, true, false)), (String ((Ascii (true,
                          true, false, false, true, true, false, false)),
                          (String ((Ascii (false, true, true, true, false,
                          true, false, false)), (String ((Ascii (true, false,
                          true, false, false, false, true, false)), (String
                          ((Ascii (false, true, false, false, true, true,
                          true, false)), (String ((Ascii (false, true, false,
                          false, true, true, true, false)), (String ((Ascii
                          (true, true, true, true, false, true, true,
                          false)), (String ((Ascii (false, true, false,
                          false, true, true, true, false)),
                          EmptyString)))))))))))))))))))))))))))
                   | _ :: _ ->
                     bind (check_keys ot kw) (fun _ ->
                       match ot with
                       | Some t ->
                         (match cond_loop kw [] with
                          | LErr e -> Err e
                          | LChunk (k, cs) ->
                            bind
                              (mapM (fun c ->
                                get_model f d columns0 tablename
                                  (dict_set k (CList c) kw)) cs)
                              (fun parts -> Ok (concat parts))
                          | LDone cs ->
                            if Z.ltb sql_limit (total_vals cs)
                            then Err (limit_error kw)
                            else bind (mapM (norm_cond t) cs) (fun scs ->
                                   bind (sel_list t columns0) (fun sel ->
                                     post columns0 (sql_select t sel scs))))
                       | None ->
                         Err (String ((Ascii (false, true, true, false, true,
                           false, true, false)), (String ((Ascii (true,
                           false, false, false, false, true, true, false)),
                           (String ((Ascii (false, false, true, true, false,
                           true, true, false)), (String ((Ascii (true, false,
                           true, false, true, true, true, false)), (String
                           ((Ascii (true, false, true, false, false, true,
                           true, false)), (String ((Ascii (true, false, true,
                           false, false, false, true, false)), (String
                           ((Ascii (false, true, false, false, true, true,
                           true, false)), (String ((Ascii (false, true,
                           false, false, true, true, true, false)), (String
                           ((Ascii (true, true, true, true, false, true,
                           true, false)), (String ((Ascii (false, true,
                           false, false, true, true, true, false)),
                           EmptyString))))))))))))))))))))))))

(** val get_fuel : conds -> nat **)

let get_fuel kw =
  add (length kw) (S (S (S O)))

(** val get_top : db -> string -> string -> conds -> pyv list res **)

let get_top d columns0 tablename kw =
  get_model (get_fuel kw) d columns0 tablename kw

(** val store_cells : table0 -> nat list -> pv list -> row -> row res **)

let rec store_cells t cis vals r =
  match cis with
  | [] -> Ok r
  | ci :: cis' ->
    (match vals with
     | [] -> Ok r
     | v0 :: vals' ->
       bind (store_val (col_aff t (CCol ci)) v0) (fun x ->
         store_cells t cis' vals' (set_nth ci x r)))

(** val rid_index : z -> nat option **)

let rid_index rid =
  if Z.ltb Z0 rid then Some (Z.to_nat (Z.sub rid (Zpos XH))) else None

(** val exec_many :
    table0 -> nat list -> (pv list * z) list -> table0 * string option **)

let rec exec_many t cis = function
| [] -> (t, None)
| p :: rest ->
  let (vals, rid) = p in
  if negb (Nat.eqb (length vals) (length cis))
  then (t, (Some (String ((Ascii (true, true, false, false, true, true, true,
         false)), (String ((Ascii (true, false, false, false, true, true,
         true, false)), (String ((Ascii (false, false, true, true, false,
         true, true, false)), (String ((Ascii (true, false, false, true,
         false, true, true, false)), (String ((Ascii (false, false, true,
         false, true, true, true, false)), (String ((Ascii (true, false,
         true, false, false, true, true, false)), (String ((Ascii (true,
         true, false, false, true, true, false, false)), (String ((Ascii
         (false, true, true, true, false, true, false, false)), (String
         ((Ascii (true, false, true, false, false, false, true, false)),
         (String ((Ascii (false, true, false, false, true, true, true,
         false)), (String ((Ascii (false, true, false, false, true, true,
         true, false)), (String ((Ascii (true, true, true, true, false, true,
         true, false)), (String ((Ascii (false, true, false, false, true,
         true, true, false)), EmptyString))))))))))))))))))))))))))))
  else (match rid_index rid with
        | Some i ->
          (match nth_error t.trows i with
           | Some r ->
             (match store_cells t cis vals r with
              | Ok r' ->
                exec_many { tcols = t.tcols; trows = (set_nth i r' t.trows) }
                  cis rest
              | Err e -> (t, (Some e)))
           | None -> exec_many t cis rest)
        | None -> exec_many t cis rest)

(** val set_list : table0 -> string list -> nat list res **)

let set_list t cols =
  if negb (nodup_str cols)
  then out_of_model
  else mapM (fun c ->
         if eqb1 c (String ((Ascii (false, true, false, true, false, true,
              false, false)), EmptyString))
         then Err (String ((Ascii (true, true, false, false, true, true,
                true, false)), (String ((Ascii (true, false, false, false,
                true, true, true, false)), (String ((Ascii (false, false,
                true, true, false, true, true, false)), (String ((Ascii
                (true, false, false, true, false, true, true, false)),
                (String ((Ascii (false, false, true, false, true, true, true,
                false)), (String ((Ascii (true, false, true, false, false,
                true, true, false)), (String ((Ascii (true, true, false,
                false, true, true, false, false)), (String ((Ascii (false,
                true, true, true, false, true, false, false)), (String
                ((Ascii (true, false, true, false, false, false, true,
                false)), (String ((Ascii (false, true, false, false, true,
                true, true, false)), (String ((Ascii (false, true, false,
                false, true, true, true, false)), (String ((Ascii (true,
                true, true, true, false, true, true, false)), (String ((Ascii
                (false, true, false, false, true, true, true, false)),
                EmptyString))))))))))))))))))))))))))
         else bind (resolve_name t c) (fun oc ->
                match oc with
                | Some c0 ->
                  (match c0 with
                   | CRowid -> out_of_model
                   | CCol i -> Ok i)
                | None ->
                  Err (String ((Ascii (true, true, false, false, true, true,
                    true, false)), (String ((Ascii (true, false, false,
                    false, true, true, true, false)), (String ((Ascii (false,
                    false, true, true, false, true, true, false)), (String
                    ((Ascii (true, false, false, true, false, true, true,
                    false)), (String ((Ascii (false, false, true, false,
                    true, true, true, false)), (String ((Ascii (true, false,
                    true, false, false, true, true, false)), (String ((Ascii
                    (true, true, false, false, true, true, false, false)),
                    (String ((Ascii (false, true, true, true, false, true,
                    false, false)), (String ((Ascii (true, false, true,
                    false, false, false, true, false)), (String ((Ascii
                    (false, true, false, false, true, true, true, false)),
                    (String ((Ascii (false, true, false, false, true, true,
                    true, false)), (String ((Ascii (true, true, true, true,
                    false, true, true, false)), (String ((Ascii (false, true,
                    false, false, true, true, true, false)),
                    EmptyString)))))))))))))))))))))))))))) cols

type uval =
| URow of pv list
| UStr of string
| UScalar of pv

(** val chars_of : string -> pv list **)

let rec chars_of = function
| EmptyString -> []
| String (c, t) -> (PStr (String (c, EmptyString))) :: (chars_of t)

(** val uval_len : uval -> nat res **)

let uval_len = function
| URow l -> Ok (length l)
| UStr s -> Ok (length0 s)
| UScalar _ ->
  Err (String ((Ascii (false, false, true, false, true, false, true, false)),
    (String ((Ascii (true, false, false, true, true, true, true, false)),
    (String ((Ascii (false, false, false, false, true, true, true, false)),
    (String ((Ascii (true, false, true, false, false, true, true, false)),
    (String ((Ascii (true, false, true, false, false, false, true, false)),
    (String ((Ascii (false, true, false, false, true, true, true, false)),
    (String ((Ascii (false, true, false, false, true, true, true, false)),
    (String ((Ascii (true, true, true, true, false, true, true, false)),
    (String ((Ascii (false, true, false, false, true, true, true, false)),
    EmptyString))))))))))))))))))

(** val uval_items : uval -> pv list res **)

let uval_items = function
| URow l -> Ok l
| UStr s -> Ok (chars_of s)
| UScalar _ ->
  Err (String ((Ascii (false, false, true, false, true, false, true, false)),
    (String ((Ascii (true, false, false, true, true, true, true, false)),
    (String ((Ascii (false, false, false, false, true, true, true, false)),
    (String ((Ascii (true, false, true, false, false, true, true, false)),
    (String ((Ascii (true, false, true, false, false, false, true, false)),
    (String ((Ascii (false, true, false, false, true, true, true, false)),
    (String ((Ascii (false, true, false, false, true, true, true, false)),
    (String ((Ascii (true, true, true, true, false, true, true, false)),
    (String ((Ascii (false, true, false, false, true, true, true, false)),
    EmptyString))))))))))))))))))

type ures = db * string option

(** val int_of_val : pyv -> z res **)

let int_of_val = function
| PV v1 -> (match v1 with
            | VInt z0 -> Ok z0
            | _ -> out_of_model)
| PL _ -> out_of_model

(** val update_model :
    nat -> db -> string -> uval list -> string -> conds -> ures **)

let rec update_model fuel d columns0 values tablename kw =
  match fuel with
  | O ->
    (d, (Some (String ((Ascii (false, true, false, false, true, false, true,
      false)), (String ((Ascii (true, false, true, false, false, true, true,
      false)), (String ((Ascii (true, true, false, false, false, true, true,
      false)), (String ((Ascii (true, false, true, false, true, true, true,
      false)), (String ((Ascii (false, true, false, false, true, true, true,
      false)), (String ((Ascii (true, true, false, false, true, true, true,
      false)), (String ((Ascii (true, false, false, true, false, true, true,
      false)), (String ((Ascii (true, true, true, true, false, true, true,
      false)), (String ((Ascii (false, true, true, true, false, true, true,
      false)), (String ((Ascii (true, false, true, false, false, false, true,
      false)), (String ((Ascii (false, true, false, false, true, true, true,
      false)), (String ((Ascii (false, true, false, false, true, true, true,
      false)), (String ((Ascii (true, true, true, true, false, true, true,
      false)), (String ((Ascii (false, true, false, false, true, true, true,
      false)), EmptyString))))))))))))))))))))))))))))))
  | S f ->
    if negb (table_name_ok tablename)
    then (d, (Some (String ((Ascii (true, true, true, true, false, false,
           true, false)), (String ((Ascii (true, false, true, false, true,
           true, true, false)), (String ((Ascii (false, false, true, false,
           true, true, true, false)), (String ((Ascii (true, true, true,
           true, false, false, true, false)), (String ((Ascii (false, true,
           true, false, false, true, true, false)), (String ((Ascii (true,
           false, true, true, false, false, true, false)), (String ((Ascii
           (true, true, true, true, false, true, true, false)), (String
           ((Ascii (false, false, true, false, false, true, true, false)),
           (String ((Ascii (true, false, true, false, false, true, true,
           false)), (String ((Ascii (false, false, true, true, false, true,
           true, false)), EmptyString))))))))))))))))))))))
    else (match valid_colnames d with
          | Ok valid ->
            if (&&)
                 (negb
                   (eqb1 columns0 (String ((Ascii (false, true, false, true,
                     false, true, false, false)), EmptyString))))
                 (negb
                   (forallb (fun i -> mem_str i valid) (split_comma columns0)))
            then (d, (Some (String ((Ascii (false, true, true, false, true,
                   false, true, false)), (String ((Ascii (true, false, false,
                   false, false, true, true, false)), (String ((Ascii (false,
                   false, true, true, false, true, true, false)), (String
                   ((Ascii (true, false, true, false, true, true, true,
                   false)), (String ((Ascii (true, false, true, false, false,
                   true, true, false)), (String ((Ascii (true, false, true,
                   false, false, false, true, false)), (String ((Ascii
                   (false, true, false, false, true, true, true, false)),
                   (String ((Ascii (false, true, false, false, true, true,
                   true, false)), (String ((Ascii (true, true, true, true,
                   false, true, true, false)), (String ((Ascii (false, true,
                   false, false, true, true, true, false)),
                   EmptyString))))))))))))))))))))))
            else if (&&)
                      (negb
                        (has_key (String ((Ascii (true, false, true, true,
                          false, true, true, false)), (String ((Ascii (true,
                          true, true, true, false, true, true, false)),
                          (String ((Ascii (false, false, true, false, false,
                          true, true, false)), (String ((Ascii (true, false,
                          true, false, false, true, true, false)), (String
                          ((Ascii (false, false, true, true, false, true,
                          true, false)), EmptyString)))))))))) kw))
                      (Nat.ltb O d.nmodel)
                 then fold_left (fun st i ->
                        let (d1, o) = st in
                        (match o with
                         | Some e -> (d1, (Some e))
                         | None ->
                           update_model f d1 columns0 values tablename
                             (dict_set (String ((Ascii (true, false, true,
                               true, false, true, true, false)), (String
                               ((Ascii (true, true, true, true, false, true,
                               true, false)), (String ((Ascii (false, false,
                               true, false, false, true, true, false)),
                               (String ((Ascii (true, false, true, false,
                               false, true, true, false)), (String ((Ascii
                               (false, false, true, true, false, true, true,
                               false)), EmptyString)))))))))) (CScalar (PInt
                               (Z.of_nat i))) kw))) (seq O d.nmodel) (d, None)
                 else let cols =
                        if has_char (Ascii (false, false, true, true, false,
                             true, false, false)) columns0
                        then split_comma columns0
                        else columns0 :: []
                      in
                      (match values with
                       | [] ->
                         (d, (Some (String ((Ascii (true, false, false, true,
                           false, false, true, false)), (String ((Ascii
                           (false, true, true, true, false, true, true,
                           false)), (String ((Ascii (false, false, true,
                           false, false, true, true, false)), (String ((Ascii
                           (true, false, true, false, false, true, true,
                           false)), (String ((Ascii (false, false, false,
                           true, true, true, true, false)), (String ((Ascii
                           (true, false, true, false, false, false, true,
                           false)), (String ((Ascii (false, true, false,
                           false, true, true, true, false)), (String ((Ascii
                           (false, true, false, false, true, true, true,
                           false)), (String ((Ascii (true, true, true, true,
                           false, true, true, false)), (String ((Ascii
                           (false, true, false, false, true, true, true,
                           false)), EmptyString))))))))))))))))))))))
                       | v0 :: _ ->
                         (match uval_len v0 with
                          | Ok ncol ->
                            if negb (Nat.eqb (length cols) ncol)
                            then (d, (Some (String ((Ascii (false, true,
                                   true, false, true, false, true, false)),
                                   (String ((Ascii (true, false, false,
                                   false, false, true, true, false)), (String
                                   ((Ascii (false, false, true, true, false,
                                   true, true, false)), (String ((Ascii
                                   (true, false, true, false, true, true,
                                   true, false)), (String ((Ascii (true,
                                   false, true, false, false, true, true,
                                   false)), (String ((Ascii (true, false,
                                   true, false, false, false, true, false)),
                                   (String ((Ascii (false, true, false,
                                   false, true, true, true, false)), (String
                                   ((Ascii (false, true, false, false, true,
                                   true, true, false)), (String ((Ascii
                                   (true, true, true, true, false, true,
                                   true, false)), (String ((Ascii (false,
                                   true, false, false, true, true, true,
                                   false)), EmptyString))))))))))))))))))))))
                            else (match get_model (get_fuel kw) d (String
                                          ((Ascii (false, true, false, false,
                                          true, true, true, false)), (String
                                          ((Ascii (true, true, true, true,
                                          false, true, true, false)), (String
                                          ((Ascii (true, true, true, false,
                                          true, true, true, false)), (String
                                          ((Ascii (true, false, false, true,
                                          false, false, true, false)),
                                          (String ((Ascii (false, false,
                                          true, false, false, false, true,
                                          false)), EmptyString))))))))))
                                          tablename kw with
                                  | Ok rowID ->
                                    if negb
                                         (Nat.eqb (length rowID)
                                           (length values))
                                    then (d, (Some (String ((Ascii (false,
                                           true, true, false, true, false,
                                           true, false)), (String ((Ascii
                                           (true, false, false, false, false,
                                           true, true, false)), (String
                                           ((Ascii (false, false, true, true,
                                           false, true, true, false)),
                                           (String ((Ascii (true, false,
                                           true, false, true, true, true,
                                           false)), (String ((Ascii (true,
                                           false, true, false, false, true,
                                           true, false)), (String ((Ascii
                                           (true, false, true, false, false,
                                           false, true, false)), (String
                                           ((Ascii (false, true, false,
                                           false, true, true, true, false)),
                                           (String ((Ascii (false, true,
                                           false, false, true, true, true,
                                           false)), (String ((Ascii (true,
                                           true, true, true, false, true,
                                           true, false)), (String ((Ascii
                                           (false, true, false, false, true,
                                           true, true, false)),
                                           EmptyString))))))))))))))))))))))
                                    else (match mapM uval_items values with
                                          | Ok items ->
                                            (match mapM int_of_val rowID with
                                             | Ok rids ->
                                               (match find_table tablename
                                                        d.tables with
                                                | Some t ->
                                                  (match set_list t cols with
                                                   | Ok cis ->
                                                     let (t', e) =
                                                       exec_many t cis
                                                         (combine items
                                                           (map (fun z0 ->
                                                             Z.add z0 (Zpos
                                                               XH)) rids))
                                                     in
                                                     ({ tables =
                                                     (set_table tablename t'
                                                       d.tables); nmodel =
                                                     d.nmodel }, e)
                                                   | Err e -> (d, (Some e)))
                                                | None ->
                                                  (d, (Some (String ((Ascii
                                                    (true, true, false,
                                                    false, true, true, true,
                                                    false)), (String ((Ascii
                                                    (true, false, false,
                                                    false, true, true, true,
                                                    false)), (String ((Ascii
                                                    (false, false, true,
                                                    true, false, true, true,
                                                    false)), (String ((Ascii
                                                    (true, false, false,
                                                    true, false, true, true,
                                                    false)), (String ((Ascii
                                                    (false, false, true,
                                                    false, true, true, true,
                                                    false)), (String ((Ascii
                                                    (true, false, true,
                                                    false, false, true, true,
                                                    false)), (String ((Ascii
                                                    (true, true, false,
                                                    false, true, true, false,
                                                    false)), (String ((Ascii
                                                    (false, true, true, true,
                                                    false, true, false,
                                                    false)), (String ((Ascii
                                                    (true, false, true,
                                                    false, false, false,
                                                    true, false)), (String
                                                    ((Ascii (false, true,
                                                    false, false, true, true,
                                                    true, false)), (String
                                                    ((Ascii (false, true,
                                                    false, false, true, true,
                                                    true, false)), (String
                                                    ((Ascii (true, true,
                                                    true, true, false, true,
                                                    true, false)), (String
                                                    ((Ascii (false, true,
                                                    false, false, true, true,
                                                    true, false)),
                                                    EmptyString)))))))))))))))))))))))))))))
                                             | Err e -> (d, (Some e)))
                                          | Err e -> (d, (Some e)))
                                  | Err e -> (d, (Some e)))
                          | Err e -> (d, (Some e))))
          | Err e -> (d, (Some e)))

(** val update_top : db -> string -> uval list -> string -> conds -> ures **)

let update_top d columns0 values tablename kw =
  update_model (S (S O)) d columns0 values tablename kw

(** val update_xyz_top : db -> uval list -> string -> conds -> ures **)

let update_xyz_top d xyz tablename kw =
  update_top d (String ((Ascii (false, false, false, true, true, true, true,
    false)), (String ((Ascii (false, false, true, true, false, true, false,
    false)), (String ((Ascii (true, false, false, true, true, true, true,
    false)), (String ((Ascii (false, false, true, true, false, true, false,
    false)), (String ((Ascii (false, true, false, true, true, true, true,
    false)), EmptyString)))))))))) xyz tablename kw

(** val index_val : pv -> z res **)

let index_val = function
| PInt z0 -> Ok (Z.add z0 (Zpos XH))
| _ -> out_of_model

(** val zip_idx : pv list -> pv list -> (pv list * z) list res **)

let rec zip_idx values index =
  match values with
  | [] -> Ok []
  | v0 :: vs ->
    (match index with
     | [] -> Ok []
     | i :: is_ ->
       bind (index_val i) (fun z0 ->
         bind (zip_idx vs is_) (fun r -> Ok (((v0 :: []), z0) :: r))))

(** val enum_idx : pv list -> z -> (pv list * z) list **)

let rec enum_idx values i =
  match values with
  | [] -> []
  | v0 :: vs ->
    ((v0 :: []), (Z.add i (Zpos XH))) :: (enum_idx vs (Z.add i (Zpos XH)))

(** val update_column_model :
    db -> string -> pv list -> pv list option -> string -> ures **)

let update_column_model d colname values index tablename =
  if negb (table_name_ok tablename)
  then (d, (Some (String ((Ascii (true, true, true, true, false, false, true,
         false)), (String ((Ascii (true, false, true, false, true, true,
         true, false)), (String ((Ascii (false, false, true, false, true,
         true, true, false)), (String ((Ascii (true, true, true, true, false,
         false, true, false)), (String ((Ascii (false, true, true, false,
         false, true, true, false)), (String ((Ascii (true, false, true,
         true, false, false, true, false)), (String ((Ascii (true, true,
         true, true, false, true, true, false)), (String ((Ascii (false,
         false, true, false, false, true, true, false)), (String ((Ascii
         (true, false, true, false, false, true, true, false)), (String
         ((Ascii (false, false, true, true, false, true, true, false)),
         EmptyString))))))))))))))))))))))
  else (match match index with
              | Some ix -> zip_idx values ix
              | None -> Ok (enum_idx values Z0) with
        | Ok data ->
          (match find_table tablename d.tables with
           | Some t ->
             (match set_list t (colname :: []) with
              | Ok cis ->
                let (t', e) = exec_many t cis data in
                ({ tables = (set_table tablename t' d.tables); nmodel =
                d.nmodel }, e)
              | Err e -> (d, (Some e)))
           | None ->
             (d, (Some (String ((Ascii (true, true, false, false, true, true,
               true, false)), (String ((Ascii (true, false, false, false,
               true, true, true, false)), (String ((Ascii (false, false,
               true, true, false, true, true, false)), (String ((Ascii (true,
               false, false, true, false, true, true, false)), (String
               ((Ascii (false, false, true, false, true, true, true, false)),
               (String ((Ascii (true, false, true, false, false, true, true,
               false)), (String ((Ascii (true, true, false, false, true,
               true, false, false)), (String ((Ascii (false, true, true,
               true, false, true, false, false)), (String ((Ascii (true,
               false, true, false, false, false, true, false)), (String
               ((Ascii (false, true, false, false, true, true, true, false)),
               (String ((Ascii (false, true, false, false, true, true, true,
               false)), (String ((Ascii (true, true, true, true, false, true,
               true, false)), (String ((Ascii (false, true, false, false,
               true, true, true, false)),
               EmptyString)))))))))))))))))))))))))))))
        | Err e -> (d, (Some e)))

(** val default_literal : pv -> pv res **)

let default_literal = function
| PStr s ->
  if plain_ident s
  then Ok (PStr s)
  else if (&&) ((&&) (str_nonempty s) (all_digits s))
            (Nat.leb (length0 s) (S (S (S (S (S (S (S (S (S (S (S (S (S (S (S
              O))))))))))))))))
       then Ok (PInt (digits_val Z0 s))
       else out_of_model
| PNone ->
  Ok (PStr (String ((Ascii (false, true, true, true, false, false, true,
    false)), (String ((Ascii (true, true, true, true, false, true, true,
    false)), (String ((Ascii (false, true, true, true, false, true, true,
    false)), (String ((Ascii (true, false, true, false, false, true, true,
    false)), EmptyString)))))))))
| x -> Ok x

(** val add_column_model : db -> string -> string -> pv -> string -> ures **)

let add_column_model d colname coltype value tablename =
  if negb
       ((&&)
         ((&&) ((&&) (table_name_ok tablename) (plain_ident colname))
           (negb (is_rowid_alias colname)))
         ((||) (eqb1 coltype EmptyString) (plain_ident coltype)))
  then (d, (Some (String ((Ascii (true, true, true, true, false, false, true,
         false)), (String ((Ascii (true, false, true, false, true, true,
         true, false)), (String ((Ascii (false, false, true, false, true,
         true, true, false)), (String ((Ascii (true, true, true, true, false,
         false, true, false)), (String ((Ascii (false, true, true, false,
         false, true, true, false)), (String ((Ascii (true, false, true,
         true, false, false, true, false)), (String ((Ascii (true, true,
         true, true, false, true, true, false)), (String ((Ascii (false,
         false, true, false, false, true, true, false)), (String ((Ascii
         (true, false, true, false, false, true, true, false)), (String
         ((Ascii (false, false, true, true, false, true, true, false)),
         EmptyString))))))))))))))))))))))
  else (match find_table tablename d.tables with
        | Some t ->
          (match find_ci colname t.tcols O with
           | Some _ ->
             (d, (Some (String ((Ascii (true, true, false, false, true, true,
               true, false)), (String ((Ascii (true, false, false, false,
               true, true, true, false)), (String ((Ascii (false, false,
               true, true, false, true, true, false)), (String ((Ascii (true,
               false, false, true, false, true, true, false)), (String
               ((Ascii (false, false, true, false, true, true, true, false)),
               (String ((Ascii (true, false, true, false, false, true, true,
               false)), (String ((Ascii (true, true, false, false, true,
               true, false, false)), (String ((Ascii (false, true, true,
               true, false, true, false, false)), (String ((Ascii (true,
               false, true, false, false, false, true, false)), (String
               ((Ascii (false, true, false, false, true, true, true, false)),
               (String ((Ascii (false, true, false, false, true, true, true,
               false)), (String ((Ascii (true, true, true, true, false, true,
               true, false)), (String ((Ascii (false, true, false, false,
               true, true, true, false)),
               EmptyString))))))))))))))))))))))))))))
           | None ->
             (match bind (default_literal value) (fun lit ->
                      default_store (affinity_of_decl coltype) lit) with
              | Ok x ->
                let t' = { tcols = (app t.tcols ((colname, coltype) :: []));
                  trows = (map (fun r -> app r (x :: [])) t.trows) }
                in
                ({ tables = (set_table tablename t' d.tables); nmodel =
                d.nmodel }, None)
              | Err e -> (d, (Some e))))
        | None ->
          (d, (Some (String ((Ascii (true, true, false, false, true, true,
            true, false)), (String ((Ascii (true, false, false, false, true,
            true, true, false)), (String ((Ascii (false, false, true, true,
            false, true, true, false)), (String ((Ascii (true, false, false,
            true, false, true, true, false)), (String ((Ascii (false, false,
            true, false, true, true, true, false)), (String ((Ascii (true,
            false, true, false, false, true, true, false)), (String ((Ascii
            (true, true, false, false, true, true, false, false)), (String
            ((Ascii (false, true, true, true, false, true, false, false)),
            (String ((Ascii (true, false, true, false, false, false, true,
            false)), (String ((Ascii (false, true, false, false, true, true,
            true, false)), (String ((Ascii (false, true, false, false, true,
            true, true, false)), (String ((Ascii (true, true, true, true,
            false, true, true, false)), (String ((Ascii (false, true, false,
            false, true, true, true, false)),
            EmptyString)))))))))))))))))))))))))))))

(** val str_leb : string -> string -> bool **)

let rec str_leb a0 b =
  match a0 with
  | EmptyString -> true
  | String (x, s) ->
    (match b with
     | EmptyString -> false
     | String (y, t) ->
       if Nat.ltb (nat_of_ascii x) (nat_of_ascii y)
       then true
       else if Nat.ltb (nat_of_ascii y) (nat_of_ascii x)
            then false
            else str_leb s t)

(** val text_of0 : pyv -> string res **)

let text_of0 = function
| PV v1 -> (match v1 with
            | VText s -> Ok s
            | _ -> out_of_model)
| PL _ -> out_of_model

(** val sorted_set : string list -> string list **)

let sorted_set l =
  sort_by str_leb (dedup_keep_first eqb1 l)

(** val upper_letters : string list **)

let upper_letters =
  (String ((Ascii (true, false, false, false, false, false, true, false)),
    EmptyString)) :: ((String ((Ascii (false, true, false, false, false,
    false, true, false)), EmptyString)) :: ((String ((Ascii (true, true,
    false, false, false, false, true, false)), EmptyString)) :: ((String
    ((Ascii (false, false, true, false, false, false, true, false)),
    EmptyString)) :: ((String ((Ascii (true, false, true, false, false,
    false, true, false)), EmptyString)) :: ((String ((Ascii (false, true,
    true, false, false, false, true, false)), EmptyString)) :: ((String
    ((Ascii (true, true, true, false, false, false, true, false)),
    EmptyString)) :: ((String ((Ascii (false, false, false, true, false,
    false, true, false)), EmptyString)) :: ((String ((Ascii (true, false,
    false, true, false, false, true, false)), EmptyString)) :: ((String
    ((Ascii (false, true, false, true, false, false, true, false)),
    EmptyString)) :: ((String ((Ascii (true, true, false, true, false, false,
    true, false)), EmptyString)) :: ((String ((Ascii (false, false, true,
    true, false, false, true, false)), EmptyString)) :: ((String ((Ascii
    (true, false, true, true, false, false, true, false)),
    EmptyString)) :: ((String ((Ascii (false, true, true, true, false, false,
    true, false)), EmptyString)) :: ((String ((Ascii (true, true, true, true,
    false, false, true, false)), EmptyString)) :: ((String ((Ascii (false,
    false, false, false, true, false, true, false)),
    EmptyString)) :: ((String ((Ascii (true, false, false, false, true,
    false, true, false)), EmptyString)) :: ((String ((Ascii (false, true,
    false, false, true, false, true, false)), EmptyString)) :: ((String
    ((Ascii (true, true, false, false, true, false, true, false)),
    EmptyString)) :: ((String ((Ascii (false, false, true, false, true,
    false, true, false)), EmptyString)) :: ((String ((Ascii (true, false,
    true, false, true, false, true, false)), EmptyString)) :: ((String
    ((Ascii (false, true, true, false, true, false, true, false)),
    EmptyString)) :: ((String ((Ascii (true, true, true, false, true, false,
    true, false)), EmptyString)) :: ((String ((Ascii (false, false, false,
    true, true, false, true, false)), EmptyString)) :: ((String ((Ascii
    (true, false, false, true, true, false, true, false)),
    EmptyString)) :: ((String ((Ascii (false, true, false, true, true, false,
    true, false)), EmptyString)) :: [])))))))))))))))))))))))))

(** val fix_fill :
    db -> string list -> string list -> pv list -> pv list res **)

let rec fix_fill d chains letters newID =
  match chains with
  | [] -> Ok newID
  | c :: cs ->
    (match letters with
     | [] -> Ok newID
     | l :: ls ->
       bind
         (get_top d (String ((Ascii (false, true, false, false, true, true,
           true, false)), (String ((Ascii (true, true, true, true, false,
           true, true, false)), (String ((Ascii (true, true, true, false,
           true, true, true, false)), (String ((Ascii (true, false, false,
           true, false, false, true, false)), (String ((Ascii (false, false,
           true, false, false, false, true, false)), EmptyString))))))))))
           (String ((Ascii (true, false, false, false, false, false, true,
           false)), (String ((Ascii (false, false, true, false, true, false,
           true, false)), (String ((Ascii (true, true, true, true, false,
           false, true, false)), (String ((Ascii (true, false, true, true,
           false, false, true, false)), EmptyString)))))))) (((String ((Ascii
           (true, true, false, false, false, true, true, false)), (String
           ((Ascii (false, false, false, true, false, true, true, false)),
           (String ((Ascii (true, false, false, false, false, true, true,
           false)), (String ((Ascii (true, false, false, true, false, true,
           true, false)), (String ((Ascii (false, true, true, true, false,
           true, true, false)), (String ((Ascii (true, false, false, true,
           false, false, true, false)), (String ((Ascii (false, false, true,
           false, false, false, true, false)), EmptyString)))))))))))))),
           (CScalar (PStr c))) :: [])) (fun index ->
         bind (mapM int_of_val index) (fun idx ->
           fix_fill d cs ls
             (fold_left (fun acc z0 -> set_nth (Z.to_nat z0) (PStr l) acc)
               idx newID))))

(** val fix_chainID_model : db -> ures **)

let fix_chainID_model d =
  if Nat.ltb O d.nmodel
  then (d, (Some (String ((Ascii (true, true, true, true, false, false, true,
         false)), (String ((Ascii (true, false, true, false, true, true,
         true, false)), (String ((Ascii (false, false, true, false, true,
         true, true, false)), (String ((Ascii (true, true, true, true, false,
         false, true, false)), (String ((Ascii (false, true, true, false,
         false, true, true, false)), (String ((Ascii (true, false, true,
         true, false, false, true, false)), (String ((Ascii (true, true,
         true, true, false, true, true, false)), (String ((Ascii (false,
         false, true, false, false, true, true, false)), (String ((Ascii
         (true, false, true, false, false, true, true, false)), (String
         ((Ascii (false, false, true, true, false, true, true, false)),
         EmptyString))))))))))))))))))))))
  else (match bind
                (get_top d (String ((Ascii (true, true, false, false, false,
                  true, true, false)), (String ((Ascii (false, false, false,
                  true, false, true, true, false)), (String ((Ascii (true,
                  false, false, false, false, true, true, false)), (String
                  ((Ascii (true, false, false, true, false, true, true,
                  false)), (String ((Ascii (false, true, true, true, false,
                  true, true, false)), (String ((Ascii (true, false, false,
                  true, false, false, true, false)), (String ((Ascii (false,
                  false, true, false, false, false, true, false)),
                  EmptyString)))))))))))))) (String ((Ascii (true, false,
                  false, false, false, false, true, false)), (String ((Ascii
                  (false, false, true, false, true, false, true, false)),
                  (String ((Ascii (true, true, true, true, false, false,
                  true, false)), (String ((Ascii (true, false, true, true,
                  false, false, true, false)), EmptyString)))))))) [])
                (fun ch -> mapM text_of0 ch) with
        | Ok chainID ->
          let natom = length chainID in
          let chains = sorted_set chainID in
          if Nat.ltb (S (S (S (S (S (S (S (S (S (S (S (S (S (S (S (S (S (S (S
               (S (S (S (S (S (S (S O))))))))))))))))))))))))))
               (length chains)
          then (d, (Some (String ((Ascii (true, true, false, false, true,
                 false, true, false)), (String ((Ascii (true, false, false,
                 true, true, true, true, false)), (String ((Ascii (true,
                 true, false, false, true, true, true, false)), (String
                 ((Ascii (false, false, true, false, true, true, true,
                 false)), (String ((Ascii (true, false, true, false, false,
                 true, true, false)), (String ((Ascii (true, false, true,
                 true, false, true, true, false)), (String ((Ascii (true,
                 false, true, false, false, false, true, false)), (String
                 ((Ascii (false, false, false, true, true, true, true,
                 false)), (String ((Ascii (true, false, false, true, false,
                 true, true, false)), (String ((Ascii (false, false, true,
                 false, true, true, true, false)),
                 EmptyString))))))))))))))))))))))
          else (match fix_fill d chains upper_letters
                        (repeat (PStr EmptyString) natom) with
                | Ok newID ->
                  update_column_model d (String ((Ascii (true, true, false,
                    false, false, true, true, false)), (String ((Ascii
                    (false, false, false, true, false, true, true, false)),
                    (String ((Ascii (true, false, false, false, false, true,
                    true, false)), (String ((Ascii (true, false, false, true,
                    false, true, true, false)), (String ((Ascii (false, true,
                    true, true, false, true, true, false)), (String ((Ascii
                    (true, false, false, true, false, false, true, false)),
                    (String ((Ascii (false, false, true, false, false, false,
                    true, false)), EmptyString)))))))))))))) newID None
                    (String ((Ascii (true, false, false, false, false, false,
                    true, false)), (String ((Ascii (false, false, true,
                    false, true, false, true, false)), (String ((Ascii (true,
                    true, true, true, false, false, true, false)), (String
                    ((Ascii (true, false, true, true, false, false, true,
                    false)), EmptyString))))))))
                | Err e -> (d, (Some e)))
        | Err e -> (d, (Some e)))

(** val get_xyz_model : db -> string -> conds -> pyv list res **)

let get_xyz_model d tablename kw =
  get_top d (String ((Ascii (false, false, false, true, true, true, true,
    false)), (String ((Ascii (false, false, true, true, false, true, false,
    false)), (String ((Ascii (true, false, false, true, true, true, true,
    false)), (String ((Ascii (false, false, true, true, false, true, false,
    false)), (String ((Ascii (false, true, false, true, true, true, true,
    false)), EmptyString)))))))))) tablename kw

(** val val_py_eqb : val0 -> val0 -> bool **)

let val_py_eqb a0 b =
  match a0 with
  | VNull -> (match b with
              | VNull -> true
              | _ -> val_sql_eq a0 b)
  | _ -> val_sql_eq a0 b

(** val pyv_eqb_row : val0 list -> val0 list -> bool **)

let rec pyv_eqb_row a0 b =
  match a0 with
  | [] -> (match b with
           | [] -> true
           | _ :: _ -> false)
  | x :: s ->
    (match b with
     | [] -> false
     | y :: t -> (&&) (val_py_eqb x y) (pyv_eqb_row s t))

(** val row_of : pyv -> val0 list res **)

let row_of = function
| PV _ -> out_of_model
| PL l -> mapM (fun x -> match x with
                         | PV y -> Ok y
                         | PL _ -> out_of_model) l

(** val get_residues_model : db -> string -> conds -> val0 list list res **)

let get_residues_model d tablename kw =
  if Nat.ltb O d.nmodel
  then out_of_model
  else bind
         (get_top d (String ((Ascii (true, true, false, false, false, true,
           true, false)), (String ((Ascii (false, false, false, true, false,
           true, true, false)), (String ((Ascii (true, false, false, false,
           false, true, true, false)), (String ((Ascii (true, false, false,
           true, false, true, true, false)), (String ((Ascii (false, true,
           true, true, false, true, true, false)), (String ((Ascii (true,
           false, false, true, false, false, true, false)), (String ((Ascii
           (false, false, true, false, false, false, true, false)), (String
           ((Ascii (false, false, true, true, false, true, false, false)),
           (String ((Ascii (false, true, false, false, true, true, true,
           false)), (String ((Ascii (true, false, true, false, false, true,
           true, false)), (String ((Ascii (true, true, false, false, true,
           true, true, false)), (String ((Ascii (false, true, true, true,
           false, false, true, false)), (String ((Ascii (true, false, false,
           false, false, true, true, false)), (String ((Ascii (true, false,
           true, true, false, true, true, false)), (String ((Ascii (true,
           false, true, false, false, true, true, false)), (String ((Ascii
           (false, false, true, true, false, true, false, false)), (String
           ((Ascii (false, true, false, false, true, true, true, false)),
           (String ((Ascii (true, false, true, false, false, true, true,
           false)), (String ((Ascii (true, true, false, false, true, true,
           true, false)), (String ((Ascii (true, true, false, false, true,
           false, true, false)), (String ((Ascii (true, false, true, false,
           false, true, true, false)), (String ((Ascii (true, false, false,
           false, true, true, true, false)),
           EmptyString)))))))))))))))))))))))))))))))))))))))))))) tablename
           kw) (fun res0 ->
         bind (mapM row_of res0) (fun rows -> Ok
           (dedup_keep_first pyv_eqb_row rows)))

(** val get_chains_model : db -> string -> conds -> string list res **)

let get_chains_model d tablename kw =
  if Nat.ltb O d.nmodel
  then out_of_model
  else bind
         (get_top d (String ((Ascii (true, true, false, false, false, true,
           true, false)), (String ((Ascii (false, false, false, true, false,
           true, true, false)), (String ((Ascii (true, false, false, false,
           false, true, true, false)), (String ((Ascii (true, false, false,
           true, false, true, true, false)), (String ((Ascii (false, true,
           true, true, false, true, true, false)), (String ((Ascii (true,
           false, false, true, false, false, true, false)), (String ((Ascii
           (false, false, true, false, false, false, true, false)),
           EmptyString)))))))))))))) tablename kw) (fun ch ->
         bind (mapM text_of0 ch) (fun names -> Ok (sorted_set names)))

(** val get_all_model : db -> string -> conds -> pyv list res **)

let get_all_model d columns0 kw =
  mapM (fun nt -> bind (get_top d columns0 (fst nt) kw) (fun o -> Ok (PL o)))
    d.tables

type op =
| OpUpdate of string * uval list * string * conds
| OpUpdateColumn of string * pv list * pv list option * string
| OpUpdateXyz of uval list * string * conds
| OpAddColumn of string * string * pv * string
| OpFixChainID

(** val model_step : db -> op -> ures **)

let model_step d = function
| OpUpdate (c, v0, t, kw) -> update_top d c v0 t kw
| OpUpdateColumn (c, v0, ix, t) -> update_column_model d c v0 ix t
| OpUpdateXyz (v0, t, kw) -> update_xyz_top d v0 t kw
| OpAddColumn (c, ty, v0, t) -> add_column_model d c ty v0 t
| OpFixChainID -> fix_chainID_model d

(** val unspecified : 'a1 res **)

let unspecified =
  Err (String ((Ascii (true, false, true, false, true, false, true, false)),
    (String ((Ascii (false, true, true, true, false, true, true, false)),
    (String ((Ascii (true, true, false, false, true, true, true, false)),
    (String ((Ascii (false, false, false, false, true, true, true, false)),
    (String ((Ascii (true, false, true, false, false, true, true, false)),
    (String ((Ascii (true, true, false, false, false, true, true, false)),
    (String ((Ascii (true, false, false, true, false, true, true, false)),
    (String ((Ascii (false, true, true, false, false, true, true, false)),
    (String ((Ascii (true, false, false, true, false, true, true, false)),
    (String ((Ascii (true, false, true, false, false, true, true, false)),
    (String ((Ascii (false, false, true, false, false, true, true, false)),
    EmptyString))))))))))))))))))))))

(** val rejected : 'a1 res **)

let rejected =
  Err (String ((Ascii (false, true, false, false, true, false, true, false)),
    (String ((Ascii (true, false, true, false, false, true, true, false)),
    (String ((Ascii (false, true, false, true, false, true, true, false)),
    (String ((Ascii (true, false, true, false, false, true, true, false)),
    (String ((Ascii (true, true, false, false, false, true, true, false)),
    (String ((Ascii (false, false, true, false, true, true, true, false)),
    (String ((Ascii (true, false, true, false, false, true, true, false)),
    (String ((Ascii (false, false, true, false, false, true, true, false)),
    EmptyString))))))))))))))))

(** val with_positions : 'a1 list -> (nat * 'a1) list **)

let with_positions l =
  combine (seq O (length l)) l

(** val spec_cell : nat -> row -> cref -> val0 **)

let spec_cell pos r = function
| CRowid -> VInt (Z.of_nat pos)
| CCol i -> nth i r VNull

(** val spec_cond_attr : table0 -> string -> cref option **)

let spec_cond_attr t k =
  if ci_eqb k (String ((Ascii (false, true, false, false, true, true, true,
       false)), (String ((Ascii (true, true, true, true, false, true, true,
       false)), (String ((Ascii (true, true, true, false, true, true, true,
       false)), (String ((Ascii (true, false, false, true, false, false,
       true, false)), (String ((Ascii (false, false, true, false, false,
       false, true, false)), EmptyString))))))))))
  then Some CRowid
  else (match find_ci k t.tcols O with
        | Some i -> Some (CCol i)
        | None -> None)

(** val find_exact : string -> (string * string) list -> nat -> nat option **)

let rec find_exact name cols i =
  match cols with
  | [] -> None
  | p :: t ->
    let (c, _) = p in if eqb1 name c then Some i else find_exact name t (S i)

(** val spec_req_attr : table0 -> string -> cref option **)

let spec_req_attr t name =
  if eqb1 name (String ((Ascii (false, true, false, false, true, true, true,
       false)), (String ((Ascii (true, true, true, true, false, true, true,
       false)), (String ((Ascii (true, true, true, false, true, true, true,
       false)), (String ((Ascii (true, false, false, true, false, false,
       true, false)), (String ((Ascii (false, false, true, false, false,
       false, true, false)), EmptyString))))))))))
  then Some CRowid
  else (match find_exact name t.tcols O with
        | Some i -> Some (CCol i)
        | None -> None)

(** val spec_attrs : table0 -> string -> cref list res **)

let spec_attrs t columns0 =
  if eqb1 columns0 (String ((Ascii (false, true, false, true, false, true,
       false, false)), EmptyString))
  then Ok (map (fun x -> CCol x) (seq O (length t.tcols)))
  else mapM (fun p ->
         match spec_req_attr t (strip p) with
         | Some c -> Ok c
         | None -> rejected) (split_comma columns0)

(** val spec_values : cval -> pv list **)

let spec_values = function
| CScalar x -> x :: []
| CList l -> l

(** val is_pint : pv -> bool **)

let is_pint = function
| PInt _ -> true
| _ -> false

(** val rowid_in_model : pv -> bool **)

let rowid_in_model = function
| PInt z0 -> int_in_range (Z.add z0 (Zpos XH))
| _ -> true

(** val spec_cond : table0 -> (string * cval) -> scond res **)

let spec_cond t c =
  let (neg, k) = key_of0 (fst c) in
  (match spec_cond_attr t k with
   | Some cr ->
     let vs = spec_values (snd c) in
     if match cr with
        | CRowid -> negb (forallb is_pint vs)
        | CCol _ -> false
     then unspecified
     else if match cr with
             | CRowid -> negb (forallb rowid_in_model vs)
             | CCol _ -> false
          then out_of_model
          else bind (mapM (cmp_operand (col_aff t cr)) vs) (fun vs' -> Ok
                 ((cr, neg), vs'))
   | None -> rejected)

(** val spec_names_ok : table0 -> conds -> bool **)

let spec_names_ok t kw =
  forallb (fun c ->
    match spec_cond_attr t (snd (key_of0 (fst c))) with
    | Some _ -> true
    | None -> false) kw

(** val spec_holds : nat -> row -> scond -> bool **)

let spec_holds pos r = function
| (p, vs) -> let (cr, neg) = p in cond_true neg (spec_cell pos r cr) vs

(** val spec_matches : scond list -> (nat * row) -> bool **)

let spec_matches cs pr =
  forallb (spec_holds (fst pr) (snd pr)) cs

(** val spec_select : table0 -> scond list -> (nat * row) list **)

let spec_select t cs =
  filter (spec_matches cs) (with_positions t.trows)

(** val spec_project : cref list -> (nat * row) -> val0 list **)

let spec_project sel pr =
  map (spec_cell (fst pr) (snd pr)) sel

(** val spec_shape : cref list -> val0 list list -> pyv list **)

let spec_shape sel rows =
  match sel with
  | [] -> map (fun r -> PL (map (fun x -> PV x) r)) rows
  | _ :: l ->
    (match l with
     | [] -> map (fun r -> PV (hd VNull r)) rows
     | _ :: _ -> map (fun r -> PL (map (fun x -> PV x) r)) rows)

(** val spec_total : conds -> z **)

let spec_total kw =
  fold_right (fun c n0 ->
    Z.add
      (Z.min (Z.of_nat (length (spec_values (snd c)))) max_sql_values_src) n0)
    Z0 kw

(** val spec_conds : db -> string -> conds -> (table0 * scond list) res **)

let spec_conds d tablename kw =
  if negb (table_name_ok tablename)
  then out_of_model
  else (match find_table tablename d.tables with
        | Some t ->
          if negb (spec_names_ok t kw)
          then rejected
          else if Nat.ltb O d.nmodel
               then unspecified
               else bind (mapM (spec_cond t) kw) (fun cs -> Ok (t, cs))
        | None -> rejected)

(** val spec_get : db -> string -> string -> conds -> pyv list res **)

let spec_get d columns0 tablename kw =
  if negb (table_name_ok tablename)
  then out_of_model
  else (match find_table tablename d.tables with
        | Some t ->
          bind (spec_attrs t columns0) (fun sel ->
            bind (spec_conds d tablename kw) (fun tc ->
              if Z.ltb sql_limit_src (spec_total kw)
              then Err (String ((Ascii (false, true, true, false, true,
                     false, true, false)), (String ((Ascii (true, false,
                     false, false, false, true, true, false)), (String
                     ((Ascii (false, false, true, true, false, true, true,
                     false)), (String ((Ascii (true, false, true, false,
                     true, true, true, false)), (String ((Ascii (true, false,
                     true, false, false, true, true, false)), (String ((Ascii
                     (true, false, true, false, false, false, true, false)),
                     (String ((Ascii (false, true, false, false, true, true,
                     true, false)), (String ((Ascii (false, true, false,
                     false, true, true, true, false)), (String ((Ascii (true,
                     true, true, true, false, true, true, false)), (String
                     ((Ascii (false, true, false, false, true, true, true,
                     false)), EmptyString))))))))))))))))))))
              else Ok
                     (spec_shape sel
                       (map (spec_project sel) (spec_select t (snd tc))))))
        | None -> rejected)

(** val spec_positions : db -> string -> conds -> nat list res **)

let spec_positions d tablename kw =
  bind (spec_conds d tablename kw) (fun tc ->
    if Z.ltb sql_limit_src (spec_total kw)
    then Err (String ((Ascii (false, true, true, false, true, false, true,
           false)), (String ((Ascii (true, false, false, false, false, true,
           true, false)), (String ((Ascii (false, false, true, true, false,
           true, true, false)), (String ((Ascii (true, false, true, false,
           true, true, true, false)), (String ((Ascii (true, false, true,
           false, false, true, true, false)), (String ((Ascii (true, false,
           true, false, false, false, true, false)), (String ((Ascii (false,
           true, false, false, true, true, true, false)), (String ((Ascii
           (false, true, false, false, true, true, true, false)), (String
           ((Ascii (true, true, true, true, false, true, true, false)),
           (String ((Ascii (false, true, false, false, true, true, true,
           false)), EmptyString))))))))))))))))))))
    else Ok (map fst (spec_select (fst tc) (snd tc))))

(** val spec_get_xyz : db -> string -> conds -> pyv list res **)

let spec_get_xyz d tablename kw =
  spec_get d (String ((Ascii (false, false, false, true, true, true, true,
    false)), (String ((Ascii (false, false, true, true, false, true, false,
    false)), (String ((Ascii (true, false, false, true, true, true, true,
    false)), (String ((Ascii (false, false, true, true, false, true, false,
    false)), (String ((Ascii (false, true, false, true, true, true, true,
    false)), EmptyString)))))))))) tablename kw

(** val spec_get_residues : db -> string -> conds -> val0 list list res **)

let spec_get_residues d tablename kw =
  bind
    (spec_get d (String ((Ascii (true, true, false, false, false, true, true,
      false)), (String ((Ascii (false, false, false, true, false, true, true,
      false)), (String ((Ascii (true, false, false, false, false, true, true,
      false)), (String ((Ascii (true, false, false, true, false, true, true,
      false)), (String ((Ascii (false, true, true, true, false, true, true,
      false)), (String ((Ascii (true, false, false, true, false, false, true,
      false)), (String ((Ascii (false, false, true, false, false, false,
      true, false)), (String ((Ascii (false, false, true, true, false, true,
      false, false)), (String ((Ascii (false, true, false, false, true, true,
      true, false)), (String ((Ascii (true, false, true, false, false, true,
      true, false)), (String ((Ascii (true, true, false, false, true, true,
      true, false)), (String ((Ascii (false, true, true, true, false, false,
      true, false)), (String ((Ascii (true, false, false, false, false, true,
      true, false)), (String ((Ascii (true, false, true, true, false, true,
      true, false)), (String ((Ascii (true, false, true, false, false, true,
      true, false)), (String ((Ascii (false, false, true, true, false, true,
      false, false)), (String ((Ascii (false, true, false, false, true, true,
      true, false)), (String ((Ascii (true, false, true, false, false, true,
      true, false)), (String ((Ascii (true, true, false, false, true, true,
      true, false)), (String ((Ascii (true, true, false, false, true, false,
      true, false)), (String ((Ascii (true, false, true, false, false, true,
      true, false)), (String ((Ascii (true, false, false, false, true, true,
      true, false)), EmptyString))))))))))))))))))))))))))))))))))))))))))))
      tablename kw) (fun res0 ->
    bind (mapM row_of res0) (fun rows -> Ok
      (dedup_keep_first pyv_eqb_row rows)))

(** val spec_get_chains : db -> string -> conds -> string list res **)

let spec_get_chains d tablename kw =
  bind
    (spec_get d (String ((Ascii (true, true, false, false, false, true, true,
      false)), (String ((Ascii (false, false, false, true, false, true, true,
      false)), (String ((Ascii (true, false, false, false, false, true, true,
      false)), (String ((Ascii (true, false, false, true, false, true, true,
      false)), (String ((Ascii (false, true, true, true, false, true, true,
      false)), (String ((Ascii (true, false, false, true, false, false, true,
      false)), (String ((Ascii (false, false, true, false, false, false,
      true, false)), EmptyString)))))))))))))) tablename kw) (fun ch ->
    bind (mapM text_of0 ch) (fun names -> Ok (sorted_set names)))

(** val spec_get_all : db -> string -> conds -> pyv list res **)

let spec_get_all d columns0 kw =
  mapM (fun nt ->
    bind (spec_get d columns0 (fst nt) kw) (fun o -> Ok (PL o))) d.tables

(** val write_cells : nat list -> val0 list -> row -> row **)

let rec write_cells cis xs r =
  match cis with
  | [] -> r
  | ci :: cis' ->
    (match xs with
     | [] -> r
     | x :: xs' -> write_cells cis' xs' (set_nth ci x r))

(** val index_of_nat : nat -> nat list -> nat -> nat option **)

let rec index_of_nat x l i =
  match l with
  | [] -> None
  | y :: t -> if Nat.eqb x y then Some i else index_of_nat x t (S i)

(** val with_table : db -> string -> table0 -> db **)

let with_table d tablename t' =
  { tables = (set_table tablename t' d.tables); nmodel = d.nmodel }

(** val spec_write_cols : table0 -> string list -> nat list res **)

let spec_write_cols t cols =
  if negb (nodup_str cols)
  then out_of_model
  else mapM (fun c ->
         if eqb1 c (String ((Ascii (false, true, false, false, true, true,
              true, false)), (String ((Ascii (true, true, true, true, false,
              true, true, false)), (String ((Ascii (true, true, true, false,
              true, true, true, false)), (String ((Ascii (true, false, false,
              true, false, false, true, false)), (String ((Ascii (false,
              false, true, false, false, false, true, false)),
              EmptyString))))))))))
         then unspecified
         else (match find_exact c t.tcols O with
               | Some i -> Ok i
               | None -> rejected)) cols

(** val uval_row : uval -> pv list option **)

let uval_row = function
| URow l -> Some l
| UStr s -> Some (chars_of s)
| UScalar _ -> None

(** val shape_ok : nat -> nat -> uval list -> bool **)

let shape_ok ncol nsel values =
  (&&) (Nat.eqb (length values) nsel)
    (forallb (fun u ->
      match uval_row u with
      | Some l -> Nat.eqb (length l) ncol
      | None -> false) values)

(** val spec_update : db -> string -> uval list -> string -> conds -> ures **)

let spec_update d columns0 values tablename kw =
  if negb (table_name_ok tablename)
  then (d, (Some (String ((Ascii (true, true, true, true, false, false, true,
         false)), (String ((Ascii (true, false, true, false, true, true,
         true, false)), (String ((Ascii (false, false, true, false, true,
         true, true, false)), (String ((Ascii (true, true, true, true, false,
         false, true, false)), (String ((Ascii (false, true, true, false,
         false, true, true, false)), (String ((Ascii (true, false, true,
         true, false, false, true, false)), (String ((Ascii (true, true,
         true, true, false, true, true, false)), (String ((Ascii (false,
         false, true, false, false, true, true, false)), (String ((Ascii
         (true, false, true, false, false, true, true, false)), (String
         ((Ascii (false, false, true, true, false, true, true, false)),
         EmptyString))))))))))))))))))))))
  else (match values with
        | [] ->
          (d, (Some (String ((Ascii (true, false, true, false, true, false,
            true, false)), (String ((Ascii (false, true, true, true, false,
            true, true, false)), (String ((Ascii (true, true, false, false,
            true, true, true, false)), (String ((Ascii (false, false, false,
            false, true, true, true, false)), (String ((Ascii (true, false,
            true, false, false, true, true, false)), (String ((Ascii (true,
            true, false, false, false, true, true, false)), (String ((Ascii
            (true, false, false, true, false, true, true, false)), (String
            ((Ascii (false, true, true, false, false, true, true, false)),
            (String ((Ascii (true, false, false, true, false, true, true,
            false)), (String ((Ascii (true, false, true, false, false, true,
            true, false)), (String ((Ascii (false, false, true, false, false,
            true, true, false)), EmptyString))))))))))))))))))))))))
        | _ :: _ ->
          (match find_table tablename d.tables with
           | Some t ->
             (match spec_write_cols t (split_comma columns0) with
              | Ok cis ->
                (match spec_positions d tablename kw with
                 | Ok ps ->
                   if negb (shape_ok (length cis) (length ps) values)
                   then (d, (Some (String ((Ascii (true, true, false, false,
                          true, false, true, false)), (String ((Ascii (false,
                          false, false, true, false, true, true, false)),
                          (String ((Ascii (true, false, false, false, false,
                          true, true, false)), (String ((Ascii (false, false,
                          false, false, true, true, true, false)), (String
                          ((Ascii (true, false, true, false, false, true,
                          true, false)), (String ((Ascii (true, false, true,
                          false, false, false, true, false)), (String ((Ascii
                          (false, true, false, false, true, true, true,
                          false)), (String ((Ascii (false, true, false,
                          false, true, true, true, false)), (String ((Ascii
                          (true, true, true, true, false, true, true,
                          false)), (String ((Ascii (false, true, false,
                          false, true, true, true, false)),
                          EmptyString))))))))))))))))))))))
                   else (match mapM (fun u ->
                                 match uval_row u with
                                 | Some l ->
                                   mapM (fun cv ->
                                     store_val (col_aff t (CCol (fst cv)))
                                       (snd cv)) (combine cis l)
                                 | None ->
                                   Err (String ((Ascii (true, true, false,
                                     false, true, false, true, false)),
                                     (String ((Ascii (false, false, false,
                                     true, false, true, true, false)),
                                     (String ((Ascii (true, false, false,
                                     false, false, true, true, false)),
                                     (String ((Ascii (false, false, false,
                                     false, true, true, true, false)),
                                     (String ((Ascii (true, false, true,
                                     false, false, true, true, false)),
                                     (String ((Ascii (true, false, true,
                                     false, false, false, true, false)),
                                     (String ((Ascii (false, true, false,
                                     false, true, true, true, false)),
                                     (String ((Ascii (false, true, false,
                                     false, true, true, true, false)),
                                     (String ((Ascii (true, true, true, true,
                                     false, true, true, false)), (String
                                     ((Ascii (false, true, false, false,
                                     true, true, true, false)),
                                     EmptyString))))))))))))))))))))) values with
                         | Ok xss ->
                           let rows' =
                             map (fun pr ->
                               match index_of_nat (fst pr) ps O with
                               | Some i ->
                                 write_cells cis (nth i xss []) (snd pr)
                               | None -> snd pr) (with_positions t.trows)
                           in
                           ((with_table d tablename { tcols = t.tcols;
                              trows = rows' }), None)
                         | Err e -> (d, (Some e)))
                 | Err e -> (d, (Some e)))
              | Err e -> (d, (Some e)))
           | None ->
             (d, (Some (String ((Ascii (false, true, false, false, true,
               false, true, false)), (String ((Ascii (true, false, true,
               false, false, true, true, false)), (String ((Ascii (false,
               true, false, true, false, true, true, false)), (String ((Ascii
               (true, false, true, false, false, true, true, false)), (String
               ((Ascii (true, true, false, false, false, true, true, false)),
               (String ((Ascii (false, false, true, false, true, true, true,
               false)), (String ((Ascii (true, false, true, false, false,
               true, true, false)), (String ((Ascii (false, false, true,
               false, false, true, true, false)),
               EmptyString))))))))))))))))))))

(** val spec_update_xyz : db -> uval list -> string -> conds -> ures **)

let spec_update_xyz d xyz tablename kw =
  spec_update d (String ((Ascii (false, false, false, true, true, true, true,
    false)), (String ((Ascii (false, false, true, true, false, true, false,
    false)), (String ((Ascii (true, false, false, true, true, true, true,
    false)), (String ((Ascii (false, false, true, true, false, true, false,
    false)), (String ((Ascii (false, true, false, true, true, true, true,
    false)), EmptyString)))))))))) xyz tablename kw

(** val last_for : nat -> (z * val0) list -> val0 option -> val0 option **)

let rec last_for p pairs acc =
  match pairs with
  | [] -> acc
  | p0 :: t ->
    let (z0, x) = p0 in
    last_for p t (if Z.eqb z0 (Z.of_nat p) then Some x else acc)

(** val spec_update_column :
    db -> string -> pv list -> pv list option -> string -> ures **)

let spec_update_column d colname values index tablename =
  if negb (table_name_ok tablename)
  then (d, (Some (String ((Ascii (true, true, true, true, false, false, true,
         false)), (String ((Ascii (true, false, true, false, true, true,
         true, false)), (String ((Ascii (false, false, true, false, true,
         true, true, false)), (String ((Ascii (true, true, true, true, false,
         false, true, false)), (String ((Ascii (false, true, true, false,
         false, true, true, false)), (String ((Ascii (true, false, true,
         true, false, false, true, false)), (String ((Ascii (true, true,
         true, true, false, true, true, false)), (String ((Ascii (false,
         false, true, false, false, true, true, false)), (String ((Ascii
         (true, false, true, false, false, true, true, false)), (String
         ((Ascii (false, false, true, true, false, true, true, false)),
         EmptyString))))))))))))))))))))))
  else (match find_table tablename d.tables with
        | Some t ->
          if negb (ident_shape colname)
          then (d, (Some (String ((Ascii (true, true, true, true, false,
                 false, true, false)), (String ((Ascii (true, false, true,
                 false, true, true, true, false)), (String ((Ascii (false,
                 false, true, false, true, true, true, false)), (String
                 ((Ascii (true, true, true, true, false, false, true,
                 false)), (String ((Ascii (false, true, true, false, false,
                 true, true, false)), (String ((Ascii (true, false, true,
                 true, false, false, true, false)), (String ((Ascii (true,
                 true, true, true, false, true, true, false)), (String
                 ((Ascii (false, false, true, false, false, true, true,
                 false)), (String ((Ascii (true, false, true, false, false,
                 true, true, false)), (String ((Ascii (false, false, true,
                 true, false, true, true, false)),
                 EmptyString))))))))))))))))))))))
          else if is_rowid_alias colname
               then (d, (Some (String ((Ascii (true, false, true, false,
                      true, false, true, false)), (String ((Ascii (false,
                      true, true, true, false, true, true, false)), (String
                      ((Ascii (true, true, false, false, true, true, true,
                      false)), (String ((Ascii (false, false, false, false,
                      true, true, true, false)), (String ((Ascii (true,
                      false, true, false, false, true, true, false)), (String
                      ((Ascii (true, true, false, false, false, true, true,
                      false)), (String ((Ascii (true, false, false, true,
                      false, true, true, false)), (String ((Ascii (false,
                      true, true, false, false, true, true, false)), (String
                      ((Ascii (true, false, false, true, false, true, true,
                      false)), (String ((Ascii (true, false, true, false,
                      false, true, true, false)), (String ((Ascii (false,
                      false, true, false, false, true, true, false)),
                      EmptyString))))))))))))))))))))))))
               else (match find_ci colname t.tcols O with
                     | Some ci ->
                       let idx =
                         match index with
                         | Some ix ->
                           mapM (fun v0 ->
                             match v0 with
                             | PInt z0 -> Ok z0
                             | _ -> unspecified) (firstn (length values) ix)
                         | None -> Ok (seqZ Z0 (length values))
                       in
                       (match idx with
                        | Ok ps ->
                          (match mapM (store_val (col_aff t (CCol ci))) values with
                           | Ok xs ->
                             let pairs = combine ps xs in
                             let rows' =
                               map (fun pr ->
                                 match last_for (fst pr) pairs None with
                                 | Some x -> set_nth ci x (snd pr)
                                 | None -> snd pr) (with_positions t.trows)
                             in
                             ((with_table d tablename { tcols = t.tcols;
                                trows = rows' }), None)
                           | Err e -> (d, (Some e)))
                        | Err e -> (d, (Some e)))
                     | None ->
                       (d, (Some (String ((Ascii (false, true, false, false,
                         true, false, true, false)), (String ((Ascii (true,
                         false, true, false, false, true, true, false)),
                         (String ((Ascii (false, true, false, true, false,
                         true, true, false)), (String ((Ascii (true, false,
                         true, false, false, true, true, false)), (String
                         ((Ascii (true, true, false, false, false, true,
                         true, false)), (String ((Ascii (false, false, true,
                         false, true, true, true, false)), (String ((Ascii
                         (true, false, true, false, false, true, true,
                         false)), (String ((Ascii (false, false, true, false,
                         false, true, true, false)),
                         EmptyString)))))))))))))))))))
        | None ->
          (d, (Some (String ((Ascii (false, true, false, false, true, false,
            true, false)), (String ((Ascii (true, false, true, false, false,
            true, true, false)), (String ((Ascii (false, true, false, true,
            false, true, true, false)), (String ((Ascii (true, false, true,
            false, false, true, true, false)), (String ((Ascii (true, true,
            false, false, false, true, true, false)), (String ((Ascii (false,
            false, true, false, true, true, true, false)), (String ((Ascii
            (true, false, true, false, false, true, true, false)), (String
            ((Ascii (false, false, true, false, false, true, true, false)),
            EmptyString)))))))))))))))))))

(** val spec_add_column : db -> string -> string -> pv -> string -> ures **)

let spec_add_column d colname coltype value tablename =
  if negb
       ((&&)
         ((&&) ((&&) (table_name_ok tablename) (plain_ident colname))
           (negb (is_rowid_alias colname)))
         ((||) (eqb1 coltype EmptyString) (plain_ident coltype)))
  then (d, (Some (String ((Ascii (true, true, true, true, false, false, true,
         false)), (String ((Ascii (true, false, true, false, true, true,
         true, false)), (String ((Ascii (false, false, true, false, true,
         true, true, false)), (String ((Ascii (true, true, true, true, false,
         false, true, false)), (String ((Ascii (false, true, true, false,
         false, true, true, false)), (String ((Ascii (true, false, true,
         true, false, false, true, false)), (String ((Ascii (true, true,
         true, true, false, true, true, false)), (String ((Ascii (false,
         false, true, false, false, true, true, false)), (String ((Ascii
         (true, false, true, false, false, true, true, false)), (String
         ((Ascii (false, false, true, true, false, true, true, false)),
         EmptyString))))))))))))))))))))))
  else (match find_table tablename d.tables with
        | Some t ->
          (match find_ci colname t.tcols O with
           | Some _ ->
             (d, (Some (String ((Ascii (false, true, false, false, true,
               false, true, false)), (String ((Ascii (true, false, true,
               false, false, true, true, false)), (String ((Ascii (false,
               true, false, true, false, true, true, false)), (String ((Ascii
               (true, false, true, false, false, true, true, false)), (String
               ((Ascii (true, true, false, false, false, true, true, false)),
               (String ((Ascii (false, false, true, false, true, true, true,
               false)), (String ((Ascii (true, false, true, false, false,
               true, true, false)), (String ((Ascii (false, false, true,
               false, false, true, true, false)),
               EmptyString))))))))))))))))))
           | None ->
             (match match value with
                    | PStr s ->
                      if plain_ident s
                      then default_store (affinity_of_decl coltype) value
                      else unspecified
                    | PNone -> unspecified
                    | _ -> default_store (affinity_of_decl coltype) value with
              | Ok x ->
                ((with_table d tablename { tcols =
                   (app t.tcols ((colname, coltype) :: [])); trows =
                   (map (fun r -> app r (x :: [])) t.trows) }), None)
              | Err e -> (d, (Some e))))
        | None ->
          (d, (Some (String ((Ascii (false, true, false, false, true, false,
            true, false)), (String ((Ascii (true, false, true, false, false,
            true, true, false)), (String ((Ascii (false, true, false, true,
            false, true, true, false)), (String ((Ascii (true, false, true,
            false, false, true, true, false)), (String ((Ascii (true, true,
            false, false, false, true, true, false)), (String ((Ascii (false,
            false, true, false, true, true, true, false)), (String ((Ascii
            (true, false, true, false, false, true, true, false)), (String
            ((Ascii (false, false, true, false, false, true, true, false)),
            EmptyString)))))))))))))))))))

(** val spec_fix_chainID : db -> ures **)

let spec_fix_chainID d =
  if Nat.ltb O d.nmodel
  then (d, (Some (String ((Ascii (true, false, true, false, true, false,
         true, false)), (String ((Ascii (false, true, true, true, false,
         true, true, false)), (String ((Ascii (true, true, false, false,
         true, true, true, false)), (String ((Ascii (false, false, false,
         false, true, true, true, false)), (String ((Ascii (true, false,
         true, false, false, true, true, false)), (String ((Ascii (true,
         true, false, false, false, true, true, false)), (String ((Ascii
         (true, false, false, true, false, true, true, false)), (String
         ((Ascii (false, true, true, false, false, true, true, false)),
         (String ((Ascii (true, false, false, true, false, true, true,
         false)), (String ((Ascii (true, false, true, false, false, true,
         true, false)), (String ((Ascii (false, false, true, false, false,
         true, true, false)), EmptyString))))))))))))))))))))))))
  else (match find_table (String ((Ascii (true, false, false, false, false,
                false, true, false)), (String ((Ascii (false, false, true,
                false, true, false, true, false)), (String ((Ascii (true,
                true, true, true, false, false, true, false)), (String
                ((Ascii (true, false, true, true, false, false, true,
                false)), EmptyString)))))))) d.tables with
        | Some t ->
          (match find_exact (String ((Ascii (true, true, false, false, false,
                   true, true, false)), (String ((Ascii (false, false, false,
                   true, false, true, true, false)), (String ((Ascii (true,
                   false, false, false, false, true, true, false)), (String
                   ((Ascii (true, false, false, true, false, true, true,
                   false)), (String ((Ascii (false, true, true, true, false,
                   true, true, false)), (String ((Ascii (true, false, false,
                   true, false, false, true, false)), (String ((Ascii (false,
                   false, true, false, false, false, true, false)),
                   EmptyString)))))))))))))) t.tcols O with
           | Some ci ->
             (match mapM (fun r ->
                      match nth ci r VNull with
                      | VText s -> Ok s
                      | _ -> unspecified) t.trows with
              | Ok names ->
                let chains = sorted_set names in
                if Nat.ltb (S (S (S (S (S (S (S (S (S (S (S (S (S (S (S (S (S
                     (S (S (S (S (S (S (S (S (S O))))))))))))))))))))))))))
                     (length chains)
                then (d, (Some (String ((Ascii (true, false, false, false,
                       false, false, true, false)), (String ((Ascii (false,
                       true, false, false, false, true, true, false)),
                       (String ((Ascii (true, true, true, true, false, true,
                       true, false)), (String ((Ascii (false, true, false,
                       false, true, true, true, false)), (String ((Ascii
                       (false, false, true, false, true, true, true, false)),
                       (String ((Ascii (true, false, true, false, false,
                       true, true, false)), (String ((Ascii (false, false,
                       true, false, false, true, true, false)),
                       EmptyString))))))))))))))))
                else let rows' =
                       map (fun r ->
                         match nth ci r VNull with
                         | VText s ->
                           (match index_of0 s chains O with
                            | Some k ->
                              set_nth ci (VText
                                (nth k upper_letters EmptyString)) r
                            | None -> r)
                         | _ -> r) t.trows
                     in
                     ((with_table d (String ((Ascii (true, false, false,
                        false, false, false, true, false)), (String ((Ascii
                        (false, false, true, false, true, false, true,
                        false)), (String ((Ascii (true, true, true, true,
                        false, false, true, false)), (String ((Ascii (true,
                        false, true, true, false, false, true, false)),
                        EmptyString)))))))) { tcols = t.tcols; trows =
                        rows' }), None)
              | Err e -> (d, (Some e)))
           | None ->
             (d, (Some (String ((Ascii (false, true, false, false, true,
               false, true, false)), (String ((Ascii (true, false, true,
               false, false, true, true, false)), (String ((Ascii (false,
               true, false, true, false, true, true, false)), (String ((Ascii
               (true, false, true, false, false, true, true, false)), (String
               ((Ascii (true, true, false, false, false, true, true, false)),
               (String ((Ascii (false, false, true, false, true, true, true,
               false)), (String ((Ascii (true, false, true, false, false,
               true, true, false)), (String ((Ascii (false, false, true,
               false, false, true, true, false)),
               EmptyString)))))))))))))))))))
        | None ->
          (d, (Some (String ((Ascii (false, true, false, false, true, false,
            true, false)), (String ((Ascii (true, false, true, false, false,
            true, true, false)), (String ((Ascii (false, true, false, true,
            false, true, true, false)), (String ((Ascii (true, false, true,
            false, false, true, true, false)), (String ((Ascii (true, true,
            false, false, false, true, true, false)), (String ((Ascii (false,
            false, true, false, true, true, true, false)), (String ((Ascii
            (true, false, true, false, false, true, true, false)), (String
            ((Ascii (false, false, true, false, false, true, true, false)),
            EmptyString)))))))))))))))))))

(** val spec_step : db -> op -> ures **)

let spec_step d = function
| OpUpdate (c, v0, t, kw) -> spec_update d c v0 t kw
| OpUpdateColumn (c, v0, ix, t) -> spec_update_column d c v0 ix t
| OpUpdateXyz (v0, t, kw) -> spec_update_xyz d v0 t kw
| OpAddColumn (c, ty, v0, t) -> spec_add_column d c ty v0 t
| OpFixChainID -> spec_fix_chainID d

(** val long_list : cval -> bool **)

let long_list = function
| CScalar _ -> false
| CList l -> Z.ltb max_sql_values_src (Z.of_nat (length l))

(** val f10_class : conds -> bool **)

let f10_class kw =
  existsb (fun c -> (&&) (fst (key_of0 (fst c))) (long_list (snd c))) kw

(** val first_long : conds -> (string * pv list) option **)

let rec first_long = function
| [] -> None
| p :: t ->
  let (k0, v0) = p in
  if long_list v0
  then if fst (key_of0 k0) then None else Some (k0, (spec_values v0))
  else first_long t

(** val sep : ('a1 -> bool) -> ('a1 -> bool) -> 'a1 list -> bool **)

let rec sep p q0 = function
| [] -> true
| x :: t ->
  if q0 x
  then (&&) (negb (p x)) (forallb (fun y -> negb (p y)) t)
  else sep p q0 t

(** val any_of : ('a1 -> bool) list -> 'a1 -> bool **)

let any_of ps x =
  existsb (fun q0 -> q0 x) ps

(** val seps : 'a1 list -> ('a1 -> bool) list -> bool **)

let rec seps l = function
| [] -> true
| p :: rest -> (&&) (sep p (any_of rest) l) (seps l rest)

(** val f11_safe : nat -> db -> string -> conds -> bool **)

let rec f11_safe fuel d tablename kw =
  match fuel with
  | O -> true
  | S f ->
    (match first_long kw with
     | Some p ->
       let (k, l) = p in
       let pieces = chunks (Z.to_nat max_sql_values_src) l in
       (match find_table tablename d.tables with
        | Some t ->
          (match mapM (fun c ->
                   spec_conds d tablename (dict_set k (CList c) kw)) pieces with
           | Ok tcs ->
             (&&)
               (seps (with_positions t.trows)
                 (map (fun tc -> spec_matches (snd tc)) tcs))
               (forallb (fun c ->
                 f11_safe f d tablename (dict_set k (CList c) kw)) pieces)
           | Err _ -> true)
        | None -> true)
     | None -> true)

(** val f11_class : db -> string -> conds -> bool **)

let f11_class d tablename kw =
  negb (f11_safe (S (length kw)) d tablename kw)

(** val dec_val : v -> val0 **)

let dec_val = function
| VL l ->
  (match l with
   | [] -> VNull
   | v1 :: l0 ->
     (match v1 with
      | VS s0 ->
        (match s0 with
         | EmptyString -> VNull
         | String (a0, s1) ->
           let Ascii (b, b0, b1, b2, b3, b4, b5, b6) = a0 in
           if b
           then if b0
                then VNull
                else if b1
                     then VNull
                     else if b2
                          then if b3
                               then VNull
                               else if b4
                                    then if b5
                                         then if b6
                                              then VNull
                                              else (match s1 with
                                                    | EmptyString ->
                                                      (match l0 with
                                                       | [] -> VNull
                                                       | v2 :: l1 ->
                                                         (match v2 with
                                                          | VZ z0 ->
                                                            (match l1 with
                                                             | [] -> VInt z0
                                                             | _ :: _ -> VNull)
                                                          | _ -> VNull))
                                                    | String (_, _) -> VNull)
                                         else VNull
                                    else VNull
                          else VNull
           else if b0
                then if b1
                     then VNull
                     else if b2
                          then VNull
                          else if b3
                               then if b4
                                    then if b5
                                         then if b6
                                              then VNull
                                              else (match s1 with
                                                    | EmptyString ->
                                                      (match l0 with
                                                       | [] -> VNull
                                                       | v2 :: l1 ->
                                                         (match v2 with
                                                          | VZ n0 ->
                                                            (match l1 with
                                                             | [] -> VNull
                                                             | v3 :: l2 ->
                                                               (match v3 with
                                                                | VZ z0 ->
                                                                  (match z0 with
                                                                   | Zpos p ->
                                                                    (match l2 with
                                                                    | [] ->
                                                                    VReal
                                                                    (qred
                                                                    { qnum =
                                                                    n0;
                                                                    qden =
                                                                    p })
                                                                    | _ :: _ ->
                                                                    VNull)
                                                                   | _ ->
                                                                    VNull)
                                                                | _ -> VNull))
                                                          | _ -> VNull))
                                                    | String (_, _) -> VNull)
                                         else VNull
                                    else VNull
                               else if b4
                                    then if b5
                                         then if b6
                                              then VNull
                                              else (match s1 with
                                                    | EmptyString ->
                                                      (match l0 with
                                                       | [] -> VBlob
                                                       | _ :: _ -> VNull)
                                                    | String (_, _) -> VNull)
                                         else VNull
                                    else VNull
                else if b1
                     then if b2
                          then VNull
                          else if b3
                               then if b4
                                    then if b5
                                         then if b6
                                              then VNull
                                              else (match s1 with
                                                    | EmptyString ->
                                                      (match l0 with
                                                       | [] -> VNull
                                                       | v2 :: l1 ->
                                                         (match v2 with
                                                          | VS s ->
                                                            (match l1 with
                                                             | [] -> VText s
                                                             | _ :: _ -> VNull)
                                                          | _ -> VNull))
                                                    | String (_, _) -> VNull)
                                         else VNull
                                    else VNull
                               else VNull
                     else VNull)
      | _ -> VNull))
| _ -> VNull

(** val dec_pv : v -> pv **)

let dec_pv = function
| VL l ->
  (match l with
   | [] -> PNone
   | v1 :: l0 ->
     (match v1 with
      | VS s0 ->
        (match s0 with
         | EmptyString -> PNone
         | String (a0, s1) ->
           let Ascii (b, b0, b1, b2, b3, b4, b5, b6) = a0 in
           if b
           then if b0
                then if b1
                     then PNone
                     else if b2
                          then PNone
                          else if b3
                               then if b4
                                    then if b5
                                         then if b6
                                              then PNone
                                              else (match s1 with
                                                    | EmptyString ->
                                                      (match l0 with
                                                       | [] -> PNone
                                                       | v2 :: l1 ->
                                                         (match v2 with
                                                          | VS s ->
                                                            (match l1 with
                                                             | [] -> PStr s
                                                             | _ :: _ -> PNone)
                                                          | _ -> PNone))
                                                    | String (_, _) -> PNone)
                                         else PNone
                                    else PNone
                               else PNone
                else if b1
                     then PNone
                     else if b2
                          then if b3
                               then PNone
                               else if b4
                                    then if b5
                                         then if b6
                                              then PNone
                                              else (match s1 with
                                                    | EmptyString ->
                                                      (match l0 with
                                                       | [] -> PNone
                                                       | v2 :: l1 ->
                                                         (match v2 with
                                                          | VZ z0 ->
                                                            (match l1 with
                                                             | [] -> PInt z0
                                                             | _ :: _ -> PNone)
                                                          | _ -> PNone))
                                                    | String (_, _) -> PNone)
                                         else PNone
                                    else PNone
                          else PNone
           else if b0
                then if b1
                     then if b2
                          then PNone
                          else if b3
                               then PNone
                               else if b4
                                    then if b5
                                         then if b6
                                              then PNone
                                              else (match s1 with
                                                    | EmptyString ->
                                                      (match l0 with
                                                       | [] -> PNone
                                                       | v2 :: l1 ->
                                                         (match v2 with
                                                          | VZ n0 ->
                                                            (match l1 with
                                                             | [] -> PNone
                                                             | v3 :: l2 ->
                                                               (match v3 with
                                                                | VZ z0 ->
                                                                  (match z0 with
                                                                   | Zpos p ->
                                                                    (match l2 with
                                                                    | [] ->
                                                                    PFloat
                                                                    { qnum =
                                                                    n0;
                                                                    qden = p }
                                                                    | _ :: _ ->
                                                                    PNone)
                                                                   | _ ->
                                                                    PNone)
                                                                | _ -> PNone))
                                                          | _ -> PNone))
                                                    | String (_, _) -> PNone)
                                         else PNone
                                    else PNone
                     else PNone
                else PNone)
      | _ -> PNone))
| _ -> PNone

(** val dec_cval : v -> cval **)

let dec_cval = function
| VL l0 ->
  (match l0 with
   | [] -> CScalar PNone
   | v1 :: l1 ->
     (match v1 with
      | VS s ->
        (match s with
         | EmptyString -> CScalar PNone
         | String (a0, s0) ->
           let Ascii (b, b0, b1, b2, b3, b4, b5, b6) = a0 in
           if b
           then if b0
                then if b1
                     then CScalar PNone
                     else if b2
                          then CScalar PNone
                          else if b3
                               then if b4
                                    then CScalar PNone
                                    else if b5
                                         then if b6
                                              then CScalar PNone
                                              else (match s0 with
                                                    | EmptyString ->
                                                      (match l1 with
                                                       | [] -> CScalar PNone
                                                       | x :: l ->
                                                         (match l with
                                                          | [] ->
                                                            CScalar (dec_pv x)
                                                          | _ :: _ ->
                                                            CScalar PNone))
                                                    | String (_, _) ->
                                                      CScalar PNone)
                                         else CScalar PNone
                               else CScalar PNone
                else CScalar PNone
           else if b0
                then CScalar PNone
                else if b1
                     then if b2
                          then if b3
                               then CScalar PNone
                               else if b4
                                    then CScalar PNone
                                    else if b5
                                         then if b6
                                              then CScalar PNone
                                              else (match s0 with
                                                    | EmptyString ->
                                                      (match l1 with
                                                       | [] -> CScalar PNone
                                                       | v2 :: l2 ->
                                                         (match v2 with
                                                          | VL l ->
                                                            (match l2 with
                                                             | [] ->
                                                               CList
                                                                 (map dec_pv
                                                                   l)
                                                             | _ :: _ ->
                                                               CScalar PNone)
                                                          | _ -> CScalar PNone))
                                                    | String (_, _) ->
                                                      CScalar PNone)
                                         else CScalar PNone
                          else CScalar PNone
                     else CScalar PNone)
      | _ -> CScalar PNone))
| _ -> CScalar PNone

(** val dec_kw : v -> conds **)

let dec_kw v0 =
  map (fun c -> ((getS (nthV O c)), (dec_cval (nthV (S O) c)))) (getL v0)

(** val dec_uval : v -> uval **)

let dec_uval = function
| VL l0 ->
  (match l0 with
   | [] -> UScalar PNone
   | v1 :: l1 ->
     (match v1 with
      | VS s0 ->
        (match s0 with
         | EmptyString -> UScalar PNone
         | String (a0, s1) ->
           let Ascii (b, b0, b1, b2, b3, b4, b5, b6) = a0 in
           if b
           then UScalar PNone
           else if b0
                then if b1
                     then UScalar PNone
                     else if b2
                          then UScalar PNone
                          else if b3
                               then if b4
                                    then UScalar PNone
                                    else if b5
                                         then if b6
                                              then UScalar PNone
                                              else (match s1 with
                                                    | EmptyString ->
                                                      (match l1 with
                                                       | [] -> UScalar PNone
                                                       | v2 :: l2 ->
                                                         (match v2 with
                                                          | VL l ->
                                                            (match l2 with
                                                             | [] ->
                                                               URow
                                                                 (map dec_pv
                                                                   l)
                                                             | _ :: _ ->
                                                               UScalar PNone)
                                                          | _ -> UScalar PNone))
                                                    | String (_, _) ->
                                                      UScalar PNone)
                                         else UScalar PNone
                               else UScalar PNone
                else if b1
                     then if b2
                          then UScalar PNone
                          else if b3
                               then if b4
                                    then UScalar PNone
                                    else if b5
                                         then if b6
                                              then UScalar PNone
                                              else (match s1 with
                                                    | EmptyString ->
                                                      (match l1 with
                                                       | [] -> UScalar PNone
                                                       | v2 :: l ->
                                                         (match v2 with
                                                          | VS s ->
                                                            (match l with
                                                             | [] -> UStr s
                                                             | _ :: _ ->
                                                               UScalar PNone)
                                                          | _ -> UScalar PNone))
                                                    | String (_, _) ->
                                                      UScalar PNone)
                                         else UScalar PNone
                               else UScalar PNone
                     else if b2
                          then if b3
                               then if b4
                                    then UScalar PNone
                                    else if b5
                                         then if b6
                                              then UScalar PNone
                                              else (match s1 with
                                                    | EmptyString ->
                                                      (match l1 with
                                                       | [] -> UScalar PNone
                                                       | x :: l ->
                                                         (match l with
                                                          | [] ->
                                                            UScalar (dec_pv x)
                                                          | _ :: _ ->
                                                            UScalar PNone))
                                                    | String (_, _) ->
                                                      UScalar PNone)
                                         else UScalar PNone
                               else UScalar PNone
                          else UScalar PNone)
      | _ -> UScalar PNone))
| _ -> UScalar PNone

(** val dec_index : v -> pv list option **)

let dec_index = function
| VL l0 ->
  (match l0 with
   | [] -> None
   | v1 :: l1 ->
     (match v1 with
      | VS s ->
        (match s with
         | EmptyString -> None
         | String (a0, s0) ->
           let Ascii (b, b0, b1, b2, b3, b4, b5, b6) = a0 in
           if b
           then if b0
                then if b1
                     then None
                     else if b2
                          then None
                          else if b3
                               then if b4
                                    then if b5
                                         then if b6
                                              then None
                                              else (match s0 with
                                                    | EmptyString -> None
                                                    | String (a1, s1) ->
                                                      let Ascii (b7, b8, b9,
                                                                 b10, b11,
                                                                 b12, b13, b14) =
                                                        a1
                                                      in
                                                      if b7
                                                      then if b8
                                                           then if b9
                                                                then 
                                                                  if b10
                                                                  then 
                                                                    if b11
                                                                    then None
                                                                    else 
                                                                    if b12
                                                                    then 
                                                                    if b13
                                                                    then 
                                                                    if b14
                                                                    then None
                                                                    else 
                                                                    (match s1 with
                                                                    | EmptyString ->
                                                                    None
                                                                    | String (
                                                                    a2, s2) ->
                                                                    let Ascii (
                                                                    b15, b16,
                                                                    b17, b18,
                                                                    b19, b20,
                                                                    b21, b22) =
                                                                    a2
                                                                    in
                                                                    if b15
                                                                    then 
                                                                    if b16
                                                                    then None
                                                                    else 
                                                                    if b17
                                                                    then 
                                                                    if b18
                                                                    then 
                                                                    if b19
                                                                    then None
                                                                    else 
                                                                    if b20
                                                                    then 
                                                                    if b21
                                                                    then 
                                                                    if b22
                                                                    then None
                                                                    else 
                                                                    (match s2 with
                                                                    | EmptyString ->
                                                                    None
                                                                    | String (
                                                                    a3, s3) ->
                                                                    let Ascii (
                                                                    b23, b24,
                                                                    b25, b26,
                                                                    b27, b28,
                                                                    b29, b30) =
                                                                    a3
                                                                    in
                                                                    if b23
                                                                    then 
                                                                    if b24
                                                                    then None
                                                                    else 
                                                                    if b25
                                                                    then 
                                                                    if b26
                                                                    then None
                                                                    else 
                                                                    if b27
                                                                    then None
                                                                    else 
                                                                    if b28
                                                                    then 
                                                                    if b29
                                                                    then 
                                                                    if b30
                                                                    then None
                                                                    else 
                                                                    (match s3 with
                                                                    | EmptyString ->
                                                                    (match l1 with
                                                                    | [] ->
                                                                    None
                                                                    | v2 :: l2 ->
                                                                    (match v2 with
                                                                    | VL l ->
                                                                    (match l2 with
                                                                    | [] ->
                                                                    Some
                                                                    (map
                                                                    dec_pv l)
                                                                    | _ :: _ ->
                                                                    None)
                                                                    | _ ->
                                                                    None))
                                                                    | String (
                                                                    _, _) ->
                                                                    None)
                                                                    else None
                                                                    else None
                                                                    else None
                                                                    else None)
                                                                    else None
                                                                    else None
                                                                    else None
                                                                    else None
                                                                    else None)
                                                                    else None
                                                                    else None
                                                                  else None
                                                                else None
                                                           else None
                                                      else None)
                                         else None
                                    else None
                               else None
                else None
           else None)
      | _ -> None))
| _ -> None

(** val dec_table : v -> string * table0 **)

let dec_table v0 =
  ((getS (nthV O v0)), { tcols =
    (map (fun c -> ((getS (nthV O c)), (getS (nthV (S O) c))))
      (getL (nthV (S O) v0))); trows =
    (map (fun r -> map dec_val (getL r)) (getL (nthV (S (S O)) v0))) })

(** val dec_db : v -> db **)

let dec_db v0 =
  { tables = (map dec_table (getL (nthV O v0))); nmodel =
    (Z.to_nat (getZ (nthV (S O) v0))) }

(** val enc_val : val0 -> v **)

let enc_val = function
| VInt z0 ->
  VL ((VS (String ((Ascii (true, false, false, true, false, true, true,
    false)), EmptyString))) :: ((VZ z0) :: []))
| VReal q0 ->
  VL ((VS (String ((Ascii (false, true, false, false, true, true, true,
    false)), EmptyString))) :: ((VZ (qred q0).qnum) :: ((VZ (Zpos
    (qred q0).qden)) :: [])))
| VText s ->
  VL ((VS (String ((Ascii (false, false, true, false, true, true, true,
    false)), EmptyString))) :: ((VS s) :: []))
| VBlob ->
  VL ((VS (String ((Ascii (false, true, false, false, false, true, true,
    false)), EmptyString))) :: [])
| VNull ->
  VL ((VS (String ((Ascii (false, true, true, true, false, true, true,
    false)), EmptyString))) :: [])

(** val enc_pyv : pyv -> v **)

let rec enc_pyv = function
| PV x -> enc_val x
| PL l ->
  VL ((VS (String ((Ascii (false, false, true, true, false, false, true,
    false)), EmptyString))) :: (map enc_pyv l))

(** val enc_out : pyv list res -> v **)

let enc_out = function
| Ok l -> vOk (VL (map enc_pyv l))
| Err e -> vErr e

(** val enc_table : (string * table0) -> v **)

let enc_table nt =
  VL ((VS (fst nt)) :: ((VL
    (map (fun c -> VL ((VS (fst c)) :: ((VS (snd c)) :: []))) (snd nt).tcols)) :: ((VL
    (map (fun r -> VL (map enc_val r)) (snd nt).trows)) :: [])))

(** val enc_db : db -> v **)

let enc_db d =
  VL ((VL (map enc_table d.tables)) :: ((VZ (Z.of_nat d.nmodel)) :: []))

(** val enc_status : string option -> v **)

let enc_status = function
| Some s -> vErr s
| None ->
  VL ((VS (String ((Ascii (true, true, true, true, false, false, true,
    false)), (String ((Ascii (true, true, false, true, false, false, true,
    false)), EmptyString))))) :: [])

type engine = { e_get : (db -> string -> string -> conds -> pyv list res);
                e_xyz : (db -> string -> conds -> pyv list res);
                e_residues : (db -> string -> conds -> val0 list list res);
                e_chains : (db -> string -> conds -> string list res);
                e_get_all : (db -> string -> conds -> pyv list res);
                e_step : (db -> op -> ures); e_is_spec : bool }

(** val model_engine : engine **)

let model_engine =
  { e_get = get_top; e_xyz = get_xyz_model; e_residues = get_residues_model;
    e_chains = get_chains_model; e_get_all = get_all_model; e_step =
    model_step; e_is_spec = false }

(** val spec_engine : engine **)

let spec_engine =
  { e_get = spec_get; e_xyz = spec_get_xyz; e_residues = spec_get_residues;
    e_chains = spec_get_chains; e_get_all = spec_get_all; e_step = spec_step;
    e_is_spec = true }

(** val a : nat -> v list -> v **)

let a n0 l =
  nth n0 l (VZ Z0)

(** val run_op : engine -> db -> v -> db * v **)

let run_op e d = function
| VL l ->
  (match l with
   | [] ->
     (d,
       (vErr (String ((Ascii (false, true, false, false, false, true, true,
         false)), (String ((Ascii (true, false, false, false, false, true,
         true, false)), (String ((Ascii (false, false, true, false, false,
         true, true, false)), (String ((Ascii (true, false, true, true,
         false, true, false, false)), (String ((Ascii (true, true, true,
         true, false, true, true, false)), (String ((Ascii (false, false,
         false, false, true, true, true, false)), EmptyString))))))))))))))
   | v0 :: args ->
     (match v0 with
      | VS kind ->
        if eqb1 kind (String ((Ascii (true, true, true, false, false, true,
             true, false)), (String ((Ascii (true, false, true, false, false,
             true, true, false)), (String ((Ascii (false, false, true, false,
             true, true, true, false)), EmptyString))))))
        then (d,
               (enc_out
                 (e.e_get d (getS (a O args)) (getS (a (S O) args))
                   (dec_kw (a (S (S O)) args)))))
        else if eqb1 kind (String ((Ascii (false, false, false, true, true,
                  true, true, false)), (String ((Ascii (true, false, false,
                  true, true, true, true, false)), (String ((Ascii (false,
                  true, false, true, true, true, true, false)),
                  EmptyString))))))
             then (d,
                    (enc_out
                      (e.e_xyz d (getS (a O args)) (dec_kw (a (S O) args)))))
             else if eqb1 kind (String ((Ascii (false, true, false, false,
                       true, true, true, false)), (String ((Ascii (true,
                       false, true, false, false, true, true, false)),
                       (String ((Ascii (true, true, false, false, true, true,
                       true, false)), (String ((Ascii (true, false, false,
                       true, false, true, true, false)), (String ((Ascii
                       (false, false, true, false, false, true, true,
                       false)), (String ((Ascii (true, false, true, false,
                       true, true, true, false)), (String ((Ascii (true,
                       false, true, false, false, true, true, false)),
                       (String ((Ascii (true, true, false, false, true, true,
                       true, false)), EmptyString))))))))))))))))
                  then (d,
                         (match e.e_residues d (getS (a O args))
                                  (dec_kw (a (S O) args)) with
                          | Ok l0 ->
                            vOk (VL (map (fun r -> VL (map enc_val r)) l0))
                          | Err e0 -> vErr e0))
                  else if eqb1 kind (String ((Ascii (true, true, false,
                            false, false, true, true, false)), (String
                            ((Ascii (false, false, false, true, false, true,
                            true, false)), (String ((Ascii (true, false,
                            false, false, false, true, true, false)), (String
                            ((Ascii (true, false, false, true, false, true,
                            true, false)), (String ((Ascii (false, true,
                            true, true, false, true, true, false)), (String
                            ((Ascii (true, true, false, false, true, true,
                            true, false)), EmptyString))))))))))))
                       then (d,
                              (match e.e_chains d (getS (a O args))
                                       (dec_kw (a (S O) args)) with
                               | Ok l0 -> vOk (VL (map (fun x -> VS x) l0))
                               | Err e0 -> vErr e0))
                       else if eqb1 kind (String ((Ascii (true, true, true,
                                 false, false, true, true, false)), (String
                                 ((Ascii (true, false, true, false, false,
                                 true, true, false)), (String ((Ascii (false,
                                 false, true, false, true, true, true,
                                 false)), (String ((Ascii (true, true, true,
                                 true, true, false, true, false)), (String
                                 ((Ascii (true, false, false, false, false,
                                 true, true, false)), (String ((Ascii (false,
                                 false, true, true, false, true, true,
                                 false)), (String ((Ascii (false, false,
                                 true, true, false, true, true, false)),
                                 EmptyString))))))))))))))
                            then (d,
                                   (enc_out
                                     (e.e_get_all d (getS (a O args))
                                       (dec_kw (a (S O) args)))))
                            else if eqb1 kind (String ((Ascii (true, true,
                                      false, false, false, true, true,
                                      false)), (String ((Ascii (true, true,
                                      true, true, false, true, true, false)),
                                      (String ((Ascii (false, false, true,
                                      true, false, true, true, false)),
                                      (String ((Ascii (false, true, true,
                                      true, false, true, true, false)),
                                      (String ((Ascii (true, false, false,
                                      false, false, true, true, false)),
                                      (String ((Ascii (true, false, true,
                                      true, false, true, true, false)),
                                      (String ((Ascii (true, false, true,
                                      false, false, true, true, false)),
                                      (String ((Ascii (true, true, false,
                                      false, true, true, true, false)),
                                      EmptyString))))))))))))))))
                                 then (d,
                                        (match valid_colnames d with
                                         | Ok l0 ->
                                           vOk (VL (map (fun x -> VS x) l0))
                                         | Err e0 -> vErr e0))
                                 else if eqb1 kind (String ((Ascii (false,
                                           false, true, false, false, true,
                                           true, false)), (String ((Ascii
                                           (true, false, true, false, true,
                                           true, true, false)), (String
                                           ((Ascii (true, false, true, true,
                                           false, true, true, false)),
                                           (String ((Ascii (false, false,
                                           false, false, true, true, true,
                                           false)), EmptyString))))))))
                                      then (d, (enc_db d))
                                      else if eqb1 kind (String ((Ascii
                                                (true, true, false, false,
                                                false, true, true, false)),
                                                (String ((Ascii (false,
                                                false, true, true, false,
                                                true, true, false)), (String
                                                ((Ascii (true, false, false,
                                                false, false, true, true,
                                                false)), (String ((Ascii
                                                (true, true, false, false,
                                                true, true, true, false)),
                                                (String ((Ascii (true, true,
                                                false, false, true, true,
                                                true, false)), (String
                                                ((Ascii (true, false, true,
                                                false, false, true, true,
                                                false)), (String ((Ascii
                                                (true, true, false, false,
                                                true, true, true, false)),
                                                EmptyString))))))))))))))
                                           then (d,
                                                  (if e.e_is_spec
                                                   then VL
                                                          ((vB
                                                             (f10_class
                                                               (dec_kw
                                                                 (a (S O)
                                                                   args)))) :: (
                                                          (vB
                                                            (if eqb1
                                                                  (getS
                                                                    (a O args))
                                                                  (String
                                                                  ((Ascii
                                                                  (false,
                                                                  true,
                                                                  false,
                                                                  true,
                                                                  false,
                                                                  true,
                                                                  false,
                                                                  false)),
                                                                  EmptyString))
                                                             then existsb
                                                                    (fun nt ->
                                                                    f11_class
                                                                    d
                                                                    (fst nt)
                                                                    (dec_kw
                                                                    (a (S O)
                                                                    args)))
                                                                    d.tables
                                                             else f11_class d
                                                                    (getS
                                                                    (a O args))
                                                                    (dec_kw
                                                                    (a (S O)
                                                                    args)))) :: []))
                                                   else VL []))
                                           else let o' =
                                                  if eqb1 kind (String
                                                       ((Ascii (true, false,
                                                       true, false, true,
                                                       true, true, false)),
                                                       (String ((Ascii
                                                       (false, false, false,
                                                       false, true, true,
                                                       true, false)), (String
                                                       ((Ascii (false, false,
                                                       true, false, false,
                                                       true, true, false)),
                                                       (String ((Ascii (true,
                                                       false, false, false,
                                                       false, true, true,
                                                       false)), (String
                                                       ((Ascii (false, false,
                                                       true, false, true,
                                                       true, true, false)),
                                                       (String ((Ascii (true,
                                                       false, true, false,
                                                       false, true, true,
                                                       false)),
                                                       EmptyString))))))))))))
                                                  then Some (OpUpdate
                                                         ((getS (a O args)),
                                                         (map dec_uval
                                                           (getL
                                                             (a (S O) args))),
                                                         (getS
                                                           (a (S (S O)) args)),
                                                         (dec_kw
                                                           (a (S (S (S O)))
                                                             args))))
                                                  else if eqb1 kind (String
                                                            ((Ascii (true,
                                                            false, true,
                                                            false, true,
                                                            true, true,
                                                            false)), (String
                                                            ((Ascii (false,
                                                            false, false,
                                                            false, true,
                                                            true, true,
                                                            false)), (String
                                                            ((Ascii (false,
                                                            false, true,
                                                            false, false,
                                                            true, true,
                                                            false)), (String
                                                            ((Ascii (true,
                                                            false, false,
                                                            false, false,
                                                            true, true,
                                                            false)), (String
                                                            ((Ascii (false,
                                                            false, true,
                                                            false, true,
                                                            true, true,
                                                            false)), (String
                                                            ((Ascii (true,
                                                            false, true,
                                                            false, false,
                                                            true, true,
                                                            false)), (String
                                                            ((Ascii (true,
                                                            true, true, true,
                                                            true, false,
                                                            true, false)),
                                                            (String ((Ascii
                                                            (true, true,
                                                            false, false,
                                                            false, true,
                                                            true, false)),
                                                            (String ((Ascii
                                                            (true, true,
                                                            true, true,
                                                            false, true,
                                                            true, false)),
                                                            (String ((Ascii
                                                            (false, false,
                                                            true, true,
                                                            false, true,
                                                            true, false)),
                                                            (String ((Ascii
                                                            (true, false,
                                                            true, false,
                                                            true, true, true,
                                                            false)), (String
                                                            ((Ascii (true,
                                                            false, true,
                                                            true, false,
                                                            true, true,
                                                            false)), (String
                                                            ((Ascii (false,
                                                            true, true, true,
                                                            false, true,
                                                            true, false)),
                                                            EmptyString))))))))))))))))))))))))))
                                                       then Some
                                                              (OpUpdateColumn
                                                              ((getS
                                                                 (a O args)),
                                                              (map dec_pv
                                                                (getL
                                                                  (a (S O)
                                                                    args))),
                                                              (dec_index
                                                                (a (S (S O))
                                                                  args)),
                                                              (getS
                                                                (a (S (S (S
                                                                  O))) args))))
                                                       else if eqb1 kind
                                                                 (String
                                                                 ((Ascii
                                                                 (true,
                                                                 false, true,
                                                                 false, true,
                                                                 true, true,
                                                                 false)),
                                                                 (String
                                                                 ((Ascii
                                                                 (false,
                                                                 false,
                                                                 false,
                                                                 false, true,
                                                                 true, true,
                                                                 false)),
                                                                 (String
                                                                 ((Ascii
                                                                 (false,
                                                                 false, true,
                                                                 false,
                                                                 false, true,
                                                                 true,
                                                                 false)),
                                                                 (String
                                                                 ((Ascii
                                                                 (true,
                                                                 false,
                                                                 false,
                                                                 false,
                                                                 false, true,
                                                                 true,
                                                                 false)),
                                                                 (String
                                                                 ((Ascii
                                                                 (false,
                                                                 false, true,
                                                                 false, true,
                                                                 true, true,
                                                                 false)),
                                                                 (String
                                                                 ((Ascii
                                                                 (true,
                                                                 false, true,
                                                                 false,
                                                                 false, true,
                                                                 true,
                                                                 false)),
                                                                 (String
                                                                 ((Ascii
                                                                 (true, true,
                                                                 true, true,
                                                                 true, false,
                                                                 true,
                                                                 false)),
                                                                 (String
                                                                 ((Ascii
                                                                 (false,
                                                                 false,
                                                                 false, true,
                                                                 true, true,
                                                                 true,
                                                                 false)),
                                                                 (String
                                                                 ((Ascii
                                                                 (true,
                                                                 false,
                                                                 false, true,
                                                                 true, true,
                                                                 true,
                                                                 false)),
                                                                 (String
                                                                 ((Ascii
                                                                 (false,
                                                                 true, false,
                                                                 true, true,
                                                                 true, true,
                                                                 false)),
                                                                 EmptyString))))))))))))))))))))
                                                            then Some
                                                                   (OpUpdateXyz
                                                                   ((map
                                                                    dec_uval
                                                                    (getL
                                                                    (a O args))),
                                                                   (getS
                                                                    (a (S O)
                                                                    args)),
                                                                   (dec_kw
                                                                    (a (S (S
                                                                    O)) args))))
                                                            else if eqb1 kind
                                                                    (String
                                                                    ((Ascii
                                                                    (true,
                                                                    false,
                                                                    false,
                                                                    false,
                                                                    false,
                                                                    true,
                                                                    true,
                                                                    false)),
                                                                    (String
                                                                    ((Ascii
                                                                    (false,
                                                                    false,
                                                                    true,
                                                                    false,
                                                                    false,
                                                                    true,
                                                                    true,
                                                                    false)),
                                                                    (String
                                                                    ((Ascii
                                                                    (false,
                                                                    false,
                                                                    true,
                                                                    false,
                                                                    false,
                                                                    true,
                                                                    true,
                                                                    false)),
                                                                    (String
                                                                    ((Ascii
                                                                    (true,
                                                                    true,
                                                                    true,
                                                                    true,
                                                                    true,
                                                                    false,
                                                                    true,
                                                                    false)),
                                                                    (String
                                                                    ((Ascii
                                                                    (true,
                                                                    true,
                                                                    false,
                                                                    false,
                                                                    false,
                                                                    true,
                                                                    true,
                                                                    false)),
                                                                    (String
                                                                    ((Ascii
                                                                    (true,
                                                                    true,
                                                                    true,
                                                                    true,
                                                                    false,
                                                                    true,
                                                                    true,
                                                                    false)),
                                                                    (String
                                                                    ((Ascii
                                                                    (false,
                                                                    false,
                                                                    true,
                                                                    true,
                                                                    false,
                                                                    true,
                                                                    true,
                                                                    false)),
                                                                    (String
                                                                    ((Ascii
                                                                    (true,
                                                                    false,
                                                                    true,
                                                                    false,
                                                                    true,
                                                                    true,
                                                                    true,
                                                                    false)),
                                                                    (String
                                                                    ((Ascii
                                                                    (true,
                                                                    false,
                                                                    true,
                                                                    true,
                                                                    false,
                                                                    true,
                                                                    true,
                                                                    false)),
                                                                    (String
                                                                    ((Ascii
                                                                    (false,
                                                                    true,
                                                                    true,
                                                                    true,
                                                                    false,
                                                                    true,
                                                                    true,
                                                                    false)),
                                                                    EmptyString))))))))))))))))))))
                                                                 then 
                                                                   Some
                                                                    (OpAddColumn
                                                                    ((getS
                                                                    (a O args)),
                                                                    (getS
                                                                    (a (S O)
                                                                    args)),
                                                                    (dec_pv
                                                                    (a (S (S
                                                                    O)) args)),
                                                                    (getS
                                                                    (a (S (S
                                                                    (S O)))
                                                                    args))))
                                                                 else 
                                                                   if 
                                                                    eqb1 kind
                                                                    (String
                                                                    ((Ascii
                                                                    (false,
                                                                    true,
                                                                    true,
                                                                    false,
                                                                    false,
                                                                    true,
                                                                    true,
                                                                    false)),
                                                                    (String
                                                                    ((Ascii
                                                                    (true,
                                                                    false,
                                                                    false,
                                                                    true,
                                                                    false,
                                                                    true,
                                                                    true,
                                                                    false)),
                                                                    (String
                                                                    ((Ascii
                                                                    (false,
                                                                    false,
                                                                    false,
                                                                    true,
                                                                    true,
                                                                    true,
                                                                    true,
                                                                    false)),
                                                                    (String
                                                                    ((Ascii
                                                                    (true,
                                                                    true,
                                                                    true,
                                                                    true,
                                                                    true,
                                                                    false,
                                                                    true,
                                                                    false)),
                                                                    (String
                                                                    ((Ascii
                                                                    (true,
                                                                    true,
                                                                    false,
                                                                    false,
                                                                    false,
                                                                    true,
                                                                    true,
                                                                    false)),
                                                                    (String
                                                                    ((Ascii
                                                                    (false,
                                                                    false,
                                                                    false,
                                                                    true,
                                                                    false,
                                                                    true,
                                                                    true,
                                                                    false)),
                                                                    (String
                                                                    ((Ascii
                                                                    (true,
                                                                    false,
                                                                    false,
                                                                    false,
                                                                    false,
                                                                    true,
                                                                    true,
                                                                    false)),
                                                                    (String
                                                                    ((Ascii
                                                                    (true,
                                                                    false,
                                                                    false,
                                                                    true,
                                                                    false,
                                                                    true,
                                                                    true,
                                                                    false)),
                                                                    (String
                                                                    ((Ascii
                                                                    (false,
                                                                    true,
                                                                    true,
                                                                    true,
                                                                    false,
                                                                    true,
                                                                    true,
                                                                    false)),
                                                                    (String
                                                                    ((Ascii
                                                                    (true,
                                                                    false,
                                                                    false,
                                                                    true,
                                                                    false,
                                                                    false,
                                                                    true,
                                                                    false)),
                                                                    (String
                                                                    ((Ascii
                                                                    (false,
                                                                    false,
                                                                    true,
                                                                    false,
                                                                    false,
                                                                    false,
                                                                    true,
                                                                    false)),
                                                                    EmptyString))))))))))))))))))))))
                                                                   then 
                                                                    Some
                                                                    OpFixChainID
                                                                   else None
                                                in
                                                (match o' with
                                                 | Some x ->
                                                   let (d', e0) = e.e_step d x
                                                   in
                                                   (d', (enc_status e0))
                                                 | None ->
                                                   (d,
                                                     (vErr (String ((Ascii
                                                       (true, false, true,
                                                       false, true, true,
                                                       true, false)), (String
                                                       ((Ascii (false, true,
                                                       true, true, false,
                                                       true, true, false)),
                                                       (String ((Ascii (true,
                                                       true, false, true,
                                                       false, true, true,
                                                       false)), (String
                                                       ((Ascii (false, true,
                                                       true, true, false,
                                                       true, true, false)),
                                                       (String ((Ascii (true,
                                                       true, true, true,
                                                       false, true, true,
                                                       false)), (String
                                                       ((Ascii (true, true,
                                                       true, false, true,
                                                       true, true, false)),
                                                       (String ((Ascii
                                                       (false, true, true,
                                                       true, false, true,
                                                       true, false)), (String
                                                       ((Ascii (true, false,
                                                       true, true, false,
                                                       true, false, false)),
                                                       (String ((Ascii (true,
                                                       true, true, true,
                                                       false, true, true,
                                                       false)), (String
                                                       ((Ascii (false, false,
                                                       false, false, true,
                                                       true, true, false)),
                                                       EmptyString)))))))))))))))))))))))
      | _ ->
        (d,
          (vErr (String ((Ascii (false, true, false, false, false, true,
            true, false)), (String ((Ascii (true, false, false, false, false,
            true, true, false)), (String ((Ascii (false, false, true, false,
            false, true, true, false)), (String ((Ascii (true, false, true,
            true, false, true, false, false)), (String ((Ascii (true, true,
            true, true, false, true, true, false)), (String ((Ascii (false,
            false, false, false, true, true, true, false)),
            EmptyString))))))))))))))))
| _ ->
  (d,
    (vErr (String ((Ascii (false, true, false, false, false, true, true,
      false)), (String ((Ascii (true, false, false, false, false, true, true,
      false)), (String ((Ascii (false, false, true, false, false, true, true,
      false)), (String ((Ascii (true, false, true, true, false, true, false,
      false)), (String ((Ascii (true, true, true, true, false, true, true,
      false)), (String ((Ascii (false, false, false, false, true, true, true,
      false)), EmptyString))))))))))))))

(** val run_ops : engine -> db -> v list -> v list **)

let rec run_ops e d = function
| [] -> []
| o :: t -> let (d', r) = run_op e d o in r :: (run_ops e d' t)

(** val run_sql : string -> v list -> v option **)

let run_sql cmd args =
  if eqb1 cmd (String ((Ascii (true, true, false, false, true, true, true,
       false)), (String ((Ascii (true, false, false, false, true, true, true,
       false)), (String ((Ascii (false, false, true, true, false, true, true,
       false)), (String ((Ascii (false, true, true, true, false, true, false,
       false)), (String ((Ascii (true, true, false, false, true, true, true,
       false)), (String ((Ascii (true, false, true, false, false, true, true,
       false)), (String ((Ascii (true, true, false, false, true, true, true,
       false)), (String ((Ascii (true, true, false, false, true, true, true,
       false)), (String ((Ascii (true, false, false, true, false, true, true,
       false)), (String ((Ascii (true, true, true, true, false, true, true,
       false)), (String ((Ascii (false, true, true, true, false, true, true,
       false)), EmptyString))))))))))))))))))))))
  then Some (VL
         (run_ops model_engine (dec_db (a O args)) (getL (a (S O) args))))
  else if eqb1 cmd (String ((Ascii (true, true, false, false, true, true,
            true, false)), (String ((Ascii (false, false, false, false, true,
            true, true, false)), (String ((Ascii (true, false, true, false,
            false, true, true, false)), (String ((Ascii (true, true, false,
            false, false, true, true, false)), (String ((Ascii (false, true,
            true, true, false, true, false, false)), (String ((Ascii (true,
            true, false, false, true, true, true, false)), (String ((Ascii
            (true, false, false, false, true, true, true, false)), (String
            ((Ascii (false, false, true, true, false, true, true, false)),
            (String ((Ascii (false, true, true, true, false, true, false,
            false)), (String ((Ascii (true, true, false, false, true, true,
            true, false)), (String ((Ascii (true, false, true, false, false,
            true, true, false)), (String ((Ascii (true, true, false, false,
            true, true, true, false)), (String ((Ascii (true, true, false,
            false, true, true, true, false)), (String ((Ascii (true, false,
            false, true, false, true, true, false)), (String ((Ascii (true,
            true, true, true, false, true, true, false)), (String ((Ascii
            (false, true, true, true, false, true, true, false)),
            EmptyString))))))))))))))))))))))))))))))))
       then Some (VL
              (run_ops spec_engine (dec_db (a O args)) (getL (a (S O) args))))
       else if eqb1 cmd (String ((Ascii (true, true, false, false, true,
                 true, true, false)), (String ((Ascii (false, false, false,
                 false, true, true, true, false)), (String ((Ascii (true,
                 false, true, false, false, true, true, false)), (String
                 ((Ascii (true, true, false, false, false, true, true,
                 false)), (String ((Ascii (false, true, true, true, false,
                 true, false, false)), (String ((Ascii (true, true, false,
                 false, true, true, true, false)), (String ((Ascii (true,
                 false, false, false, true, true, true, false)), (String
                 ((Ascii (false, false, true, true, false, true, true,
                 false)), (String ((Ascii (false, true, true, true, false,
                 true, false, false)), (String ((Ascii (false, true, true,
                 false, false, true, true, false)), (String ((Ascii (true,
                 false, false, false, true, true, false, false)), (String
                 ((Ascii (true, false, false, false, true, true, false,
                 false)), (String ((Ascii (true, true, true, true, true,
                 false, true, false)), (String ((Ascii (true, true, false,
                 false, false, true, true, false)), (String ((Ascii (false,
                 false, true, true, false, true, true, false)), (String
                 ((Ascii (true, false, false, false, false, true, true,
                 false)), (String ((Ascii (true, true, false, false, true,
                 true, true, false)), (String ((Ascii (true, true, false,
                 false, true, true, true, false)),
                 EmptyString))))))))))))))))))))))))))))))))))))
            then Some
                   (vB
                     (f11_class (dec_db (a O args)) (getS (a (S O) args))
                       (dec_kw (a (S (S O)) args))))
            else if eqb1 cmd (String ((Ascii (true, true, false, false, true,
                      true, true, false)), (String ((Ascii (true, false,
                      false, false, true, true, true, false)), (String
                      ((Ascii (false, false, true, true, false, true, true,
                      false)), (String ((Ascii (false, true, true, true,
                      false, true, false, false)), (String ((Ascii (true,
                      true, false, false, true, true, true, false)), (String
                      ((Ascii (true, true, false, false, false, true, true,
                      false)), (String ((Ascii (false, false, false, true,
                      false, true, true, false)), (String ((Ascii (true,
                      false, true, false, false, true, true, false)), (String
                      ((Ascii (true, false, true, true, false, true, true,
                      false)), (String ((Ascii (true, false, false, false,
                      false, true, true, false)),
                      EmptyString))))))))))))))))))))
                 then Some (VL ((VL
                        (map (fun c -> VL ((VS (fst c)) :: ((VS
                          (snd c)) :: []))) col_src)) :: ((VZ
                        max_sql_values_src) :: ((VZ sql_limit_src) :: []))))
                 else if eqb1 cmd (String ((Ascii (true, true, false, false,
                           true, true, true, false)), (String ((Ascii (false,
                           false, false, false, true, true, true, false)),
                           (String ((Ascii (true, false, true, false, false,
                           true, true, false)), (String ((Ascii (true, true,
                           false, false, false, true, true, false)), (String
                           ((Ascii (false, true, true, true, false, true,
                           false, false)), (String ((Ascii (true, true,
                           false, false, true, true, true, false)), (String
                           ((Ascii (true, false, false, false, true, true,
                           true, false)), (String ((Ascii (false, false,
                           true, true, false, true, true, false)), (String
                           ((Ascii (false, true, true, true, false, true,
                           false, false)), (String ((Ascii (false, true,
                           true, false, false, true, true, false)), (String
                           ((Ascii (true, false, false, false, true, true,
                           false, false)), (String ((Ascii (false, false,
                           false, false, true, true, false, false)), (String
                           ((Ascii (true, true, true, true, true, false,
                           true, false)), (String ((Ascii (true, true, false,
                           false, false, true, true, false)), (String ((Ascii
                           (false, false, true, true, false, true, true,
                           false)), (String ((Ascii (true, false, false,
                           false, false, true, true, false)), (String ((Ascii
                           (true, true, false, false, true, true, true,
                           false)), (String ((Ascii (true, true, false,
                           false, true, true, true, false)),
                           EmptyString))))))))))))))))))))))))))))))))))))
                      then Some (vB (f10_class (dec_kw (a O args))))
                      else None

(** val vresS : string res -> v **)

let vresS = function
| Ok s -> vOk (VS s)
| Err e -> vErr e

(** val run_scores : string -> v list -> v option **)

let run_scores cmd a0 =
  if eqb1 cmd (String ((Ascii (true, true, false, false, false, true, true,
       false)), (String ((Ascii (true, false, false, false, false, true,
       true, false)), (String ((Ascii (false, false, false, false, true,
       true, true, false)), (String ((Ascii (false, true, false, false, true,
       true, true, false)), (String ((Ascii (true, false, false, true, false,
       true, true, false)), EmptyString))))))))))
  then Some
         (vresS
           (capri (getQ (nth O a0 (VZ Z0))) (getQ (nth (S O) a0 (VZ Z0)))
             (getQ (nth (S (S O)) a0 (VZ Z0)))))
  else if eqb1 cmd (String ((Ascii (true, true, false, false, false, true,
            true, false)), (String ((Ascii (true, false, false, false, false,
            true, true, false)), (String ((Ascii (false, false, false, false,
            true, true, true, false)), (String ((Ascii (false, true, false,
            false, true, true, true, false)), (String ((Ascii (true, false,
            false, true, false, true, true, false)), (String ((Ascii (true,
            true, true, true, true, false, true, false)), (String ((Ascii
            (true, true, false, false, true, true, true, false)), (String
            ((Ascii (true, false, false, true, true, true, true, false)),
            (String ((Ascii (true, true, false, false, true, true, true,
            false)), EmptyString))))))))))))))))))
       then Some
              (vresS
                (capri_src (getQ (nth O a0 (VZ Z0)))
                  (getQ (nth (S O) a0 (VZ Z0)))
                  (getQ (nth (S (S O)) a0 (VZ Z0)))
                  (getS (nth (S (S (S O))) a0 (VZ Z0)))))
       else if eqb1 cmd (String ((Ascii (true, true, false, false, true,
                 true, true, false)), (String ((Ascii (false, false, false,
                 false, true, true, true, false)), (String ((Ascii (true,
                 false, true, false, false, true, true, false)), (String
                 ((Ascii (true, true, false, false, false, true, true,
                 false)), (String ((Ascii (false, true, true, true, false,
                 true, false, false)), (String ((Ascii (true, true, false,
                 false, false, true, true, false)), (String ((Ascii (true,
                 false, false, false, false, true, true, false)), (String
                 ((Ascii (false, false, false, false, true, true, true,
                 false)), (String ((Ascii (false, true, false, false, true,
                 true, true, false)), (String ((Ascii (true, false, false,
                 true, false, true, true, false)),
                 EmptyString))))))))))))))))))))
            then Some
                   (vOk (VS
                     (class_name
                       (capri_spec (getQ (nth O a0 (VZ Z0)))
                         (getQ (nth (S O) a0 (VZ Z0)))
                         (getQ (nth (S (S O)) a0 (VZ Z0)))))))
            else if eqb1 cmd (String ((Ascii (false, false, true, false,
                      false, true, true, false)), (String ((Ascii (true,
                      true, true, true, false, true, true, false)), (String
                      ((Ascii (true, true, false, false, false, true, true,
                      false)), (String ((Ascii (true, true, false, true,
                      false, true, true, false)), (String ((Ascii (true,
                      false, false, false, true, true, true, false)),
                      EmptyString))))))))))
                 then Some
                        (vQ
                          (dockq (getQ (nth O a0 (VZ Z0)))
                            (getQ (nth (S O) a0 (VZ Z0)))
                            (getQ (nth (S (S O)) a0 (VZ Z0)))
                            (getQ (nth (S (S (S O))) a0 (VZ Z0)))
                            (getQ (nth (S (S (S (S O)))) a0 (VZ Z0)))))
                 else if eqb1 cmd (String ((Ascii (false, false, true, false,
                           false, true, true, false)), (String ((Ascii (true,
                           true, true, true, false, true, true, false)),
                           (String ((Ascii (true, true, false, false, false,
                           true, true, false)), (String ((Ascii (true, true,
                           false, true, false, true, true, false)), (String
                           ((Ascii (true, false, false, false, true, true,
                           true, false)), (String ((Ascii (true, true, true,
                           true, true, false, true, false)), (String ((Ascii
                           (false, true, false, false, true, true, true,
                           false)), (String ((Ascii (true, false, false,
                           false, false, true, true, false)), (String ((Ascii
                           (true, true, true, false, true, true, true,
                           false)), EmptyString))))))))))))))))))
                      then Some
                             (vQ
                               (qred
                                 (dockq_raw_src (getQ (nth O a0 (VZ Z0)))
                                   (getQ (nth (S O) a0 (VZ Z0)))
                                   (getQ (nth (S (S O)) a0 (VZ Z0)))
                                   (getQ (nth (S (S (S O))) a0 (VZ Z0)))
                                   (getQ (nth (S (S (S (S O)))) a0 (VZ Z0))))))
                      else if eqb1 cmd (String ((Ascii (true, true, false,
                                false, true, true, true, false)), (String
                                ((Ascii (false, false, false, false, true,
                                true, true, false)), (String ((Ascii (true,
                                false, true, false, false, true, true,
                                false)), (String ((Ascii (true, true, false,
                                false, false, true, true, false)), (String
                                ((Ascii (false, true, true, true, false,
                                true, false, false)), (String ((Ascii (false,
                                false, true, false, false, true, true,
                                false)), (String ((Ascii (true, true, true,
                                true, false, true, true, false)), (String
                                ((Ascii (true, true, false, false, false,
                                true, true, false)), (String ((Ascii (true,
                                true, false, true, false, true, true,
                                false)), (String ((Ascii (true, false, false,
                                false, true, true, true, false)),
                                EmptyString))))))))))))))))))))
                           then Some
                                  (vQ
                                    (round_dec (S (S (S (S (S (S O))))))
                                      (dockq_formula
                                        (getQ (nth O a0 (VZ Z0)))
                                        (getQ (nth (S O) a0 (VZ Z0)))
                                        (getQ (nth (S (S O)) a0 (VZ Z0)))
                                        (getQ (nth (S (S (S O))) a0 (VZ Z0)))
                                        (getQ
                                          (nth (S (S (S (S O)))) a0 (VZ Z0))))))
                           else if eqb1 cmd (String ((Ascii (false, false,
                                     true, false, false, true, true, false)),
                                     (String ((Ascii (true, true, true, true,
                                     false, true, true, false)), (String
                                     ((Ascii (true, true, false, false,
                                     false, true, true, false)), (String
                                     ((Ascii (true, true, false, true, false,
                                     true, true, false)), (String ((Ascii
                                     (true, false, false, false, true, true,
                                     true, false)), (String ((Ascii (true,
                                     true, true, true, true, false, true,
                                     false)), (String ((Ascii (false, false,
                                     true, false, false, true, true, false)),
                                     (String ((Ascii (true, false, true,
                                     false, false, true, true, false)),
                                     (String ((Ascii (false, true, true,
                                     false, false, true, true, false)),
                                     (String ((Ascii (true, false, false,
                                     false, false, true, true, false)),
                                     (String ((Ascii (true, false, true,
                                     false, true, true, true, false)),
                                     (String ((Ascii (false, false, true,
                                     true, false, true, true, false)),
                                     (String ((Ascii (false, false, true,
                                     false, true, true, true, false)),
                                     (String ((Ascii (true, true, false,
                                     false, true, true, true, false)),
                                     EmptyString))))))))))))))))))))))))))))
                                then Some (VL
                                       ((vQ dockq_d1_src) :: ((vQ
                                                                dockq_d2_src) :: [])))
                                else None

(** val run : v -> v **)

let run = function
| VL l ->
  (match l with
   | [] ->
     vErr (String ((Ascii (false, true, false, false, false, true, true,
       false)), (String ((Ascii (true, false, false, false, false, true,
       true, false)), (String ((Ascii (false, false, true, false, false,
       true, true, false)), (String ((Ascii (true, false, true, true, false,
       true, false, false)), (String ((Ascii (false, true, false, false,
       true, true, true, false)), (String ((Ascii (true, false, true, false,
       false, true, true, false)), (String ((Ascii (true, false, false,
       false, true, true, true, false)), (String ((Ascii (true, false, true,
       false, true, true, true, false)), (String ((Ascii (true, false, true,
       false, false, true, true, false)), (String ((Ascii (true, true, false,
       false, true, true, true, false)), (String ((Ascii (false, false, true,
       false, true, true, true, false)), EmptyString))))))))))))))))))))))
   | v1 :: args ->
     (match v1 with
      | VS cmd ->
        (match run_scores cmd args with
         | Some r -> r
         | None ->
           (match run_parse cmd args with
            | Some r -> r
            | None ->
              (match run_export cmd args with
               | Some r -> r
               | None ->
                 (match run_many cmd args with
                  | Some r -> r
                  | None ->
                    (match run_store cmd args with
                     | Some r -> r
                     | None ->
                       (match run_superpose cmd args with
                        | Some r -> r
                        | None ->
                          (match run_sql cmd args with
                           | Some r -> r
                           | None ->
                             vErr (String ((Ascii (true, false, true, false,
                               true, true, true, false)), (String ((Ascii
                               (false, true, true, true, false, true, true,
                               false)), (String ((Ascii (true, true, false,
                               true, false, true, true, false)), (String
                               ((Ascii (false, true, true, true, false, true,
                               true, false)), (String ((Ascii (true, true,
                               true, true, false, true, true, false)),
                               (String ((Ascii (true, true, true, false,
                               true, true, true, false)), (String ((Ascii
                               (false, true, true, true, false, true, true,
                               false)), (String ((Ascii (true, false, true,
                               true, false, true, false, false)), (String
                               ((Ascii (true, true, false, false, false,
                               true, true, false)), (String ((Ascii (true,
                               true, true, true, false, true, true, false)),
                               (String ((Ascii (true, false, true, true,
                               false, true, true, false)), (String ((Ascii
                               (true, false, true, true, false, true, true,
                               false)), (String ((Ascii (true, false, false,
                               false, false, true, true, false)), (String
                               ((Ascii (false, true, true, true, false, true,
                               true, false)), (String ((Ascii (false, false,
                               true, false, false, true, true, false)),
                               EmptyString)))))))))))))))))))))))))))))))))))))
      | _ ->
        vErr (String ((Ascii (false, true, false, false, false, true, true,
          false)), (String ((Ascii (true, false, false, false, false, true,
          true, false)), (String ((Ascii (false, false, true, false, false,
          true, true, false)), (String ((Ascii (true, false, true, true,
          false, true, false, false)), (String ((Ascii (false, true, false,
          false, true, true, true, false)), (String ((Ascii (true, false,
          true, false, false, true, true, false)), (String ((Ascii (true,
          false, false, false, true, true, true, false)), (String ((Ascii
          (true, false, true, false, true, true, true, false)), (String
          ((Ascii (true, false, true, false, false, true, true, false)),
          (String ((Ascii (true, true, false, false, true, true, true,
          false)), (String ((Ascii (false, false, true, false, true, true,
          true, false)), EmptyString))))))))))))))))))))))))
| _ ->
  vErr (String ((Ascii (false, true, false, false, false, true, true,
    false)), (String ((Ascii (true, false, false, false, false, true, true,
    false)), (String ((Ascii (false, false, true, false, false, true, true,
    false)), (String ((Ascii (true, false, true, true, false, true, false,
    false)), (String ((Ascii (false, true, false, false, true, true, true,
    false)), (String ((Ascii (true, false, true, false, false, true, true,
    false)), (String ((Ascii (true, false, false, false, true, true, true,
    false)), (String ((Ascii (true, false, true, false, true, true, true,
    false)), (String ((Ascii (true, false, true, false, false, true, true,
    false)), (String ((Ascii (true, true, false, false, true, true, true,
    false)), (String ((Ascii (false, false, true, false, true, true, true,
    false)), EmptyString))))))))))))))))))))))
