(* Run_sql.v — wire decoding/encoding and the commands of cluster sql (C03, C04, C17).
   A request carries a database and a list of operations (a session): the database is decoded
   once, operations are applied in order, one result per operation.

   sql.session       db ops   : the model            spec.sql.session  db ops : the specification
   sql.f11_class     db tablename kw      /  sql.f10_class kw   (finding classes of C17)      *)
From Verif Require Import PyLib ModelTypes Generated_parse Model_sqlval Model_sql Spec_sql.
Open Scope string_scope.

(* ---- decoding ---- *)
Definition dec_val (v : V) : val :=
  match v with
  | VL [VS "i"; VZ z] => VInt z
  | VL [VS "r"; VZ n; VZ (Zpos p)] => VReal (Qred (Qmake n p))
  | VL [VS "t"; VS s] => VText s
  | VL [VS "b"] => VBlob
  | _ => VNull
  end.
Definition dec_pv (v : V) : pv :=
  match v with
  | VL [VS "i"; VZ z] => PInt z
  | VL [VS "f"; VZ n; VZ (Zpos p)] => PFloat (Qmake n p)
  | VL [VS "s"; VS s] => PStr s
  | _ => PNone
  end.
Definition dec_cval (v : V) : cval :=
  match v with
  | VL [VS "L"; VL l] => CList (map dec_pv l)
  | VL [VS "S"; x] => CScalar (dec_pv x)
  | _ => CScalar PNone
  end.
Definition dec_kw (v : V) : conds :=
  map (fun c => (getS (nthV 0 c), dec_cval (nthV 1 c))) (getL v).
Definition dec_uval (v : V) : uval :=
  match v with
  | VL [VS "R"; VL l] => URow (map dec_pv l)
  | VL [VS "T"; VS s] => UStr s
  | VL [VS "X"; x] => UScalar (dec_pv x)
  | _ => UScalar PNone
  end.
Definition dec_index (v : V) : option (list pv) :=
  match v with VL [VS "some"; VL l] => Some (map dec_pv l) | _ => None end.
Definition dec_table (v : V) : string * table :=
  (getS (nthV 0 v),
   mkTable (map (fun c => (getS (nthV 0 c), getS (nthV 1 c))) (getL (nthV 1 v)))
           (map (fun r => map dec_val (getL r)) (getL (nthV 2 v)))).
Definition dec_db (v : V) : db :=
  mkDb (map dec_table (getL (nthV 0 v))) (Z.to_nat (getZ (nthV 1 v))).

(* ---- encoding ---- *)
Definition enc_val (v : val) : V :=
  match v with
  | VInt z => VL [VS "i"; VZ z]
  | VReal q => VL [VS "r"; VZ (Qnum (Qred q)); VZ (Zpos (Qden (Qred q)))]
  | VText s => VL [VS "t"; VS s]
  | VBlob => VL [VS "b"]
  | VNull => VL [VS "n"]
  end.
Fixpoint enc_pyv (v : pyv) : V :=
  match v with
  | PV x => enc_val x
  | PL l => VL (VS "L" :: map enc_pyv l)
  end.
Definition enc_out (r : res (list pyv)) : V :=
  match r with Ok l => VOk (VL (map enc_pyv l)) | Err e => VErr e end.
Definition enc_table (nt : string * table) : V :=
  VL [VS (fst nt);
      VL (map (fun c : string * string => VL [VS (fst c); VS (snd c)]) (tcols (snd nt)));
      VL (map (fun r : row => VL (map enc_val r)) (trows (snd nt)))].
Definition enc_db (d : db) : V := VL [VL (map enc_table (tables d)); VZ (Z.of_nat (nmodel d))].
Definition enc_status (e : option string) : V :=
  match e with None => VL [VS "OK"] | Some s => VErr s end.

(* ---- one operation ---- *)
Record engine := mkEngine {
  e_get : db -> string -> string -> conds -> res (list pyv);
  e_xyz : db -> string -> conds -> res (list pyv);
  e_residues : db -> string -> conds -> res (list (list val));
  e_chains : db -> string -> conds -> res (list string);
  e_get_all : db -> string -> conds -> res (list pyv);
  e_step : db -> op -> ures;
  e_is_spec : bool }.
Definition model_engine : engine :=
  mkEngine get_top get_xyz_model get_residues_model get_chains_model get_all_model model_step false.
Definition spec_engine : engine :=
  mkEngine spec_get spec_get_xyz spec_get_residues spec_get_chains spec_get_all spec_step true.

Definition a (n : nat) (l : list V) : V := nth n l (VZ 0).
Definition run_op (E : engine) (d : db) (o : V) : db * V :=
  match o with
  | VL (VS kind :: args) =>
    if kind =? "get" then (d, enc_out (e_get E d (getS (a 0 args)) (getS (a 1 args)) (dec_kw (a 2 args))))
    else if kind =? "xyz" then (d, enc_out (e_xyz E d (getS (a 0 args)) (dec_kw (a 1 args))))
    else if kind =? "residues" then
      (d, match e_residues E d (getS (a 0 args)) (dec_kw (a 1 args)) with
          | Ok l => VOk (VL (map (fun r : list val => VL (map enc_val r)) l)) | Err e => VErr e end)
    else if kind =? "chains" then
      (d, match e_chains E d (getS (a 0 args)) (dec_kw (a 1 args)) with
          | Ok l => VOk (VL (map VS l)) | Err e => VErr e end)
    else if kind =? "get_all" then (d, enc_out (e_get_all E d (getS (a 0 args)) (dec_kw (a 1 args))))
    else if kind =? "colnames" then
      (d, match valid_colnames d with Ok l => VOk (VL (map VS l)) | Err e => VErr e end)
    else if kind =? "dump" then (d, enc_db d)
    else if kind =? "classes" then
      (* C17 finding classes of the query (tablename, kw) in the current state; specification side only *)
      (d, if e_is_spec E then VL [VB (f10_class (dec_kw (a 1 args)));
                                  VB (if getS (a 0 args) =? "*"
                                      then existsb (fun nt : string * table => f11_class d (fst nt) (dec_kw (a 1 args))) (tables d)
                                      else f11_class d (getS (a 0 args)) (dec_kw (a 1 args)))]
          else VL [])
    else
      let o' :=
        if kind =? "update" then
          Some (OpUpdate (getS (a 0 args)) (map dec_uval (getL (a 1 args))) (getS (a 2 args)) (dec_kw (a 3 args)))
        else if kind =? "update_column" then
          Some (OpUpdateColumn (getS (a 0 args)) (map dec_pv (getL (a 1 args))) (dec_index (a 2 args)) (getS (a 3 args)))
        else if kind =? "update_xyz" then
          Some (OpUpdateXyz (map dec_uval (getL (a 0 args))) (getS (a 1 args)) (dec_kw (a 2 args)))
        else if kind =? "add_column" then
          Some (OpAddColumn (getS (a 0 args)) (getS (a 1 args)) (dec_pv (a 2 args)) (getS (a 3 args)))
        else if kind =? "fix_chainID" then Some OpFixChainID
        else None in
      match o' with
      | Some x => let '(d', e) := e_step E d x in (d', enc_status e)
      | None => (d, VErr "unknown-op")
      end
  | _ => (d, VErr "bad-op")
  end.
Fixpoint run_ops (E : engine) (d : db) (ops : list V) : list V :=
  match ops with
  | [] => []
  | o :: t => let '(d', r) := run_op E d o in r :: run_ops E d' t
  end.

Definition run_sql (cmd : string) (args : list V) : option V :=
  if cmd =? "sql.session" then Some (VL (run_ops model_engine (dec_db (a 0 args)) (getL (a 1 args))))
  else if cmd =? "spec.sql.session" then Some (VL (run_ops spec_engine (dec_db (a 0 args)) (getL (a 1 args))))
  else if cmd =? "spec.sql.f11_class" then
    Some (VB (f11_class (dec_db (a 0 args)) (getS (a 1 args)) (dec_kw (a 2 args))))
  else if cmd =? "sql.schema" then
    Some (VL [VL (map (fun c : string * string => VL [VS (fst c); VS (snd c)]) col_src);
              VZ max_sql_values_src; VZ sql_limit_src])
  else if cmd =? "spec.sql.f10_class" then Some (VB (f10_class (dec_kw (a 0 args))))
  else None.
