(* Spec_rmsd.v — C07: what i-RMSD and L-RMSD are, written from the property statement.
   The specification fixes (i) the zone, (ii) which decoy atom is paired with which reference
   atom (by identity), (iii) which pairs are fitted and which are measured; the value is the
   RMSD of the measured pairs after the rigid motion that is optimal on the fitted pairs
   (the optimum over rotations is property C06; the harness evaluates it numerically). *)
From Verif Require Import PyLib ModelTypes Generated_parse Generated_contact Model_contact Model_superpose Model_rmsd.
Open Scope string_scope.
Open Scope Z_scope.
Open Scope list_scope.

Definition is_backbone (a : atom) : bool := mem String.eqb (name a) ["CA"; "C"; "N"; "O"].
Definition same_residue (a b : atom) : bool :=
  (String.eqb (chain a) (chain b) && Z.eqb (resSeq a) (resSeq b) && String.eqb (resName a) (resName b))%bool.

(* a reference atom is an interface atom when some atom of ANOTHER chain lies within the cutoff *)
Definition interface_atom (cutoff : Q) (ref : structure) (a : atom) : bool :=
  existsb (fun b => (negb (String.eqb (chain a) (chain b)) && Qleb (dist2 a b) (cutoff * cutoff)%Q)%bool) ref.
(* zone: residues of the reference that have any atom within the cutoff of the partner chain
   (and carry at least one backbone atom — residues without one contribute nothing to the measure) *)
Definition izone_spec (cutoff : Q) (ref : structure) : zone :=
  sorted_set_cz
    (map (fun a => (chain a, resSeq a))
         (filter (fun a => (is_backbone a && existsb (fun b => (same_residue a b && interface_atom cutoff ref b)%bool) ref)%bool) ref)).

Definition in_zone (z : zone) (a : atom) : bool := mem cz_eqb (chain a, resSeq a) z.
(* identity of an atom across the two structures: (chain, residue number, atom name) *)
Definition same_atom (a b : atom) : bool := key3_eqb (key3_of a) (key3_of b).
(* identity-paired common atoms among the reference atoms satisfying [sel], in reference order *)
Definition identity_pairs (sel : atom -> bool) (decoy ref : structure) : list (vec * vec) :=
  flat_map (fun r => if sel r then
                       match find (same_atom r) decoy with Some d => [(pos_of d, pos_of r)] | None => [] end
                     else []) ref.

(* i-RMSD: fit and measure on the common backbone atoms of the zone residues *)
Definition irmsd_pairs_spec (z : zone) (decoy ref : structure) : list (vec * vec) :=
  identity_pairs (fun r => (is_backbone r && in_zone z r)%bool) decoy ref.

(* L-RMSD: fit on the common backbone atoms of the longer chain, measure on those of the shorter.
   "longer" = more atoms in the reference (the property quantifies over unambiguous chain sizes) *)
Definition long_chain_spec (ref : structure) : option (string * string) :=     (* (long, short) *)
  match get_chains ref with
  | [c1; c2] =>
    if Nat.ltb (List.length (chain_atoms ref c1)) (List.length (chain_atoms ref c2)) then Some (c2, c1) else Some (c1, c2)
  | _ => None
  end.
Definition lrmsd_pairs_spec (names : list string) (decoy ref : structure)
  : option (list (vec * vec) * list (vec * vec)) :=                              (* (fit, measure) *)
  match long_chain_spec ref with
  | Some (lc, sc) =>
    Some (identity_pairs (fun r => (mem String.eqb (name r) names && String.eqb (chain r) lc)%bool) decoy ref,
          identity_pairs (fun r => (mem String.eqb (name r) names && String.eqb (chain r) sc)%bool) decoy ref)
  | None => None
  end.

(* the stated domain: keys unique within a structure, residue names consistent between the two *)
Fixpoint unique_key3 (s : structure) : bool :=
  match s with [] => true | a :: t => (negb (existsb (same_atom a) t) && unique_key3 t)%bool end.
Definition consistent_resnames (decoy ref : structure) : bool :=
  forallb (fun d => forallb (fun r => (negb (String.eqb (chain d) (chain r) && Z.eqb (resSeq d) (resSeq r)) || String.eqb (resName d) (resName r))%bool) ref) decoy.

(* reported to 0.001: r (in thousandths, k/1000) is the rounding of sqrt(msd) *)
Definition reported_ok (k : Z) (msd_q slack : Q) : bool :=
  let lo := (inject_Z k - (1#2) - slack)%Q in let hi := (inject_Z k + (1#2) + slack)%Q in
  ((Qleb lo 0 || Qleb (lo * lo) (msd_q * 1000000)) && Qleb (msd_q * 1000000) (hi * hi))%bool.
