(* Proofs_roundtrip.v — C02: the whole-row round trip.  The parser's model (C01; regenerated column table, defaults,
   guards) applied to the exported line of a fitting row returns the row itself in every integer and text attribute
   and, in every numeric attribute, the printed decimal rounded once to binary64. *)
From Coq Require Import Lia Lqa.
From Verif Require Import PyLib PyLibFacts ModelTypes Generated_parse Model_parse Generated_export Model_export Spec_parse Spec_export
  Proofs_text Proofs_digits Proofs_numtext Proofs_zone Proofs_export Proofs_export2 Proofs_reparse Proofs_reread.
Open Scope Q_scope.

Notation blanks n := (repeat_char " "%char n).

(* ---- strip() of a value padded with blanks ---- *)
Definition no_edge_space (s : string) : Prop := lstrip s = s /\ lstrip (rev_str "" s) = rev_str "" s.
Lemma lstrip_blanks n s : lstrip (blanks n ++ s) = lstrip s.
Proof. induction n as [|n IH]; cbn; [reflexivity | exact IH]. Qed.
Lemma lstrip_only_blanks n : lstrip (blanks n) = "".
Proof. induction n; cbn; auto. Qed.
Lemma lstrip_length_le s : (String.length (lstrip s) <= String.length s)%nat.
Proof. induction s as [|d u IH]; cbn; [lia|]. destruct (is_space d); cbn; lia. Qed.
Lemma lstrip_same_length s : String.length (lstrip s) = String.length s -> lstrip s = s.
Proof.
  destruct s as [|c t]; cbn; [reflexivity|]. destruct (is_space c); [|reflexivity].
  intro H. pose proof (lstrip_length_le t). lia.
Qed.
Lemma strip_padded l r s : no_edge_space s -> strip (blanks l ++ s ++ blanks r) = s.
Proof.
  intros [H1 H2]. unfold strip, rstrip. rewrite lstrip_blanks.
  destruct s as [|c t].
  - cbn [append]. rewrite lstrip_only_blanks. reflexivity.
  - assert (Hc : is_space c = false).
    { cbn in H1. destruct (is_space c) eqn:E; [|reflexivity].
      exfalso. pose proof (lstrip_length_le t) as L. rewrite H1 in L. cbn in L. lia. }
    assert (E1 : lstrip (String c t ++ blanks r) = (String c t ++ blanks r)%string) by (cbn; rewrite Hc; reflexivity).
    rewrite E1, rev_app_s, rev_blanks, lstrip_blanks, H2. apply rev_str_involutive.
Qed.
Lemma stripped_no_edge_space s : strip s = s -> no_edge_space s.
Proof.
  unfold strip, rstrip. intro H.
  assert (L : String.length (rev_str "" (lstrip (rev_str "" (lstrip s)))) = String.length s) by (rewrite H; reflexivity).
  rewrite !rev_str_length in L. cbn in L.
  pose proof (lstrip_length_le (rev_str "" (lstrip s))) as A. rewrite rev_str_length in A. cbn in A.
  pose proof (lstrip_length_le s) as B.
  assert (E1 : lstrip s = s) by (apply lstrip_same_length; lia).
  split; [exact E1|]. rewrite E1 in *. apply lstrip_same_length. rewrite rev_str_length. cbn. lia.
Qed.

(* ---- one text / integer field ---- *)
Lemma text_field_reread line col a b l r s :
  assoc col delimiter_src = Some (a, b) -> substring a (b - a) line = (blanks l ++ s ++ blanks r)%string ->
  strip s = s -> (s <> ""%string \/ assoc col blank_defaults_src = None) ->
  parse_field line col "TEXT" = Ok (Some (VText s)).
Proof.
  intros Hd Hs St Hne. unfold parse_field. rewrite Hd. unfold slice. rewrite Hs, (strip_padded l r s (stripped_no_edge_space s St)).
  change (String.eqb "TEXT" int_tag_src) with false. change (String.eqb "TEXT" real_tag_src) with false.
  destruct s as [|c t].
  - destruct Hne as [Hne|Hne]; [contradiction Hne; reflexivity|]. cbn [str_nonempty]. rewrite Hne. reflexivity.
  - reflexivity.
Qed.

Lemma int_field_reread line col a b w z :
  assoc col delimiter_src = Some (a, b) -> substring a (b - a) line = rjust w (str_of_Z z) ->
  parse_field line col "INT" = Ok (Some (VInt z)).
Proof.
  intros Hd Hs. unfold parse_field. rewrite Hd. unfold slice. rewrite Hs. unfold rjust.
  rewrite (strip_blanks_left _ _ (nospace_str_of_Z z)).
  assert (NE : str_nonempty (str_of_Z z) = true).
  { unfold str_of_Z. destruct (Z.ltb_spec z 0) as [Hz|Hz]; [reflexivity|].
    destruct (digits_spec z Hz) as [_ [_ [L _]]]. destruct (digits z); [cbn in L; lia | reflexivity]. }
  rewrite NE. cbn [bind]. change (String.eqb "INT" int_tag_src) with true. cbn iota.
  pose proof (parse_int_str_of_Z z) as P. rewrite P. reflexivity.
Qed.

(* ---- the pieces of the layout, read back through the column table ---- *)
Lemma int_col_reread d line col k i a b w z :
  fits d = true -> line_of_row d = Ok line ->
  nth_error export_layout_src k = Some (PField i ARight w) -> offset k = a -> (b - a)%nat = w ->
  assoc col delimiter_src = Some (a, b) -> nth i d VNull = VInt z ->
  parse_field line col "INT" = Ok (Some (VInt z)).
Proof.
  intros Hf Hl Hk Ha Hb Hd Hz.
  destruct (piece_in_its_columns d line k _ Hf Hl Hk) as [s [Er [_ Es]]].
  cbn [render_piece] in Er. rewrite Hz in Er. cbn [render_plain bind justify] in Er. apply Ok_inj_s in Er. subst s.
  cbn [piece_len] in Es. rewrite Ha in Es. rewrite <- Hb in Es.
  apply (int_field_reread line col a b (b - a) z Hd Es).
Qed.

Lemma text_col_reread d line col k i a b w s :
  fits d = true -> line_of_row d = Ok line ->
  nth_error export_layout_src k = Some (PField i ARight w) -> offset k = a -> (b - a)%nat = w ->
  assoc col delimiter_src = Some (a, b) -> nth i d VNull = VText s ->
  strip s = s -> (s <> ""%string \/ assoc col blank_defaults_src = None) ->
  parse_field line col "TEXT" = Ok (Some (VText s)).
Proof.
  intros Hf Hl Hk Ha Hb Hd Hs St Hne.
  destruct (piece_in_its_columns d line k _ Hf Hl Hk) as [t [Er [_ Es]]].
  cbn [render_piece] in Er. rewrite Hs in Er. cbn [render_plain bind justify] in Er. apply Ok_inj_s in Er. subst t.
  cbn [piece_len] in Es. rewrite Ha in Es. rewrite <- Hb in Es. rewrite rjust_blanks in Es.
  apply (text_field_reread line col a b _ _ s Hd Es St Hne).
Qed.

Lemma spec_atomname_padded nm el : (1 <= String.length nm <= 4)%nat ->
  exists l r, spec_atomname nm el = (blanks l ++ nm ++ blanks r)%string.
Proof.
  intro H. unfold spec_atomname.
  destruct (Nat.eqb (String.length nm) 4).
  - exists 0%nat, 0%nat. cbn. rewrite app_nil_r_s. reflexivity.
  - destruct ((Nat.eqb (String.length nm) 2 && String.eqb nm el) || (Nat.eqb (String.length nm) 3 && is_digit match nm with String c _ => c | _ => " "%char end))%bool.
    + exists 0%nat, (4 - String.length nm)%nat. reflexivity.
    + exists 1%nat, (3 - String.length nm)%nat. reflexivity.
Qed.

Lemma fits_text_shape lo hi v : fits_text lo hi v = true ->
  exists s, v = VText s /\ (lo <= String.length s <= hi)%nat.
Proof.
  unfold fits_text. destruct v as [z|q|s| |]; try discriminate. intro H. exists s. split; [reflexivity|].
  apply andb_prop in H. destruct H as [H _]. apply andb_prop in H. destruct H as [A B].
  apply Nat.leb_le in A. apply Nat.leb_le in B. lia.
Qed.
Lemma fits_int_shape lo hi v : fits_int lo hi v = true -> exists z, v = VInt z.
Proof. unfold fits_int. destruct v as [z|q|s| |]; try discriminate. intros _. exists z. reflexivity. Qed.

Lemma name_col_reread d line nm el :
  fits d = true -> line_of_row d = Ok line -> nth 1 d VNull = VText nm -> nth 12 d VNull = VText el ->
  strip nm = nm -> parse_field line "name" "TEXT" = Ok (Some (VText nm)).
Proof.
  intros Hf Hl Hn He St.
  destruct (piece_in_its_columns d line 3 PAtomName Hf Hl eq_refl) as [t [Er [_ Es]]].
  assert (Hlen : (1 <= String.length nm <= 4)%nat).
  { pose proof Hf as Hf0. unfold fits in Hf0. repeat (apply andb_prop in Hf0; destruct Hf0 as [Hf0 ?]).
    match goal with H : fits_text 1 4 (nth 1 d VNull) = true |- _ =>
      destruct (fits_text_shape _ _ _ H) as [s' [E' L']]; rewrite Hn in E'; inversion E'; subst s'; exact L' end. }
  cbn [render_piece] in Er. rewrite Hn, He in Er. cbn [text_of bind] in Er.
  rewrite (format_atomname_spec nm el Hlen) in Er. apply Ok_inj_s in Er. subst t.
  destruct (spec_atomname_padded nm el Hlen) as [l [r E]]. rewrite E in Es.
  apply (text_field_reread line "name" 12 16 l r nm eq_refl Es St).
  left. destruct nm; [cbn in Hlen; lia | discriminate].
Qed.

(* ---- the row that is read back ---- *)
Definition reread_coord (v : val) : val :=
  match real_of v with Some q => VReal (b64 (printed_value (xyz_decimals q) q)) | None => VNull end.
Definition reread_real2 (v : val) : val :=
  match real_of v with Some q => VReal (b64 (printed_value 2 q)) | None => VNull end.
Definition reread_row (d : row) (nmodel : Z) : row :=
  [nth 0 d VNull; nth 1 d VNull; nth 2 d VNull; nth 3 d VNull; nth 4 d VNull; nth 5 d VNull; nth 6 d VNull;
   reread_coord (nth 7 d VNull); reread_coord (nth 8 d VNull); reread_coord (nth 9 d VNull);
   reread_real2 (nth 10 d VNull); reread_real2 (nth 11 d VNull); nth 12 d VNull; VInt nmodel].

(* text attributes that str.strip() leaves alone, and a chain identifier that is not empty (F24) *)
Definition text_stripped (v : val) : Prop := match v with VText s => strip s = s | _ => True end.
Definition rereadable (d : row) : Prop :=
  text_stripped (nth 1 d VNull) /\ text_stripped (nth 2 d VNull) /\ text_stripped (nth 3 d VNull) /\
  text_stripped (nth 4 d VNull) /\ text_stripped (nth 6 d VNull) /\ text_stripped (nth 12 d VNull) /\
  nth 4 d VNull <> VText "".

Lemma nonempty_of_length s : (1 <= String.length s)%nat -> s <> ""%string.
Proof. destruct s; cbn; [lia | discriminate]. Qed.

Theorem row_roundtrip d line nmodel : fits d = true -> rereadable d -> line_of_row d = Ok line ->
  parse_record nmodel line = Ok (reread_row d nmodel).
Proof.
  intros Hf [S1 [S2 [S3 [S4 [S6 [S12 NE4]]]]]] Hl.
  pose proof Hf as Hf0. unfold fits in Hf0. repeat (apply andb_prop in Hf0; destruct Hf0 as [Hf0 ?]).
  assert (I0 : exists z, nth 0 d VNull = VInt z) by (eapply fits_int_shape; eassumption).
  assert (I5 : exists z, nth 5 d VNull = VInt z).
  { match goal with H : fits_int _ _ (nth 5 d VNull) = true |- _ => exact (fits_int_shape _ _ _ H) end. }
  assert (T1 : exists s, nth 1 d VNull = VText s /\ (1 <= String.length s <= 4)%nat).
  { match goal with H : fits_text _ _ (nth 1 d VNull) = true |- _ => exact (fits_text_shape _ _ _ H) end. }
  assert (T2 : exists s, nth 2 d VNull = VText s /\ (0 <= String.length s <= 1)%nat).
  { match goal with H : fits_text _ _ (nth 2 d VNull) = true |- _ => exact (fits_text_shape _ _ _ H) end. }
  assert (T3 : exists s, nth 3 d VNull = VText s /\ (1 <= String.length s <= 3)%nat).
  { match goal with H : fits_text _ _ (nth 3 d VNull) = true |- _ => exact (fits_text_shape _ _ _ H) end. }
  assert (T4 : exists s, nth 4 d VNull = VText s /\ (0 <= String.length s <= 1)%nat).
  { match goal with H : fits_text _ _ (nth 4 d VNull) = true |- _ => exact (fits_text_shape _ _ _ H) end. }
  assert (T6 : exists s, nth 6 d VNull = VText s /\ (0 <= String.length s <= 1)%nat).
  { match goal with H : fits_text _ _ (nth 6 d VNull) = true |- _ => exact (fits_text_shape _ _ _ H) end. }
  assert (T12 : exists s, nth 12 d VNull = VText s /\ (1 <= String.length s <= 2)%nat).
  { match goal with H : fits_text _ _ (nth 12 d VNull) = true |- _ => exact (fits_text_shape _ _ _ H) end. }
  destruct I0 as [z0 E0]. destruct I5 as [z5 E5]. destruct T1 as [nm [E1 L1]]. destruct T2 as [al [E2 L2]].
  destruct T3 as [rn [E3 L3]]. destruct T4 as [ch [E4 L4]]. destruct T6 as [ic [E6 L6]]. destruct T12 as [el [E12 L12]].
  rewrite E1 in S1. rewrite E2 in S2. rewrite E3 in S3. rewrite E4 in S4, NE4. rewrite E6 in S6. rewrite E12 in S12.
  cbn [text_stripped] in *.
  (* the line is 80 columns: the guard lets it through unchanged *)
  destruct (line_80 d Hf) as [line' [Hl' Hlen]]. rewrite Hl in Hl'. apply Ok_inj_s in Hl'. subst line'.
  unfold parse_record. unfold linelength_src. rewrite Hlen. cbn [Nat.ltb Nat.leb bind].
  (* every column *)
  pose proof (int_col_reread d line "serial" 1 0 6 11 5 z0 Hf Hl eq_refl eq_refl eq_refl eq_refl E0) as P0.
  pose proof (name_col_reread d line nm el Hf Hl E1 E12 S1) as P1.
  pose proof (text_col_reread d line "altLoc" 4 2 16 17 1 al Hf Hl eq_refl eq_refl eq_refl eq_refl E2 S2 (or_intror eq_refl)) as P2.
  assert (N3 : rn <> ""%string) by (apply nonempty_of_length, L3).
  pose proof (text_col_reread d line "resName" 5 3 17 20 3 rn Hf Hl eq_refl eq_refl eq_refl eq_refl E3 S3 (or_introl N3)) as P3.
  assert (N4 : ch <> ""%string) by (intro X; apply NE4; rewrite X; reflexivity).
  pose proof (text_col_reread d line "chainID" 7 4 21 22 1 ch Hf Hl eq_refl eq_refl eq_refl eq_refl E4 S4 (or_introl N4)) as P4.
  pose proof (int_col_reread d line "resSeq" 8 5 22 26 4 z5 Hf Hl eq_refl eq_refl eq_refl eq_refl E5) as P5.
  pose proof (text_col_reread d line "iCode" 9 6 26 27 1 ic Hf Hl eq_refl eq_refl eq_refl eq_refl E6 S6 (or_intror eq_refl)) as P6.
  assert (N12 : el <> ""%string) by (apply nonempty_of_length, L12).
  pose proof (text_col_reread d line "element" 17 12 76 78 2 el Hf Hl eq_refl eq_refl eq_refl eq_refl E12 S12 (or_introl N12)) as P12.
  destruct (coordinates_reread d line Hf Hl "x" 11 7 ltac:(cbn; auto)) as [qx [Rx [Px _]]].
  destruct (coordinates_reread d line Hf Hl "y" 12 8 ltac:(cbn; auto)) as [qy [Ry [Py _]]].
  destruct (coordinates_reread d line Hf Hl "z" 13 9 ltac:(cbn; auto)) as [qz [Rz [Pz _]]].
  destruct (occupancy_bfactor_reread d line Hf Hl "occ" 14 10 ltac:(cbn; auto)) as [qo [Ro [Po _]]].
  destruct (occupancy_bfactor_reread d line Hf Hl "temp" 15 11 ltac:(cbn; auto)) as [qt [Rt [Pt _]]].
  unfold reread_row, reread_coord, reread_real2. rewrite Rx, Ry, Rz, Ro, Rt, E0, E1, E2, E3, E4, E5, E6, E12.
  unfold col_src. cbn [parse_fields].
  rewrite P0, P1, P2, P3, P4, P5, P6, Px, Py, Pz, Po, Pt, P12. cbn [bind].
  change (parse_field line "model" "INT") with (@Ok (option val) None). cbn [bind app]. reflexivity.
Qed.

(* non-vacuity: a concrete row meets the premises of the round-trip theorem *)
Definition sample_row : row :=
  [VInt 17; VText "CA"; VText ""; VText "ALA"; VText "A"; VInt (-3); VText "B"; VReal (11104#1000); VReal (-(6134#1000)); VReal (99999995#10000);
   VReal (1#1); VReal (2376#100); VText "C"; VInt 0].
Example roundtrip_premises_satisfiable : fits sample_row = true /\ rereadable sample_row.
Proof. split; [vm_compute; reflexivity|]. unfold rereadable, sample_row. cbn [nth text_stripped]. repeat split; try (vm_compute; reflexivity). discriminate. Qed.
