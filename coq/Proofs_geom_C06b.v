(* Proofs_geom_C06b.v — the quaternion kernel: U(q) is a rotation, tr(U(q) C) = q^T F(C) q, optimality
   over ALL rotations (through quat_surjective), agreement of the two methods, the guards, and the
   first/second-order certificate of Wahba's problem. *)
From Coq Require Import Reals Lra Psatz Nsatz Lia.
From Verif Require Import Base PyLib Model_geom_num Generated_geom Model_geom Spec_geom Spec_geom_R
  Proofs_geom_alg Proofs_geom_C06 Proofs_geom_quat.
Open Scope R_scope.

Lemma quat_rot_is_rotation q : unit4 q -> is_rotation (quat_rot_src Nr q).
Proof.
  intros Hq. destruct q as [a b c d]. gunf_in Hq. split.
  - gunf. gext; nsatz.
  - gunf. nsatz.
Qed.

(* Horn / Coutsias: the trace to maximise is a quadratic form of the quaternion (for every q) *)
Lemma quat_trace_identity q C :
  mtrace Nr (mmul Nr (quat_rot_src Nr q) C) = quadform4 Nr (quat_F_src Nr C) q.
Proof. gring. Qed.
(* the 4x4 matrix of the code is Horn's matrix of the specification *)
Lemma quat_F_is_horn C : quat_F_src Nr C = horn Nr C.
Proof. destruct C. gunf. f_equal; ring. Qed.

Lemma eigen_quadform F q lam :
  m4vmul Nr F q = V4 (lam * w0 q) (lam * w1 q) (lam * w2 q) (lam * w3 q) -> unit4 q -> quadform4 Nr F q = lam.
Proof.
  intros He Hu. unfold quadform4. rewrite He. destruct q as [a b c d]. gunf_in Hu. gunf.
  replace (a * (lam * a) + b * (lam * b) + c * (lam * c) + d * (lam * d)) with (lam * (a * a + b * b + c * c + d * d)) by ring.
  rewrite Hu. ring.
Qed.

Definition quat_F_of (P Q : list (vec3 R)) : mat4 R := quat_F_src Nr (quat_corr_src Nr P Q).
Theorem quaternion_optimal eig P Q U :
  eig_ok (quat_pick_src Nr) (quat_F_of P Q) (eig (quat_F_of P Q)) -> quaternion Nr eig P Q = Ok U -> optimal U P Q.
Proof.
  intros He H. unfold quaternion in H.
  destruct (negb (Nat.eqb (List.length P) (List.length Q))); [discriminate |].
  destruct (Nat.eqb (List.length P) 0); [discriminate |].
  destruct (quat_uncentred_src Nr P Q); [discriminate |].
  unfold quat_F_of, eig_ok in He.
  destruct (eig (quat_F_src Nr (quat_corr_src Nr P Q))) as [l Um]. injection H as <-.
  destruct He as (lam & Heq & Hu & Hb).
  set (q := m4col Um (quat_pick_src Nr l)) in *.
  pose proof (quat_rot_is_rotation q Hu) as HU.
  split; [exact HU |]. intros R' HR'.
  destruct (quat_surjective R' HR') as (q' & Hu' & <-).
  apply resid_le_iff_trace; [apply HU | apply (quat_rot_is_rotation q' Hu') |].
  unfold quat_corr_src in *. rewrite !quat_trace_identity.
  rewrite (eigen_quadform _ q lam Heq Hu).
  specialize (Hb q'). unfold unit4 in Hu'. rewrite Hu' in Hb. lra.
Qed.

(* the part that does not need surjectivity: optimal among quaternion-parametrised rotations *)
Theorem quaternion_optimal_over_quaternions eig P Q U :
  eig_ok (quat_pick_src Nr) (quat_F_of P Q) (eig (quat_F_of P Q)) -> quaternion Nr eig P Q = Ok U ->
  is_rotation U /\ forall q', unit4 q' -> resid Nr U P Q <= resid Nr (quat_rot_src Nr q') P Q.
Proof.
  intros He H. destruct (quaternion_optimal eig P Q U He H) as [HU Hopt]. split; [exact HU |].
  intros q' Hq'. apply Hopt, quat_rot_is_rotation, Hq'.
Qed.

Lemma optimal_unique_residual U1 U2 P Q : optimal U1 P Q -> optimal U2 P Q -> resid Nr U1 P Q = resid Nr U2 P Q.
Proof. intros [R1 O1] [R2 O2]. apply Rle_antisym; [apply O1, R2 | apply O2, R1]. Qed.

Theorem methods_agree svd eig P Q U1 U2 :
  svd_spec svd -> eig_spec (quat_pick_src Nr) eig ->
  kabsch Nr svd P Q = Ok U1 -> quaternion Nr eig P Q = Ok U2 -> resid Nr U1 P Q = resid Nr U2 P Q.
Proof.
  intros Hs He H1 H2. apply optimal_unique_residual; [eapply kabsch_optimal | eapply quaternion_optimal]; eauto.
Qed.

(* the dispatcher *)
Theorem get_rotation_matrix_optimal svd eig method P Q U :
  svd_spec svd -> eig_spec (quat_pick_src Nr) eig ->
  get_rotation_matrix Nr svd eig method P Q = Ok U -> optimal U P Q.
Proof.
  intros Hs He H. unfold get_rotation_matrix in H.
  destruct (assoc_str (lower method) rotmat_dispatch_src) as [[|] |]; [| | discriminate].
  - eapply kabsch_optimal; eauto.
  - eapply quaternion_optimal; eauto.
Qed.

(* ---- guards ------------------------------------------------------------------------------------ *)
Lemma vany_gt_spec v eps : vany_gt Nr (vabs Nr v) eps = true <-> (eps < Rabs (vx v) \/ eps < Rabs (vy v) \/ eps < Rabs (vz v)).
Proof.
  assert (Habs : forall x, nabs Nr x = Rabs x).
  { intros x. unfold nabs. cbn [nltb nopp NumR n0 nofZ]. unfold Rltb, Rabs.
    destruct (Rlt_dec x 0), (Rcase_abs x); lra. }
  destruct v as [x y z]. unfold vany_gt, vabs. cbn [vx vy vz nltb NumR]. rewrite !Habs.
  rewrite !Bool.orb_true_iff, !Rltb_true. tauto.
Qed.
Definition uncentred (P : list (vec3 R)) : Prop :=
  let m := mean Nr P in let eps := centre_eps_src Nr in eps < Rabs (vx m) \/ eps < Rabs (vy m) \/ eps < Rabs (vz m).
Lemma centre_eps_value : centre_eps_src Nr = 4722366482869645 / 4722366482869645213696.
Proof. reflexivity. Qed.
Lemma centre_eps_is_1e6 : Rabs (centre_eps_src Nr - 1 / 1000000) < 1 / 10 ^ 21.
Proof. rewrite centre_eps_value. unfold Rabs. destruct (Rcase_abs _); lra. Qed.
Lemma kabsch_uncentred_spec P Q : kabsch_uncentred_src Nr P Q = true <-> uncentred P \/ uncentred Q.
Proof. unfold kabsch_uncentred_src, uncentred. rewrite Bool.orb_true_iff, !vany_gt_spec. tauto. Qed.
Lemma quat_uncentred_spec P Q : quat_uncentred_src Nr P Q = true <-> uncentred P \/ uncentred Q.
Proof. unfold quat_uncentred_src, uncentred. rewrite Bool.orb_true_iff, !vany_gt_spec. tauto. Qed.

Theorem guards svd eig P Q :
  (List.length P <> List.length Q -> kabsch Nr svd P Q = Err "ValueError" /\ quaternion Nr eig P Q = Err "ValueError") /\
  (List.length P = List.length Q -> List.length P <> O -> uncentred P \/ uncentred Q ->
     kabsch Nr svd P Q = Err "ValueError" /\ quaternion Nr eig P Q = Err "ValueError") /\
  (forall method, assoc_str (lower method) rotmat_dispatch_src = None ->
     get_rotation_matrix Nr svd eig method P Q = Err "ValueError").
Proof.
  repeat split.
  - unfold kabsch. apply Nat.eqb_neq in H. rewrite H. reflexivity.
  - unfold quaternion. apply Nat.eqb_neq in H. rewrite H. reflexivity.
  - unfold kabsch. rewrite H, Nat.eqb_refl. cbn [negb]. apply Nat.eqb_neq in H0. rewrite <- H, H0.
    apply kabsch_uncentred_spec in H1. rewrite H1. reflexivity.
  - unfold quaternion. rewrite H, Nat.eqb_refl. cbn [negb]. apply Nat.eqb_neq in H0. rewrite <- H, H0.
    apply quat_uncentred_spec in H1. rewrite H1. reflexivity.
  - intros method H. unfold get_rotation_matrix. rewrite H. reflexivity.
Qed.
Lemma dispatch_table : rotmat_dispatch_src = [("svd"%string, KKabsch); ("quaternion"%string, KQuaternion)].
Proof. reflexivity. Qed.

(* ---- Wahba certificate ------------------------------------------------------------------------- *)
(* for symmetric S:  |q|^2 tr S - tr(U(q) S) = 2 v^T (tr S I - S) v,  v the vector part of q *)
Lemma certificate_identity q S : symmetric3 S ->
  dot4 Nr q q * mtrace Nr S - mtrace Nr (mmul Nr (quat_rot_src Nr q) S) =
  2 * dot Nr (V3 (w1 q) (w2 q) (w3 q)) (mvmul Nr (shift3 Nr (mtrace Nr S) S) (V3 (w1 q) (w2 q) (w3 q))).
Proof.
  intros Hs. destruct S as [a b c d e f g h i], q as [q0 q1 q2 q3]. gunf_in Hs. apply M3_inj in Hs.
  destruct Hs as (_ & Hdb & Hgc & _ & _ & Hhf & _ & _ & _). subst d g h.
  unfold shift3. gunf. ring.
Qed.

Theorem wahba_certificate_sound U P Q :
  is_rotation U ->
  let S := mmul Nr U (ptq Nr P Q) in
  symmetric3 S -> psd3 (shift3 Nr (mtrace Nr S) S) -> optimal U P Q.
Proof.
  intros HU S Hsym Hpsd. split; [exact HU |]. intros R' HR'.
  apply resid_le_iff_trace; [apply HU | apply HR' |].
  (* R' = R'' U with R'' = R' U^T a rotation, hence the matrix of a unit quaternion *)
  assert (HR'' : is_rotation (mmul Nr R' (mtrans U))) by (apply rot_mmul; [exact HR' | apply rot_trans, HU]).
  destruct (quat_surjective _ HR'') as (q & Hq & Eq).
  assert (E : mmul Nr R' (ptq Nr P Q) = mmul Nr (quat_rot_src Nr q) S).
  { rewrite Eq. unfold S. rewrite mmul_assoc, <- (mmul_assoc (mtrans U)), (rot_inverse_l U HU), mmul_eye_l. reflexivity. }
  rewrite E. fold S.
  pose proof (certificate_identity q S Hsym) as Hid. unfold unit4 in Hq. rewrite Hq in Hid.
  specialize (Hpsd (V3 (w1 q) (w2 q) (w3 q))). lra.
Qed.
