(* Spec_export.v — what C02 asks of an exported line, in terms of the wwPDB columns
   (Spec_parse.columns) and of the values of the row it was written from. *)
From Verif Require Import PyLib ModelTypes Spec_parse.
Open Scope string_scope.
Open Scope Q_scope.

(* ---- the property's premise: values that fit their PDB field widths ---- *)
Definition clean (s : string) : bool := String.eqb (trim s) s.     (* no blank at either end *)
Definition fits_int (lo hi : Z) (v : val) : bool :=
  match v with VInt z => (lo <=? z)%Z && (z <=? hi)%Z | _ => false end.
Definition fits_text (minlen maxlen : nat) (v : val) : bool :=
  match v with
  | VText s => Nat.leb minlen (length s) && Nat.leb (length s) maxlen && clean s
  | _ => false
  end.
Definition real_of (v : val) : option Q :=
  match v with VReal q => Some q | VInt z => Some (inject_Z z) | _ => None end.
Definition fits_real (lo hi : Q) (v : val) : bool :=
  match real_of v with Some q => Qleb lo q && Qleb q hi | None => false end.
Definition coord_lo : Q := - (10000000 # 1) + (1 # 2).
Definition coord_hi : Q := (100000000 # 1) - (1 # 2).
Definition coord_in_range (v : val) : bool :=
  match real_of v with Some q => Qltb coord_lo q && Qltb q coord_hi | None => false end.
Definition fits (d : row) : bool :=
  fits_int (-9999) 99999 (nth 0 d VNull) && fits_text 1 4 (nth 1 d VNull) && fits_text 0 1 (nth 2 d VNull)
  && fits_text 1 3 (nth 3 d VNull) && fits_text 0 1 (nth 4 d VNull) && fits_int (-999) 9999 (nth 5 d VNull)
  && fits_text 0 1 (nth 6 d VNull)
  && coord_in_range (nth 7 d VNull) && coord_in_range (nth 8 d VNull) && coord_in_range (nth 9 d VNull)
  && fits_real (-(9999#100)) (99999#100) (nth 10 d VNull) && fits_real (-(9999#100)) (99999#100) (nth 11 d VNull)
  && fits_text 1 2 (nth 12 d VNull).

(* ---- exact value of a plain decimal text (no binary rounding) ---- *)
Definition decimal_value (s0 : string) : option (Q * nat) :=     (* value, number of decimals *)
  let s := trim s0 in
  let '(neg, body) := split_sign s in
  let '(ip, fp) := split_dot body in
  let fpart := match fp with Some f => f | None => "" end in
  if all_digits ip && all_digits fpart && str_nonempty ip then
    let q := Qmake (digits_val 0 (ip ++ fpart)) (Z.to_pos (pow10 (length fpart))) in
    Some (if neg then Qopp q else q, length fpart)
  else None.

(* ---- number of decimals a coordinate must be printed with ---- *)
Definition int_digits (q : Q) : nat := length (digits (Qfloor (Qabs q))).
Definition max_fit (q : Q) : nat :=
  Nat.min 3 (8 - (int_digits q + (if Qltb q 0 then 1 else 0)) - 1).
Definition near_power_of_ten (q : Q) : bool :=
  let a := Qabs q in
  existsb (fun k => Qleb (inject_Z (10 ^ k) - (1#2)) a && Qltb a (inject_Z (10 ^ k)))
          [3; 4; 5; 6; 7; 8]%Z.

Definition coord_ok (v : val) (field : string) : bool :=
  match real_of v, decimal_value field with
  | Some q, Some (r, k) =>
      Nat.eqb (length field) 8
      && Qleb (Qabs (r - q)) ((1#2) / inject_Z (pow10 k))            (* half a unit of the printed precision *)
      && (if Qltb (-(9995#10)) q && Qltb q (99995#10) then Nat.eqb k 3
          else Nat.eqb k (max_fit q) || (near_power_of_ten q && Nat.eqb (S k) (max_fit q)))
  | _, _ => false
  end.
Definition text_ok (v : val) (field : string) : bool :=
  match v with VText s => String.eqb (trim field) s | _ => false end.
Definition int_ok (v : val) (field : string) : bool :=
  match v, parse_int field with VInt z, NumOk z' => Z.eqb z z' | _, _ => false end.
Definition real2_ok (v : val) (field : string) : bool :=
  match real_of v, decimal_value field with
  | Some q, Some (r, k) => Nat.eqb k 2 && Qleb (Qabs (r - q)) (5#1000)
  | _, _ => false
  end.

(* an exported line against the row it was written from: 80 columns, every attribute in its
   wwPDB columns *)
Definition line_ok (d : row) (line : string) : bool :=
  Nat.eqb (length line) 80
  && String.eqb (substring 0 6 line) "ATOM  "
  && int_ok (nth 0 d VNull) (columns 7 11 line)
  && text_ok (nth 1 d VNull) (columns 13 16 line)
  && text_ok (nth 2 d VNull) (columns 17 17 line)
  && text_ok (nth 3 d VNull) (columns 18 20 line)
  && text_ok (nth 4 d VNull) (columns 22 22 line)
  && int_ok (nth 5 d VNull) (columns 23 26 line)
  && text_ok (nth 6 d VNull) (columns 27 27 line)
  && coord_ok (nth 7 d VNull) (columns 31 38 line)
  && coord_ok (nth 8 d VNull) (columns 39 46 line)
  && coord_ok (nth 9 d VNull) (columns 47 54 line)
  && real2_ok (nth 10 d VNull) (columns 55 60 line)
  && real2_ok (nth 11 d VNull) (columns 61 66 line)
  && text_ok (nth 12 d VNull) (columns 77 78 line).

(* read-back table against the original (round trip) *)
Definition val_eqb (a b : val) : bool :=
  match a, b with
  | VInt x, VInt y => Z.eqb x y
  | VText x, VText y => String.eqb x y
  | VReal x, VReal y => Qeqb x y
  | _, _ => false
  end.
(* the read-back number is the binary64 nearest to the printed decimal: allow that rounding *)
Definition slack (x : Q) : Q := Qabs x * (1 # 1125899906842624) + (1 # 1000000000000).
Definition within (tol : Q) (a b : val) : bool :=
  match real_of a, real_of b with Some x, Some y => Qleb (Qabs (x - y)) (tol + slack x) | _, _ => false end.
(* tolerance on a coordinate: half a unit of the precision it is printed with (3 decimals in the
   usual range; at least 0 decimals, i.e. 1/2, anywhere in the admissible range) *)
Definition coord_tol (v : val) : Q :=
  match real_of v with
  | Some q => if Qltb (-(9995#10)) q && Qltb q (99995#10) then (5#10000)
              else (1#2) / inject_Z (pow10 (Nat.pred (max_fit q)))
  | None => 0
  end.
Definition approx_row (d d' : row) : bool :=
  Nat.eqb (List.length d') 14
  && forallb (fun i => val_eqb (nth i d VNull) (nth i d' VNull)) [0; 1; 2; 3; 4; 5; 6; 12]%nat
  && forallb (fun i => within (coord_tol (nth i d VNull)) (nth i d VNull) (nth i d' VNull)) [7; 8; 9]%nat
  && forallb (fun i => within (5#1000) (nth i d VNull) (nth i d' VNull)) [10; 11]%nat.

(* wwPDB atom-name alignment: the element symbol is right-justified in columns 13-14, so a name
   starts in column 14 unless it has four characters, is a two-letter element symbol itself, or
   is a three-character name beginning with a digit (e.g. 1HG) *)
Definition spec_atomname (nm el : string) : string :=
  let n := length nm in
  if Nat.eqb n 4 then nm
  else if (Nat.eqb n 2 && String.eqb nm el) || (Nat.eqb n 3 && is_digit (match nm with String c _ => c | _ => " "%char end))
       then nm ++ repeat_char " "%char (4 - n)
       else String " "%char nm ++ repeat_char " "%char (3 - n).
