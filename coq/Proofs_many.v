(* Proofs_many.v — C19 *)
From Coq Require Import Lia.
From Verif Require Import PyLib ModelTypes Model_many Spec_many.

(* pairwise matching: every earlier row matches every later row (the ON clause: all pairs i<j) *)
Fixpoint pairwise (idx : list nat) (tup : list row) : Prop :=
  match tup with
  | [] => True
  | r :: rs => Forall (fun r' => same_key idx r r' = true) rs /\ pairwise idx rs
  end.

Lemma forallb_Forall {A} (f : A -> bool) l : forallb f l = true <-> Forall (fun x => f x = true) l.
Proof.
  induction l as [|x t IH]; cbn.
  - split; [constructor | reflexivity].
  - rewrite andb_true_iff, IH. split.
    + intros [Hx Ht]. constructor; assumption.
    + intro H. inversion H; subst. split; assumption.
Qed.

Theorem join_exact idx : forall ts tup,
  In tup (join idx ts) <-> Forall2 (fun r t => In r t) tup ts /\ pairwise idx tup.
Proof.
  induction ts as [|t rest IH]; intro tup.
  - cbn. split.
    + intros [<-|[]]. split; [constructor | exact I].
    + intros [H _]. inversion H. left. reflexivity.
  - cbn [join]. rewrite in_flat_map. split.
    + intros [r [Hr Hin]]. apply in_map_iff in Hin. destruct Hin as [tup' [<- Hf]].
      apply filter_In in Hf. destruct Hf as [Hj Ha]. apply IH in Hj. destruct Hj as [H2 Hp].
      split; [constructor; assumption|]. cbn. split; [apply forallb_Forall; exact Ha | exact Hp].
    + intros [H2 Hp]. inversion H2 as [|r t' rs rest' Hr Hrs]; subst.
      cbn in Hp. destruct Hp as [Ha Hp].
      exists r. split; [exact Hr|]. apply in_map. apply filter_In.
      split; [apply IH; split; assumption | apply forallb_Forall; exact Ha].
Qed.

(* row i of the result comes from structure i (its own values for all attributes) *)
Corollary join_own_rows idx ts tup : In tup (join idx ts) ->
  List.length tup = List.length ts /\ forall i, (i < List.length ts)%nat -> In (nth i tup []) (nth i ts []).
Proof.
  intro H. apply join_exact in H. destruct H as [H _].
  induction H as [|r t rs ts' Hr H IH]; cbn.
  - split; [reflexivity | intros i Hi; lia].
  - destruct IH as [L N]. split; [rewrite L; reflexivity|].
    intros [|i] Hi; [exact Hr | apply N; lia].
Qed.

(* val_eqb is an equivalence on values that are not NULL/BLOB *)
Definition clean_val (v : val) : bool := match v with VNull | VBlob => false | _ => true end.
Lemma val_eqb_refl v : clean_val v = true -> val_eqb v v = true.
Proof.
  destruct v; cbn; intro H; try discriminate H.
  - apply Z.eqb_refl.
  - apply Qeq_bool_iff. reflexivity.
  - apply String.eqb_refl.
Qed.
Lemma val_eqb_sym a b : val_eqb a b = val_eqb b a.
Proof.
  destruct a, b; cbn; try reflexivity.
  - apply Z.eqb_sym.
  - apply eq_true_iff_eq. rewrite !Qeq_bool_iff. split; intro H; symmetry; exact H.
  - apply eq_true_iff_eq. rewrite !Qeq_bool_iff. split; intro H; symmetry; exact H.
  - apply eq_true_iff_eq. rewrite !Qeq_bool_iff. split; intro H; symmetry; exact H.
  - apply String.eqb_sym.
Qed.
Lemma val_eqb_trans a b c : val_eqb a b = true -> val_eqb b c = true -> val_eqb a c = true.
Proof.
  destruct a, b, c; cbn; try discriminate; intros H1 H2;
  rewrite ?Z.eqb_eq, ?Qeq_bool_iff, ?String.eqb_eq in *;
  try (subst; reflexivity); try congruence;
  try (rewrite ?H1, <- ?H2; reflexivity); try (rewrite <- ?H2, ?H1; reflexivity).
  all: try (apply inject_Z_injective; rewrite H1; exact H2).
  all: try (rewrite H1 in *; try rewrite <- H2; reflexivity).
  all: try (etransitivity; eassumption).
Qed.

Definition clean_row (idx : list nat) (r : row) : bool := forallb clean_val (key_of idx r).
Definition clean_table (idx : list nat) (t : table) : bool := forallb (clean_row idx) t.

Lemma keys_eqb_sym a b : keys_eqb a b = keys_eqb b a.
Proof.
  revert b. induction a as [|x a IH]; destruct b as [|y b]; cbn; try reflexivity.
  rewrite val_eqb_sym, IH. reflexivity.
Qed.
Lemma keys_eqb_trans a b c : keys_eqb a b = true -> keys_eqb b c = true -> keys_eqb a c = true.
Proof.
  revert b c. induction a as [|x a IH]; destruct b as [|y b]; destruct c as [|z c]; cbn; try discriminate; try reflexivity.
  intros H1 H2. apply andb_prop in H1. apply andb_prop in H2. destruct H1 as [A1 B1], H2 as [A2 B2].
  rewrite (val_eqb_trans _ _ _ A1 A2), (IH _ _ B1 B2). reflexivity.
Qed.
Lemma same_key_sym idx r r' : same_key idx r r' = same_key idx r' r.
Proof. apply keys_eqb_sym. Qed.
Lemma same_key_trans idx a b c : same_key idx a b = true -> same_key idx b c = true -> same_key idx a c = true.
Proof. apply keys_eqb_trans. Qed.

(* every atom of the first structure whose key occurs in all the others heads a result tuple *)
Theorem join_complete idx t0 r0 : forall rest,
  In r0 t0 ->
  Forall (fun t => exists r, In r t /\ same_key idx r0 r = true) rest ->
  exists rs, In (r0 :: rs) (join idx (t0 :: rest)).
Proof.
  intros rest H0 Hall.
  (* choose the matching rows; they are pairwise aligned by symmetry and transitivity *)
  assert (Hc : exists rs, Forall2 (fun r t => In r t) rs rest /\ Forall (fun r => same_key idx r0 r = true) rs).
  { induction Hall as [|t ts [r [Hr Hk]] _ IH].
    - exists []. split; constructor.
    - destruct IH as [rs [A B]]. exists (r :: rs). split; constructor; assumption. }
  destruct Hc as [rs [H2 Hk]]. exists rs. apply join_exact. split; [constructor; assumption|].
  cbn. split; [exact Hk|].
  clear H2 H0 Hall. induction rs as [|r rs IH]; cbn; [exact I|].
  inversion Hk as [|r' rs' Hr Hrs]; subst. split; [|apply IH; exact Hrs].
  apply Forall_forall. intros r' Hin. rewrite Forall_forall in Hrs.
  apply (same_key_trans idx r r0 r'); [rewrite same_key_sym; exact Hr | apply Hrs; exact Hin].
Qed.

(* and conversely every result tuple consists of atoms that all carry the key of its first row *)
Theorem join_sound idx ts tup r0 rs : In tup (join idx ts) -> tup = r0 :: rs ->
  Forall (fun r => same_key idx r0 r = true) rs.
Proof.
  intros H ->. apply join_exact in H. destruct H as [_ [H _]]. exact H.
Qed.

Lemma spec_tuples_in_join idx t0 rest tup :
  In tup (spec_tuples idx (t0 :: rest)) -> In tup (join idx (t0 :: rest)).
Proof.
  intros H. cbn [spec_tuples] in H. apply in_flat_map in H. destruct H as [r0 [H0 H]].
  destruct (find_all idx r0 rest) as [xs|] eqn:E; [|contradiction].
  destruct H as [<-|[]].
  apply join_exact.
  assert (Hx : Forall2 (fun r t => In r t) xs rest /\ Forall (fun r => same_key idx r0 r = true) xs).
  { clear H0. revert xs E. induction rest as [|t ts IH]; intros xs E.
    - cbn in E. injection E as <-. split; constructor.
    - cbn in E. destruct (find_key idx r0 t) as [x|] eqn:Ex; [|discriminate E].
      destruct (find_all idx r0 ts) as [xs'|] eqn:Exs; [|discriminate E].
      injection E as <-. destruct (IH xs' eq_refl) as [A B].
      unfold find_key in Ex. apply find_some in Ex. destruct Ex as [Hin Hk].
      split; constructor; assumption. }
  destruct Hx as [H2 Hk]. split; [constructor; assumption|].
  cbn. split; [exact Hk|].
  clear H2 H0 E. induction xs as [|r rs IH]; cbn; [exact I|].
  inversion Hk as [|r' rs' Hr Hrs]; subst. split; [|apply IH; exact Hrs].
  apply Forall_forall. intros r' Hin. rewrite Forall_forall in Hrs.
  apply (same_key_trans idx r r0 r'); [rewrite same_key_sym; exact Hr | apply Hrs; exact Hin].
Qed.
