(* Proofs_export2.v — C02: every attribute sits in its wwPDB columns and is read back unchanged *)
From Coq Require Import Lia ZifyBool Lqa.
From Verif Require Import PyLib PyLibFacts ModelTypes Generated_export Model_export Spec_parse Spec_export
  Proofs_text Proofs_digits Proofs_numtext Proofs_zone Proofs_export.
Open Scope string_scope.

(* ---- substrings of concatenations ---- *)
Lemma substring_skip a : forall n m r, substring (String.length a + n) m (a ++ r) = substring n m r.
Proof. induction a as [|c a IH]; intros n m r; cbn; [reflexivity | apply IH]. Qed.
Lemma substring_take b : forall r, substring 0 (String.length b) (b ++ r) = b.
Proof. induction b as [|c b IH]; intro r; cbn; [destruct r; reflexivity | rewrite IH; reflexivity]. Qed.

(* ---- blanks around a value ---- *)
Notation blanks n := (repeat_char " "%char n).
Lemma ltrim_blanks n s : ltrim (blanks n ++ s) = ltrim s.
Proof. induction n as [|n IH]; cbn; [reflexivity | exact IH]. Qed.
Lemma ltrim_only_blanks n : ltrim (blanks n) = "".
Proof. induction n; cbn; auto. Qed.
Lemma blanks_snoc n : (blanks n ++ String " " "")%string = String " "%char (blanks n).
Proof. induction n as [|n IH]; cbn; [reflexivity | rewrite IH; reflexivity]. Qed.
Lemma rev_blanks n : rev_str "" (blanks n) = blanks n.
Proof.
  induction n as [|n IH]; [reflexivity|].
  change (blanks (S n)) with (String " "%char (blanks n)). cbn [rev_str].
  rewrite (rev_str_app (String " " "")), IH. apply blanks_snoc.
Qed.
Lemma rev_app_s a b : rev_str "" (a ++ b) = (rev_str "" b ++ rev_str "" a)%string.
Proof.
  induction a as [|c a IH]; cbn.
  - rewrite app_nil_r_s. reflexivity.
  - rewrite (rev_str_app (String c "")), IH, (rev_str_app (String c "") a), app_assoc_s. reflexivity.
Qed.

(* a value that neither begins nor ends with a blank, padded with blanks on both sides, trims back to itself *)
Definition no_edge_blank (s : string) : Prop := ltrim s = s /\ ltrim (rev_str "" s) = rev_str "" s.
Lemma trim_padded l r s : no_edge_blank s -> trim (blanks l ++ s ++ blanks r) = s.
Proof.
  intros [H1 H2]. unfold trim. rewrite ltrim_blanks.
  destruct s as [|c t].
  - cbn [append]. rewrite ltrim_only_blanks. reflexivity.
  - assert (Hc : Ascii.eqb c " " = false).
    { cbn in H1. destruct (Ascii.eqb c " ") eqn:E; [|reflexivity].
      exfalso. assert (L : (String.length (ltrim t) <= String.length t)%nat).
      { clear. induction t as [|d u IH]; cbn; [lia|]. destruct (Ascii.eqb d " "); cbn; lia. }
      rewrite H1 in L. cbn in L. lia. }
    assert (E1 : ltrim (String c t ++ blanks r) = (String c t ++ blanks r)%string) by (cbn; rewrite Hc; reflexivity).
    rewrite E1, rev_app_s, rev_blanks, ltrim_blanks, H2. apply rev_str_involutive.
Qed.

Lemma ltrim_length_le s : (String.length (ltrim s) <= String.length s)%nat.
Proof. induction s as [|d u IH]; cbn; [lia|]. destruct (Ascii.eqb d " "); cbn; lia. Qed.
Lemma ltrim_same_length s : String.length (ltrim s) = String.length s -> ltrim s = s.
Proof.
  destruct s as [|c t]; cbn; [reflexivity|]. destruct (Ascii.eqb c " "); [|reflexivity].
  intro H. pose proof (ltrim_length_le t). lia.
Qed.
Lemma clean_no_edge_blank s : clean s = true -> no_edge_blank s.
Proof.
  unfold clean. intro H. apply String.eqb_eq in H. unfold trim in H.
  assert (L : String.length (rev_str "" (ltrim (rev_str "" (ltrim s)))) = String.length s) by (rewrite H; reflexivity).
  rewrite !rev_str_length in L. cbn in L.
  pose proof (ltrim_length_le (rev_str "" (ltrim s))) as A. rewrite rev_str_length in A. cbn in A.
  pose proof (ltrim_length_le s) as B.
  assert (E1 : ltrim s = s) by (apply ltrim_same_length; lia).
  split; [exact E1|]. rewrite E1 in *. apply ltrim_same_length. rewrite rev_str_length. cbn. lia.
Qed.

(* ---- text and integer fields are read back exactly ---- *)
Lemma rjust_blanks w s : rjust w s = (blanks (w - String.length s) ++ s ++ blanks 0)%string.
Proof. unfold rjust, blanks. cbn. rewrite app_nil_r_s. reflexivity. Qed.

Theorem text_field_roundtrip w s : clean s = true -> text_ok (VText s) (rjust w s) = true.
Proof.
  intro H. unfold text_ok. rewrite rjust_blanks, (trim_padded _ _ s (clean_no_edge_blank s H)). apply String.eqb_refl.
Qed.

Lemma strip_blanks_left n s : nospace s = true -> strip (blanks n ++ s) = s.
Proof.
  intro H. unfold strip.
  assert (E : lstrip (blanks n ++ s) = s).
  { induction n as [|n IH]; cbn; [apply lstrip_nospace; exact H | exact IH]. }
  rewrite E. unfold rstrip. rewrite lstrip_nospace by (rewrite nospace_rev; exact H). apply rev_str_involutive.
Qed.
Lemma nospace_str_of_Z z : nospace (str_of_Z z) = true.
Proof.
  unfold str_of_Z. destruct (z <? 0)%Z eqn:E.
  - destruct (digits_spec (- z)%Z ltac:(lia)) as [A _]. cbn. apply all_digits_nospace, A.
  - destruct (digits_spec z ltac:(lia)) as [A _]. apply all_digits_nospace, A.
Qed.
Theorem int_field_roundtrip w z : int_ok (VInt z) (rjust w (str_of_Z z)) = true.
Proof.
  unfold int_ok, parse_int, rjust.
  rewrite (strip_blanks_left _ _ (nospace_str_of_Z z)).
  pose proof (parse_int_str_of_Z z) as P. unfold parse_int in P.
  rewrite (strip_nospace _ (nospace_str_of_Z z)) in P. rewrite P. apply Z.eqb_refl.
Qed.

Lemma Ok_inj_s {A} (a b : A) : Ok a = Ok b -> a = b.
Proof. intro H. inversion H. reflexivity. Qed.

Lemma firstn_In' {A} (l : list A) : forall k x, In x (firstn k l) -> In x l.
Proof. induction l as [|y t IH]; intros k x H; destruct k; cbn in H; try contradiction. destruct H as [H|H]; [left; exact H | right; apply (IH k x H)]. Qed.

(* ---- placement: each rendered piece occupies its own columns of the line ---- *)
Lemma render_pieces_app d ps1 ps2 line : render_pieces d (ps1 ++ ps2)%list = Ok line ->
  exists pre post, render_pieces d ps1 = Ok pre /\ render_pieces d ps2 = Ok post /\ line = (pre ++ post)%string.
Proof.
  revert line. induction ps1 as [|p t IH]; intros line H.
  - exists "", line. repeat split; [exact H].
  - cbn [app render_pieces] in H. destruct (render_piece d p) as [s|e] eqn:Es; cbn [bind] in H; [|discriminate H].
    destruct (render_pieces d (t ++ ps2)%list) as [r|e] eqn:Er; cbn [bind] in H; [|discriminate H].
    apply Ok_inj_s in H. destruct (IH r eq_refl) as [pre [post [A [B C]]]].
    exists (s ++ pre)%string, post. cbn [render_pieces]. rewrite Es, A. cbn [bind].
    split; [reflexivity|]. split; [exact B|]. subst. rewrite app_assoc_s. reflexivity.
Qed.

Definition offset (k : nat) : nat := fold_right Nat.add 0%nat (map piece_len (firstn k export_layout_src)).

Theorem piece_in_its_columns d line k p :
  fits d = true -> line_of_row d = Ok line -> nth_error export_layout_src k = Some p ->
  exists s, render_piece d p = Ok s /\ String.length s = piece_len p /\ substring (offset k) (piece_len p) line = s.
Proof.
  intros Hf Hl Hk. unfold line_of_row in Hl.
  pose proof (firstn_skipn k export_layout_src) as Esplit.
  assert (Hs : skipn k export_layout_src = p :: skipn (S k) export_layout_src).
  { clear - Hk. revert k Hk. generalize export_layout_src. induction l as [|x t IH]; intros k Hk; destruct k; cbn in *; try discriminate.
    - injection Hk as <-. reflexivity.
    - apply IH. exact Hk. }
  rewrite Hs in Esplit. rewrite <- Esplit in Hl.
  destruct (render_pieces_app d _ _ line Hl) as [pre [post [A [B C]]]].
  cbn [render_pieces] in B. destruct (render_piece d p) as [s|e] eqn:Es; cbn [bind] in B; [|discriminate B].
  destruct (render_pieces d (skipn (S k) export_layout_src)) as [r|e]; cbn [bind] in B; [|discriminate B].
  apply Ok_inj_s in B. subst post line.
  (* lengths: every piece of the layout renders with its nominal length under [fits] *)
  pose proof (all_pieces_render d Hf) as Hall.
  assert (Hp : exists s', render_piece d p = Ok s' /\ String.length s' = piece_len p).
  { rewrite Forall_forall in Hall. apply Hall. apply (nth_error_In _ _ Hk). }
  destruct Hp as [s' [Es' Ls]]. rewrite Es in Es'. apply Ok_inj_s in Es'. subst s'.
  assert (Lpre : String.length pre = offset k).
  { assert (Hpre : Forall (fun q => exists s0, render_piece d q = Ok s0 /\ String.length s0 = piece_len q) (firstn k export_layout_src)).
    { rewrite Forall_forall in *. intros q Hq. apply Hall. apply (firstn_In' _ _ _ Hq). }
    destruct (render_pieces_length d _ Hpre) as [l0 [E0 L0]]. rewrite A in E0. apply Ok_inj_s in E0. subst l0. exact L0. }
  exists s. split; [reflexivity|]. split; [exact Ls|].
  rewrite <- Lpre, <- (Nat.add_0_r (String.length pre)), substring_skip, <- Ls. apply substring_take.
Qed.

(* the offsets and widths of the thirteen attribute pieces in today's layout ARE the wwPDB columns *)
Lemma layout_columns_are_wwpdb :
  map (fun k => (offset k + 1, offset k + piece_len (nth k export_layout_src (PLit ""))))%nat [1; 3; 4; 5; 7; 8; 9; 11; 12; 13; 14; 15; 17]%nat
  = map (fun f => snd (fst f)) wwpdb_cols.
Proof. reflexivity. Qed.
