(* Model_scores.v — executable model of the score leaf functions (C12).
   capri_src / dockq_raw_src are regenerated from StructureSimilarity.py on every run. *)
From Verif Require Import PyLib ModelTypes Generated_scores.
Open Scope string_scope.

Definition capri (f l i : Q) : res string := capri_src f l i "protein-protein".
Definition dockq (f l i d1 d2 : Q) : Q := round_dec dockq_digits_src (dockq_raw_src f l i d1 d2).
Definition dockq_default (f l i : Q) : Q := dockq f l i dockq_d1_src dockq_d2_src.
