(* Spec_contact.v — specifications of C05, C14, C08, written from the property statements
   (/verif/properties.jsonl), not from the code: filters and comprehensions over the atom table.
   Each executable definition (used by the harness through Run_contact) has its Prop reading next
   to it; the equivalences are proved in Proofs_contact_spec.v.
   Only the record type [atom] / [res3] and the projections are shared with Model_contact. *)
From Verif Require Import PyLib Model_contact.
Open Scope string_scope.
Open Scope Z_scope.
Open Scope list_scope.

(* ------------------------------------------------------------------ *)
(* vocabulary of the statements                                        *)
Definition backbone_names : list string := ["CA"; "C"; "N"; "O"].
Definition is_backbone (a : atom) : bool := existsb (String.eqb (name a)) backbone_names.
(* DESIGN Appendix A: "hydrogen" = the atom name begins with H *)
Definition is_hydrogen (a : atom) : bool :=
  match name a with String c _ => Ascii.eqb c "H"%char | EmptyString => false end.
Definition heavy (a : atom) : bool := negb (is_hydrogen a).
(* the active filters *)
Definition passes (only_bb exclH : bool) (a : atom) : bool :=
  ((negb only_bb || is_backbone a) && negb (exclH && is_hydrogen a))%bool.

Definition sqdist (a b : atom) : Q :=
  ((ax a - ax b) * (ax a - ax b) + (ay a - ay b) * (ay a - ay b) + (az a - az b) * (az a - az b))%Q.
(* the same number, evaluated without cross-multiplying equal denominators (only cheaper to run;
   sqdist_x a b == sqdist a b is Proofs_contact_spec.sqdist_x_eq) *)
Definition sqdist_x (a b : atom) : Q :=
  let sq (u v : Q) : Q :=
    if Pos.eqb (Qden u) (Qden v) then Qmake ((Qnum u - Qnum v) * (Qnum u - Qnum v)) (Qden u * Qden u)
    else ((u - v) * (u - v))%Q in
  let add (u v : Q) : Q :=
    if Pos.eqb (Qden u) (Qden v) then Qmake (Qnum u + Qnum v) (Qden u) else (u + v)%Q in
  add (add (sq (ax a) (ax b)) (sq (ay a) (ay b))) (sq (az a) (az b)).
(* "at a distance <= cutoff": sqrt(sqdist) <= c  <->  0 <= c /\ sqdist <= c^2 *)
Definition within (c : Q) (a b : atom) : Prop := (0 <= c /\ sqdist a b <= c * c)%Q.
Definition withinb (c : Q) (a b : atom) : bool := (Qleb 0 c && Qleb (sqdist_x a b) (c * c))%bool.
(* "closer than": strict *)
Definition closer (c : Q) (a b : atom) : Prop := (0 < c /\ sqdist a b < c * c)%Q.
Definition closerb (c : Q) (a b : atom) : bool := (Qltb 0 c && Qltb (sqdist_x a b) (c * c))%bool.

Definition same_residue (a b : atom) : bool :=
  (String.eqb (chain a) (chain b) && Z.eqb (resSeq a) (resSeq b) && String.eqb (resName a) (resName b))%bool.

(* the chains that come after c in the list cs (requested order / alphabetical order) *)
Fixpoint after (c : string) (cs : list string) : list string :=
  match cs with
  | [] => []
  | x :: t => if String.eqb c x then t else after c t
  end.
Definition inb (c : string) (cs : list string) : bool := existsb (String.eqb c) cs.

(* ================================================================== *)
Section SpecContact.
  Variable near : atom -> atom -> bool.           (* "lie at a distance <= cutoff" *)
  Variables (only_bb exclH : bool).
  Let ok := passes only_bb exclH.

  (* ---------------- C05 ---------------- *)
  (* Prop reading: a is a contact atom of chain c with respect to the chains cs *)
  Definition contact_atom (s : structure) (cs : list string) (c : string) (a : atom) : Prop :=
    In a s /\ chain a = c /\ ok a = true /\
    exists b, In b s /\ chain b <> c /\ In (chain b) cs /\ ok b = true /\ near a b = true.
  Definition contact_atomb (s : structure) (cs : list string) (c : string) (a : atom) : bool :=
    (String.eqb (chain a) c && ok a &&
     existsb (fun b => negb (String.eqb (chain b) c) && inb (chain b) cs && ok b && near a b) s)%bool.
  (* the contact atoms reported for chain c (row ids, table order) *)
  Definition spec_atoms (s : structure) (cs : list string) (c : string) : list Z :=
    map idx (filter (contact_atomb s cs c) s).
  Definition spec_atoms_dict (s : structure) (cs : list string) : list (string * list Z) :=
    map (fun c => (c, spec_atoms s cs c)) cs.

  (* Prop reading: (a, b) is a contacting pair listed under a: a's chain comes before b's chain in cs *)
  Definition contact_pair (s : structure) (cs : list string) (a b : atom) : Prop :=
    In a s /\ In b s /\ In (chain a) cs /\ In (chain b) (after (chain a) cs) /\
    ok a = true /\ ok b = true /\ near a b = true.
  Definition partnerb (cs : list string) (a b : atom) : bool :=
    (inb (chain b) (after (chain a) cs) && ok b && near a b)%bool.
  Definition partners (s : structure) (cs : list string) (a : atom) : list Z :=
    map idx (filter (partnerb cs a) s).
  (* the pair map: one entry per atom with at least one partner, keys in table order *)
  Definition spec_pairs (s : structure) (cs : list string) : list (Z * list Z) :=
    flat_map (fun a =>
      if (inb (chain a) cs && ok a)%bool then
        match partners s cs a with [] => [] | l => [(idx a, l)] end
      else []) s.

  (* ---------------- C08 (parametrised by the distance test) ---------------- *)
  (* residues rA and rB have non-hydrogen atoms within the cutoff in structure s *)
  Definition res_contact (s : structure) (rA rB : res3) : Prop :=
    exists a b, In a s /\ In b s /\ res3_of a = rA /\ res3_of b = rB /\
                heavy a = true /\ heavy b = true /\ near a b = true.
  Definition res_contactb (s : structure) (rA rB : res3) : bool :=
    existsb (fun a => res3_eqb (res3_of a) rA && heavy a &&
      existsb (fun b => res3_eqb (res3_of b) rB && heavy b && near a b) s)%bool s.
End SpecContact.

(* ================================================================== *)
(* C14: projections and closure, as functions of an atom-level answer  *)
Definition selected (s : structure) (L : list Z) : list atom := filter (fun a => existsb (Z.eqb (idx a)) L) s.

(* Python orders (str, int, str) tuples lexicographically *)
Definition res3_le (p q : res3) : bool :=
  let '(c, n, r) := p in let '(c', n', r') := q in
  if negb (String.eqb c c') then String.ltb c c'
  else if negb (Z.eqb n n') then Z.ltb n n'
  else String.leb r r'.
Definition distinct_sorted (l : list res3) : list res3 := sort_by res3_le (dedup_keep_first res3_eqb l).

(* the distinct (chain, number, name) triples of a set of atoms *)
Definition project_atoms (s : structure) (L : list Z) : list res3 :=
  distinct_sorted (map res3_of (selected s L)).
Definition project_dict (s : structure) (d : list (string * list Z)) : list (string * list res3) :=
  map (fun kv => (fst kv, project_atoms s (snd kv))) d.

(* projection of an atom pair map onto residues: rB is listed under rA iff some listed atom pair
   (i, j) has i in rA and j in rB *)
Definition pair_projects (s : structure) (pm : list (Z * list Z)) (rA rB : res3) : Prop :=
  exists i l j a b, In (i, l) pm /\ In j l /\ In a s /\ In b s /\ idx a = i /\ idx b = j /\
                    res3_of a = rA /\ res3_of b = rB.
Definition project_pairs (s : structure) (pm : list (Z * list Z)) : list (res3 * list res3) :=
  let owners := dedup_keep_first res3_eqb (flat_map (fun kv => map res3_of (selected s [fst kv])) pm) in
  map (fun rA =>
    (rA, distinct_sorted
           (flat_map (fun kv =>
              if existsb (fun a => res3_eqb (res3_of a) rA) (selected s [fst kv])
              then map res3_of (selected s (snd kv)) else []) pm))) owners.

(* all atoms (all backbone atoms) of every residue that owns at least one atom of L *)
Definition in_closure (s : structure) (only_bb : bool) (L : list Z) (a : atom) : Prop :=
  In a s /\ (only_bb = true -> is_backbone a = true) /\
  exists a0, In a0 s /\ In (idx a0) L /\ same_residue a a0 = true.
Definition in_closureb (s : structure) (only_bb : bool) (L : list Z) (a : atom) : bool :=
  ((negb only_bb || is_backbone a) && existsb (fun a0 => same_residue a a0) (selected s L))%bool.
Definition closure (s : structure) (only_bb : bool) (L : list Z) : list Z :=
  map idx (filter (in_closureb s only_bb L) s).
Definition closure_dict (s : structure) (only_bb : bool) (d : list (string * list Z)) : list (string * list Z) :=
  map (fun kv => (fst kv, closure s only_bb (snd kv))) d.

(* ================================================================== *)
(* C08                                                                  *)
(* the chains of a structure, each once, in alphabetical order *)
Definition distinct_chains (s : structure) : list string :=
  sort_by String.leb (dedup_keep_first String.eqb (map chain s)).

(* reference residue-residue contacts of a complex whose two chains are c1 and c2: distinct pairs
   (residue of c1, residue of c2) having non-hydrogen atoms within the cutoff; an unordered pair of
   residues of different chains is written with the residue of the alphabetically first chain first *)
Definition ref_contacts (near : atom -> atom -> bool) (ref : structure) (c1 c2 : string) : list (res3 * res3) :=
  dedup_keep_first respair_eqb
    (flat_map (fun a =>
       if (String.eqb (chain a) c1 && heavy a)%bool then
         map (fun b => (res3_of a, res3_of b))
             (filter (fun b => String.eqb (chain b) c2 && heavy b && near a b)%bool ref)
       else []) ref).
(* ... that are also contacts in the decoy (an absent residue has no atoms, hence no contact) *)
Definition preserved (near : atom -> atom -> bool) (ref dec : structure) (c1 c2 : string) : list (res3 * res3) :=
  filter (fun p => res_contactb near dec (fst p) (snd p)) (ref_contacts near ref c1 c2).

(* Fnat as an exact fraction; None when the complex has not exactly two chains or no reference contact *)
Definition fnat_spec (near : atom -> atom -> bool) (ref dec : structure) : option Q :=
  match distinct_chains ref with
  | [c1; c2] =>
    match Z.of_nat (List.length (ref_contacts near ref c1 c2)) with
    | Zpos p => Some (Qmake (Z.of_nat (List.length (preserved near ref dec c1 c2))) p)
    | _ => None
    end
  | _ => None
  end.
(* what a binary64 implementation reporting six decimals returns for the fraction q *)
Definition reported (q : Q) : Q := round_dec 6 (b64 q).

(* clash count: inter-chain pairs of non-hydrogen atoms closer than 3 Angstrom (strict) *)
Definition clash_pairs (s : structure) (c1 c2 : string) : list (atom * atom) :=
  filter (fun ab => heavy (fst ab) && heavy (snd ab) && closerb 3 (fst ab) (snd ab))%bool
         (list_prod (filter (fun a => String.eqb (chain a) c1) s) (filter (fun b => String.eqb (chain b) c2) s)).
Definition clash_spec (s : structure) (c1 c2 : string) : Z := Z.of_nat (List.length (clash_pairs s c1 c2)).
