(* Run_store.v — wire entry points for derived databases (C15) *)
From Verif Require Import PyLib ModelTypes Model_store Spec_export Run_parse Run_export.
Open Scope string_scope.

Definition run_store (cmd : string) (a : list V) : option V :=
  if cmd =? "store.snapshot" then        (* rows -> rows of the derived object *)
    Some (Vres (do t <- snapshot (map row_of_V (getL (nth 0 a (VZ 0)))); Ok (Vrows t)))
  else if cmd =? "spec.store.approx_table" then   (* source rows, derived rows *)
    let s := map row_of_V (getL (nth 0 a (VZ 0))) in
    let d := map row_of_V (getL (nth 1 a (VZ 0))) in
    Some (VB (Nat.eqb (List.length s) (List.length d)
              && forallb (fun p => approx_row (fst p) (snd p)) (combine s d)))
  else None.
