(* Proofs_reexport.v — C02: writing the re-read table again gives the identical text, except for a coordinate on a
   format-switch threshold (the decimals change) or a negative zero (the sign is lost) — the two exceptions the
   property itself names *)
From Coq Require Import Lia Lqa Qabs Qround.
From Verif Require Import PyLib PyLibFacts ModelTypes Generated_export Model_export Spec_parse Spec_export
  Proofs_text Proofs_digits Proofs_export Proofs_reparse Proofs_b64.
Open Scope Q_scope.

Lemma inject_Z_minus1 (M : Z) : inject_Z (M - 1) == inject_Z M - 1.
Proof. unfold Z.sub. rewrite inject_Z_plus. reflexivity. Qed.

Lemma rhe_gt_half a (M : Z) : inject_Z M - (1#2) < a -> (M <= round_half_even a)%Z.
Proof.
  intro H.
  assert (Hf : (M - 1 <= Qfloor a)%Z).
  { rewrite <- (Qfloor_Z (M - 1)). apply Qfloor_resp_le. rewrite inject_Z_minus1. lra. }
  destruct (Z.eq_dec (Qfloor a) (M - 1)) as [E|NE].
  - unfold round_half_even. rewrite Qfloor'_eq, E. pose proof (inject_Z_minus1 M) as IM.
    destruct (Qcompare_spec (a - inject_Z (M - 1)) (1#2)) as [C|C|C]; try lia; exfalso; lra.
  - destruct (rhe_cases a) as [-> | ->]; lia.
Qed.
Lemma rhe_near a (n : Z) : Qabs (a - inject_Z n) < 1#2 -> round_half_even a = n.
Proof.
  intro H. apply Qabs_Qlt_condition in H. destruct H as [H1 H2].
  pose proof (rhe_lt_half a n ltac:(lra)). pose proof (rhe_gt_half a n ltac:(lra)). lia.
Qed.

Lemma Qabs_diff_abs x y : Qabs (Qabs x - Qabs y) <= Qabs (x - y).
Proof.
  apply Qabs_Qle_condition. pose proof (Qabs_triangle_reverse x y) as A. pose proof (Qabs_triangle_reverse y x) as B.
  assert (E : Qabs (y - x) == Qabs (x - y)) by (setoid_replace (y - x) with (- (x - y)) by ring; apply Qabs_opp).
  rewrite E in B. split; lra.
Qed.

(* value of the printed decimal in terms of the rounded integer *)
Lemma printed_value_abs p q :
  Qabs (printed_value p q) * inject_Z (pow10 p) == inject_Z (round_half_even (Qabs q * inject_Z (pow10 p))).
Proof.
  unfold printed_value. set (n := round_half_even (Qabs q * inject_Z (pow10 p))).
  pose proof (pow10_pos p) as P. assert (P' : 0 < inject_Z (pow10 p)) by (rewrite Zlt_Qlt in P; exact P).
  assert (Hn : (0 <= n)%Z) by (apply rhe_nonneg; apply Qmult_le_0_compat; [apply Qabs_nonneg | lra]).
  assert (Ev : Qred (n # Z.to_pos (pow10 p)) == inject_Z n / inject_Z (pow10 p)).
  { rewrite Qred_correct. unfold Qdiv, Qeq, Qinv, inject_Z, Qmult. cbn.
    destruct (pow10 p) as [|pp|pp] eqn:E; try lia. cbn. lia. }
  assert (Nn : 0 <= inject_Z n / inject_Z (pow10 p)).
  { apply Qle_shift_div_l; [exact P'|]. rewrite Qmult_0_l. change 0 with (inject_Z 0). rewrite <- Zle_Qle. exact Hn. }
  destruct (Qltb q 0).
  - rewrite Qred_correct, Ev, Qabs_opp, Qabs_pos by exact Nn. field. lra.
  - rewrite Ev, Qabs_pos by exact Nn. field. lra.
Qed.

(* formatting the re-read double again *)
Theorem refmt w p q :
  (round_half_even (Qabs q * inject_Z (pow10 p)) < 2 ^ 52)%Z ->
  Qltb (b64 (printed_value p q)) 0 = Qltb q 0 ->
  fmt_fixed w p (b64 (printed_value p q)) = fmt_fixed w p q.
Proof.
  intros Hn Hs. unfold fmt_fixed, fmt_fixed_body. rewrite Hs.
  set (pv := printed_value p q). set (n := round_half_even (Qabs q * inject_Z (pow10 p))) in *.
  assert (E : round_half_even (Qabs (b64 pv) * inject_Z (pow10 p)) = n).
  { apply rhe_near.
    pose proof (pow10_pos p) as P. assert (P' : 0 < inject_Z (pow10 p)) by (rewrite Zlt_Qlt in P; exact P).
    pose proof (printed_value_abs p q) as V. fold pv in V. fold n in V.
    assert (Hn0 : (0 <= n)%Z) by (apply rhe_nonneg; apply Qmult_le_0_compat; [apply Qabs_nonneg | lra]).
    rewrite <- V.
    setoid_replace (Qabs (b64 pv) * inject_Z (pow10 p) - Qabs pv * inject_Z (pow10 p)) with ((Qabs (b64 pv) - Qabs pv) * inject_Z (pow10 p)) by ring.
    rewrite Qabs_Qmult, (Qabs_pos (inject_Z (pow10 p))) by lra.
    apply Qle_lt_trans with (Qabs (b64 pv - pv) * inject_Z (pow10 p)).
    { apply Qmult_le_compat_r; [apply Qabs_diff_abs | lra]. }
    apply Qle_lt_trans with (Qabs pv * (1 # 2 ^ 53) * inject_Z (pow10 p)).
    { apply Qmult_le_compat_r; [apply b64_error | lra]. }
    setoid_replace (Qabs pv * (1 # 2 ^ 53) * inject_Z (pow10 p)) with (Qabs pv * inject_Z (pow10 p) * (1 # 2 ^ 53)) by ring.
    rewrite V.
    assert (inject_Z n < inject_Z (2 ^ 52)) by (rewrite <- Zlt_Qlt; exact Hn).
    change (inject_Z (2 ^ 52)) with (4503599627370496 # 1) in H. change (2 ^ 53)%positive with 9007199254740992%positive.
    assert (0 <= inject_Z n) by (change 0 with (inject_Z 0); rewrite <- Zle_Qle; exact Hn0).
    setoid_replace (1 # 2) with ((4503599627370496 # 1) * (1 # 9007199254740992)) by reflexivity.
    apply Qmult_lt_compat_r; [reflexivity | exact H]. }
  rewrite E. reflexivity.
Qed.

Lemma rhe_bound a (M : Z) : 0 <= a -> a < inject_Z M -> (round_half_even a < M + 1)%Z.
Proof. intros H0 H. pose proof (rhe_lt_half a M ltac:(lra)). lia. Qed.

(* a coordinate: same 8 characters, unless it sits on a format-switch threshold or is a negative zero *)
Theorem reexport_coordinate q :
  Qltb coord_lo q && Qltb q coord_hi = true ->
  let x' := b64 (printed_value (xyz_decimals q) q) in
  Qltb coord_lo x' && Qltb x' coord_hi = true -> xyz_decimals x' = xyz_decimals q -> Qltb x' 0 = Qltb q 0 ->
  format_xyz_src x' = format_xyz_src q.
Proof.
  intros R x' R' D S.
  destruct (format_xyz_cases q) as [[F _]|[_ F]]; [rewrite F in R; discriminate R|].
  destruct (format_xyz_cases x') as [[F' _]|[_ F']]; [rewrite F' in R'; discriminate R'|].
  rewrite F, F', D. f_equal. apply refmt; [|exact S].
  apply in_range_bounds in R. destruct R as [R1 R2].
  assert (A : Qabs q < 100000000 # 1) by (apply Qabs_case; intros; lra).
  assert (P : inject_Z (pow10 (xyz_decimals q)) <= 1000 # 1).
  { unfold xyz_decimals. repeat match goal with |- context [if ?b then _ else _] => destruct b end; vm_compute; discriminate. }
  assert (P0 : 0 < inject_Z (pow10 (xyz_decimals q))) by (pose proof (pow10_pos (xyz_decimals q)) as H; rewrite Zlt_Qlt in H; exact H).
  pose proof (Qabs_nonneg q) as N.
  assert (B : Qabs q * inject_Z (pow10 (xyz_decimals q)) < inject_Z 100000000000).
  { change (inject_Z 100000000000) with ((100000000 # 1) * (1000 # 1)).
    apply Qle_lt_trans with (Qabs q * (1000 # 1)); [| apply Qmult_lt_compat_r; [reflexivity | exact A]].
    rewrite (Qmult_comm (Qabs q) (inject_Z _)), (Qmult_comm (Qabs q) (1000 # 1)). apply Qmult_le_compat_r; [exact P | exact N]. }
  assert (NN : 0 <= Qabs q * inject_Z (pow10 (xyz_decimals q))) by (apply Qmult_le_0_compat; [exact N | apply Qlt_le_weak, P0]).
  pose proof (rhe_bound _ 100000000000 NN B) as HB. clear - HB. 
  set (n := round_half_even (Qabs q * inject_Z (pow10 (xyz_decimals q)))) in *. change (2 ^ 52)%Z with 4503599627370496%Z. lia.
Qed.
