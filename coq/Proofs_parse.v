(* Proofs_parse.v — C01: the regenerated parser equals the wwPDB column specification *)
From Coq Require Import Lia ZifyBool.
From Verif Require Import PyLib ModelTypes Generated_parse Model_parse Spec_parse Proofs_text.
Open Scope string_scope.

(* the regenerated slice table is the wwPDB table, half-open *)
Lemma columns_are_wwpdb :
  delimiter_src = map (fun f => (fst (fst f), to_half_open (snd (fst f)))) wwpdb_cols.
Proof. reflexivity. Qed.

Lemma types_are_wwpdb :
  col_src = (map (fun f => (fst (fst f), match snd f with TInt => "INT" | TReal => "REAL" | TText => "TEXT" end)) wwpdb_cols
            ++ [("model", "INT")])%list.
Proof. reflexivity. Qed.

Lemma linelength_spec l :
  linelength_src l = if Nat.ltb 80 (length l) then Err "ValueError" else Ok (pad80 l).
Proof.
  unfold linelength_src, pad80. rewrite repeat_str_char.
  destruct (Nat.ltb (length l) 80) eqn:E1; destruct (Nat.ltb 80 (length l)) eqn:E2; try reflexivity; try lia.
  replace (80 - length l)%nat with 0%nat by lia. cbn [repeat_char]. f_equal.
  clear. induction l as [|c t IH]; cbn; [reflexivity | rewrite <- IH; reflexivity].
Qed.

Section Record.
Variable l : string.
Hypothesis Hp : printableb l = true.
Hypothesis Hlen : (length l <= 80)%nat.
Let L := pad80 l.

Lemma HpL : printableb L = true. Proof. apply printable_pad80, Hp. Qed.
Lemma HlenL : length L = 80%nat. Proof. apply length_pad80, Hlen. Qed.

Lemma strip_cols a n : strip (substring a n L) = trim (substring a n L).
Proof. apply strip_trim, printable_substring, HpL. Qed.

Lemma char_at_col i : (i < 80)%nat -> char_at i L = String (column (S i) l) "".
Proof.
  intro H. unfold char_at, column. fold L.
  destruct (substring_1 i L) as [c [G E]]; [rewrite HlenL; exact H|].
  replace (S i - 1)%nat with i by lia. rewrite G. exact E.
Qed.

Lemma column_printable i : (i < 80)%nat -> printable_char (column (S i) l) = true.
Proof.
  intro H. unfold column. fold L. replace (S i - 1)%nat with i by lia.
  destruct (substring_1 i L) as [c [G E]]; [rewrite HlenL; exact H|].
  rewrite G. apply (printable_get i L c HpL G).
Qed.

Lemma get_chainID_spec :
  get_chainID_src L =
  let seg := trim (columns 73 76 l) in if str_nonempty seg then Ok seg else Err "ValueError".
Proof.
  unfold get_chainID_src, slice, columns. fold L. cbn [Nat.sub Nat.add].
  rewrite strip_cols. reflexivity.
Qed.

Lemma get_element_spec : get_element_src L = Ok (spec_element l).
Proof.
  unfold get_element_src, spec_element.
  rewrite (char_at_col 12), (char_at_col 13), (char_at_col 15) by lia.
  pose proof (column_printable 12 ltac:(lia)) as P13.
  pose proof (column_printable 13 ltac:(lia)) as P14.
  pose proof (column_printable 15 ltac:(lia)) as P16.
  set (c13 := column 13 l) in *. set (c14 := column 14 l) in *. set (c16 := column 16 l) in *.
  rewrite (strip_1 c13 P13), (strip_1 c16 P16).
  assert (S14 : strip (String c14 "") = trim (String c14 "")).
  { apply strip_trim. cbn. rewrite P14. reflexivity. }
  destruct (Ascii.eqb c13 " ") eqn:E13; cbn [str_nonempty].
  - rewrite S14. reflexivity.
  - rewrite is_substring_digit.
    destruct (is_digit c13) eqn:D13.
    + rewrite S14. reflexivity.
    + assert (EH : String.eqb (String c13 "") "H" = Ascii.eqb c13 "H").
      { cbn. destruct (Ascii.eqb c13 "H"); reflexivity. }
      rewrite EH.
      destruct (Ascii.eqb c13 "H") eqn:H13; cbn [andb].
      * destruct (Ascii.eqb c16 " ") eqn:E16; cbn [str_nonempty negb].
        -- unfold slice. cbn [Nat.sub].
           destruct (substring_2 12 L) as [c [d [G1 [G2 E]]]]; [rewrite HlenL; lia|].
           rewrite E.
           assert (c = c13) as ->. { unfold c13, column. fold L. cbn [Nat.sub]. rewrite G1. reflexivity. }
           assert (d = c14) as ->. { unfold c14, column. fold L. cbn [Nat.sub]. rewrite G2. reflexivity. }
           rewrite strip_trim; [reflexivity | cbn; rewrite P13, P14; reflexivity].
        -- reflexivity.
      * unfold slice. cbn [Nat.sub].
        destruct (substring_2 12 L) as [c [d [G1 [G2 E]]]]; [rewrite HlenL; lia|].
        rewrite E.
        assert (c = c13) as ->. { unfold c13, column. fold L. cbn [Nat.sub]. rewrite G1. reflexivity. }
        assert (d = c14) as ->. { unfold c14, column. fold L. cbn [Nat.sub]. rewrite G2. reflexivity. }
        rewrite strip_trim; [reflexivity | cbn; rewrite P13, P14; reflexivity].
Qed.
End Record.

Section Record2.
Variable l : string.
Hypothesis Hp : printableb l = true.
Hypothesis Hlen : (length l <= 80)%nat.

Definition tag_of (t : ftype) : string := match t with TInt => "INT" | TReal => "REAL" | TText => "TEXT" end.

Definition field_ok (f : string * (nat * nat) * ftype) : Prop :=
  parse_field (pad80 l) (fst (fst f)) (tag_of (snd f)) = (do v <- spec_field l f; Ok (Some v)).

Ltac field_tac :=
  unfold field_ok, parse_field, spec_field;
  cbv [assoc delimiter_src blank_defaults_src String.eqb Ascii.eqb Bool.eqb int_tag_src real_tag_src
       fst snd segid_cols tag_of];
  unfold slice, columns; cbn [Nat.sub Nat.add];
  rewrite ?(strip_cols l Hp).

Lemma fields_ok : Forall field_ok wwpdb_cols.
Proof.
  unfold wwpdb_cols.
  repeat apply Forall_cons; try apply Forall_nil.
  - (* serial *) field_tac.
    destruct (str_nonempty (trim (substring 6 5 (pad80 l)))) eqn:E; cbn [bind];
    destruct (parse_int (trim (substring 6 5 (pad80 l)))); reflexivity.
  - (* name *) field_tac. destruct (str_nonempty _); reflexivity.
  - (* altLoc *) field_tac. destruct (str_nonempty _); reflexivity.
  - (* resName *) field_tac. destruct (str_nonempty _); reflexivity.
  - (* chainID *) field_tac.
    destruct (str_nonempty (trim (substring 21 1 (pad80 l)))) eqn:E; cbn [bind]; [reflexivity|].
    rewrite (get_chainID_spec l Hp). unfold columns. cbn [Nat.sub Nat.add].
    destruct (str_nonempty (trim (substring 72 4 (pad80 l)))); reflexivity.
  - (* resSeq *) field_tac.
    destruct (str_nonempty (trim (substring 22 4 (pad80 l)))) eqn:E; cbn [bind];
    destruct (parse_int (trim (substring 22 4 (pad80 l)))); reflexivity.
  - (* iCode *) field_tac. destruct (str_nonempty _); reflexivity.
  - (* x *) field_tac.
    destruct (str_nonempty (trim (substring 30 8 (pad80 l)))) eqn:E; cbn [bind].
    + destruct (parse_float _); reflexivity.
    + destruct (trim (substring 30 8 (pad80 l))); [reflexivity | discriminate E].
  - (* y *) field_tac.
    destruct (str_nonempty (trim (substring 38 8 (pad80 l)))) eqn:E; cbn [bind].
    + destruct (parse_float _); reflexivity.
    + destruct (trim (substring 38 8 (pad80 l))); [reflexivity | discriminate E].
  - (* z *) field_tac.
    destruct (str_nonempty (trim (substring 46 8 (pad80 l)))) eqn:E; cbn [bind].
    + destruct (parse_float _); reflexivity.
    + destruct (trim (substring 46 8 (pad80 l))); [reflexivity | discriminate E].
  - (* occ *) field_tac.
    destruct (str_nonempty (trim (substring 54 6 (pad80 l)))) eqn:E; cbn [bind].
    + destruct (parse_float _); reflexivity.
    + reflexivity.
  - (* temp *) field_tac.
    destruct (str_nonempty (trim (substring 60 6 (pad80 l)))) eqn:E; cbn [bind].
    + destruct (parse_float _); reflexivity.
    + reflexivity.
  - (* element *) field_tac.
    destruct (str_nonempty (trim (substring 76 2 (pad80 l)))) eqn:E; cbn [bind]; [reflexivity|].
    rewrite (get_element_spec l Hp Hlen). reflexivity.
Qed.
End Record2.

Lemma parse_fields_mapM l fs :
  Forall (field_ok l) fs ->
  parse_fields (pad80 l) (map (fun f => (fst (fst f), tag_of (snd f))) fs ++ [("model", "INT")])%list
  = mapM (spec_field l) fs.
Proof.
  induction fs as [|f fs IH]; intro H.
  - cbv [map app parse_fields parse_field assoc delimiter_src String.eqb Ascii.eqb Bool.eqb bind]. reflexivity.
  - inversion H as [|f' fs' Hf Hfs]; subst.
    cbn [map app parse_fields mapM]. unfold field_ok in Hf. rewrite Hf.
    destruct (spec_field l f) as [v|e]; cbn [bind]; [|reflexivity].
    rewrite (IH Hfs). destruct (mapM (spec_field l) fs); reflexivity.
Qed.

Theorem parse_record_exact l :
  printableb l = true -> parse_record 0 l = spec_row l.
Proof.
  intro Hp. unfold parse_record, spec_row. rewrite linelength_spec.
  destruct (Nat.ltb 80 (length l)) eqn:E; cbn [bind]; [reflexivity|].
  assert (Hlen : (length l <= 80)%nat) by lia.
  rewrite types_are_wwpdb.
  rewrite (map_ext _ (fun f => (fst (fst f), tag_of (snd f)))) by (intros [[? ?] []]; reflexivity).
  rewrite (parse_fields_mapM l wwpdb_cols (fields_ok l Hp Hlen)).
  reflexivity.
Qed.

(* a record of more than 80 columns is rejected *)
Lemma long_record_rejected nm l : (80 < length l)%nat -> parse_record nm l = Err "ValueError".
Proof.
  intro H. unfold parse_record. rewrite linelength_spec.
  replace (Nat.ltb 80 (length l)) with true by (symmetry; apply Nat.ltb_lt; exact H). reflexivity.
Qed.

(* ---------------- table level ---------------- *)
Lemma printable_upto_nl l : linecharsb l = true -> printableb (upto_nl l) = true.
Proof.
  induction l as [|c t IH]; cbn; intro H; [reflexivity|].
  apply andb_prop in H. destruct H as [Hc Ht].
  destruct (Ascii.eqb c nl) eqn:E; [reflexivity|].
  cbn. rewrite orb_false_r in Hc. rewrite Hc. apply IH, Ht.
Qed.

Lemma atom_prefix_is : forall l, startswith atom_prefix_src l = is_ATOM l.
Proof. reflexivity. Qed.
Lemma endmdl_prefix_is : forall l, startswith endmdl_prefix_src l = is_ENDMDL l.
Proof. reflexivity. Qed.

Theorem parse_lines_exact lines :
  Forall (fun l => linecharsb l = true) lines ->
  forallb (fun l => negb (is_ENDMDL l)) lines = true ->
  parse_lines lines 0 = (do rs <- spec_table lines; Ok (rs, 0%Z)).
Proof.
  unfold spec_table.
  induction lines as [|l t IH]; intros Hc He; [reflexivity|].
  inversion Hc as [|l' t' Hl Ht]; subst.
  cbn [forallb] in He. apply andb_prop in He. destruct He as [Hel Het].
  cbn [parse_lines filter]. rewrite atom_prefix_is, endmdl_prefix_is.
  destruct (is_ATOM l) eqn:EA.
  - cbn [map mapM]. rewrite (parse_record_exact _ (printable_upto_nl l Hl)).
    destruct (spec_row (upto_nl l)) as [r|e]; cbn [bind]; [|reflexivity].
    rewrite (IH Ht Het).
    destruct (mapM spec_row (map upto_nl (filter is_ATOM t))); reflexivity.
  - apply negb_true_iff in Hel. rewrite Hel. apply (IH Ht Het).
Qed.

(* records of any other type contribute no row, wherever they stand *)
Theorem other_records_ignored l1 x l2 n :
  is_ATOM x = false -> is_ENDMDL x = false ->
  parse_lines (l1 ++ x :: l2)%list n = parse_lines (l1 ++ l2)%list n.
Proof.
  intros HA HE. revert n. induction l1 as [|l t IH]; intro n.
  - cbn [app parse_lines]. rewrite atom_prefix_is, endmdl_prefix_is, HA, HE. reflexivity.
  - cbn [app parse_lines].
    destruct (startswith atom_prefix_src l).
    + rewrite IH. reflexivity.
    + destruct (startswith endmdl_prefix_src l); apply IH.
Qed.

(* one row per ATOM record, in input order *)
Lemma mapM_length {A B} (f : A -> res B) l r : mapM f l = Ok r -> List.length r = List.length l.
Proof.
  revert r. induction l as [|x t IH]; cbn; intros r H.
  - injection H as <-. reflexivity.
  - destruct (f x); cbn in H; [|discriminate H].
    destruct (mapM f t) eqn:E; cbn in H; [|discriminate H].
    injection H as <-. cbn. rewrite (IH _ eq_refl). reflexivity.
Qed.
Lemma mapM_nth {A B} (f : A -> res B) l r k d d' :
  mapM f l = Ok r -> (k < List.length l)%nat -> f (nth k l d) = Ok (nth k r d').
Proof.
  revert r k. induction l as [|x t IH]; cbn; intros r k H Hk; [lia|].
  destruct (f x) eqn:Ex; cbn in H; [|discriminate H].
  destruct (mapM f t) eqn:E; cbn in H; [|discriminate H].
  injection H as <-. destruct k as [|k]; cbn; [exact Ex|].
  apply IH; [reflexivity | lia].
Qed.

Theorem one_row_per_record lines rows :
  Forall (fun l => linecharsb l = true) lines ->
  forallb (fun l => negb (is_ENDMDL l)) lines = true ->
  parse_lines lines 0 = Ok (rows, 0%Z) ->
  List.length rows = List.length (filter is_ATOM lines) /\
  forall k, (k < List.length rows)%nat ->
    spec_row (upto_nl (nth k (filter is_ATOM lines) "")) = Ok (nth k rows []).
Proof.
  intros Hc He H. rewrite (parse_lines_exact lines Hc He) in H. unfold spec_table in H.
  destruct (mapM spec_row (map upto_nl (filter is_ATOM lines))) as [rs|e] eqn:E; cbn in H; [|discriminate H].
  assert (rs = rows) by congruence. subst rs.
  pose proof (mapM_length _ _ _ E) as HL. rewrite map_length in HL.
  split; [exact HL|].
  intros k Hk.
  pose proof (mapM_nth spec_row _ _ k "" [] E) as HN.
  rewrite map_length in HN. specialize (HN ltac:(lia)).
  rewrite <- HN. f_equal.
  symmetry. apply (map_nth upto_nl (filter is_ATOM lines) "" k).
Qed.

(* ---------------- rejections ---------------- *)
Lemma mapM_err {A B} (f : A -> res B) l x e :
  In x l -> f x = Err e -> exists e', mapM f l = Err e'.
Proof.
  induction l as [|y t IH]; cbn; intros Hin Hx; [contradiction|].
  destruct Hin as [->|Hin].
  - rewrite Hx. exists e. reflexivity.
  - destruct (f y); cbn; [|eexists; reflexivity].
    destruct (IH Hin Hx) as [e' ->]. exists e'. reflexivity.
Qed.

Theorem bad_field_rejected l f e :
  printableb l = true -> In f wwpdb_cols -> spec_field l f = Err e ->
  exists e', parse_record 0 l = Err e'.
Proof.
  intros Hp Hin He. rewrite (parse_record_exact l Hp). unfold spec_row.
  destruct (Nat.ltb 80 (length l)); [eexists; reflexivity|].
  destruct (mapM_err (spec_field l) wwpdb_cols f e Hin He) as [e' ->]. exists e'. reflexivity.
Qed.

Lemma nonnumeric_int_field l name a b :
  In (name, (a, b), TInt) wwpdb_cols -> parse_int (trim (columns a b l)) = NumBad ->
  spec_field l (name, (a, b), TInt) = Err "ValueError".
Proof. intros _ H. unfold spec_field. rewrite H. reflexivity. Qed.

Lemma nonnumeric_real_field l name a b :
  In (name, (a, b), TReal) wwpdb_cols -> str_nonempty (trim (columns a b l)) = true ->
  parse_float (trim (columns a b l)) = NumBad ->
  spec_field l (name, (a, b), TReal) = Err "ValueError".
Proof. intros _ H1 H2. unfold spec_field. rewrite H1, H2. reflexivity. Qed.

Lemma blank_chain_and_segid l :
  trim (columns 22 22 l) = "" -> trim (columns 73 76 l) = "" ->
  spec_field l ("chainID", (22, 22)%nat, TText) = Err "ValueError".
Proof. intros H1 H2. unfold spec_field. rewrite H1. cbn. rewrite H2. reflexivity. Qed.
