(* Run_fs.v — commands of cluster fs (C20, C16) for the executable model: decoding of wire values,
   one entry per command.  Imports no Proofs_* file. *)
From Verif Require Import PyLib ModelTypes Model_fs Spec_fs.
Open Scope string_scope.
Open Scope list_scope.

(* ---------------- decoding ---------------- *)
Definition d_opt {A} (f : V -> A) (v : V) : option A :=
  match v with VL (x :: _) => Some (f x) | _ => None end.
Definition d_cell (v : V) : cell :=
  match v with
  | VZ z => CInt z
  | VS s => CText s
  | VL [VZ n; VZ (Zpos d)] => CReal n d
  | _ => CInt 0
  end.
Definition d_row (v : V) : list cell := map d_cell (getL v).
Definition d_rows (v : V) : list (list cell) := map d_row (getL v).
Definition d_strs (v : V) : list string := map getS (getL v).
Definition d_zs (v : V) : list Z := map getZ (getL v).
Definition d_step (v : V) : sstep :=
  let a := getL v in
  let tag := getS (nth 0 a (VZ 0)) in
  if tag =? "commit" then SCommit
  else if tag =? "updcol" then
    SModify (MUpdCol (getS (nth 1 a (VZ 0))) (d_row (nth 2 a (VZ 0))) (d_opt d_zs (nth 3 a (VZ 0))))
  else if tag =? "update" then
    SModify (MUpdate (d_strs (nth 1 a (VZ 0))) (d_rows (nth 2 a (VZ 0))) (d_opt d_zs (nth 3 a (VZ 0))))
  else SModify (MAddCol (getS (nth 1 a (VZ 0))) (getS (nth 2 a (VZ 0))) (d_cell (nth 3 a (VZ 0)))).
Definition d_scenario (v : V) : scenario :=
  let a := getL v in
  mkSc (getS (nth 0 a (VZ 0))) (d_opt getS (nth 1 a (VZ 0))) (d_rows (nth 2 a (VZ 0)))
       (getB (nth 3 a (VZ 0))) (map d_step (getL (nth 4 a (VZ 0)))) (getB (nth 5 a (VZ 0))).
Definition d_table (cols rows : V) : table := mkTable (d_strs cols) (d_rows rows).
Definition d_outcome (v : V) : outcome :=
  let a := getL v in
  let tag := getS (nth 0 a (VZ 0)) in
  if tag =? "nofile" then ONoFile
  else if tag =? "notable" then ONoTable
  else if tag =? "table" then OTable (d_table (nth 1 a (VZ 0)) (nth 2 a (VZ 0)))
  else ONotDb.
(* initial directory: list of [path; "text"; content] | [path; "db"; outcome] *)
Definition d_fs (v : V) : fsys :=
  fold_left (fun fs e =>
    let a := getL e in
    let p := getS (nth 0 a (VZ 0)) in
    let kind := getS (nth 1 a (VZ 0)) in
    if kind =? "text" then fs_set fs p (Some (FText (getS (nth 2 a (VZ 0)))))
    else match d_outcome (nth 2 a (VZ 0)) with
         | ONoTable => fs_set fs p (Some (FDb None))
         | OTable t => fs_set fs p (Some (FDb (Some t)))
         | _ => fs
         end) (getL v) (fun _ => None).
Definition d_routine (v : V) : routine :=
  let a := getL v in
  let tag := getS (nth 0 a (VZ 0)) in
  let o1 := d_opt getS (nth 1 a (VZ 0)) in
  let o2 := d_opt getS (nth 2 a (VZ 0)) in
  if tag =? "lrmsd_fast" then RLrmsdFast o1
  else if tag =? "irmsd_fast" then RIrmsdFast o1
  else if tag =? "irmsd_sql" then RIrmsdSql o1 o2
  else if tag =? "lrmsd_sql" then RLrmsdSql o1
  else if tag =? "fnat_fast" then RFnatFast
  else if tag =? "fnat_sql" then RFnatSql
  else if tag =? "contacts" then RContacts
  else if tag =? "superpose" then RSuperpose (getB (nth 1 a (VZ 0)))
  else RAlign (getB (nth 1 a (VZ 0))).
Definition d_call (v : V) : call :=
  let a := getL v in
  mkCall (getS (nth 0 a (VZ 0))) (getS (nth 1 a (VZ 0))) (d_routine (nth 2 a (VZ 0)))
         (d_strs (nth 3 a (VZ 0))) (d_strs (nth 4 a (VZ 0))) (d_strs (nth 5 a (VZ 0))) (d_strs (nth 6 a (VZ 0))).

(* ---------------- encoding ---------------- *)
Definition e_cell (c : cell) : V :=
  match c with CInt z => VZ z | CText s => VS s | CReal n d => VL [VZ n; VZ (Zpos d)] end.
Definition e_outcome (o : outcome) : V :=
  match o with
  | ONoFile => VL [VS "nofile"]
  | ONoTable => VL [VS "notable"]
  | OTable t => VL [VS "table"; VL (map VS (t_cols t)); VL (map (fun r => VL (map e_cell r)) (t_rows t))]
  | ONotDb => VL [VS "notdb"]
  end.
Definition e_kind (k : stmt_kind) : string :=
  match k with KSelect => "select" | KDdl => "ddl" | KDml => "dml" end.
Definition e_act (a : act) : V :=
  match a with
  | AExists p => VL [VS "exists"; VS p]
  | AOpenTrunc p => VL [VS "opentrunc"; VS p]
  | AWriteChunk p s => VL [VS "write"; VS p; VS s]
  | AClose p => VL [VS "close"; VS p]
  | AReadAll p => VL [VS "read"; VS p]
  | ARemove p => VL [VS "remove"; VS p]
  | ARename s d => VL [VS "rename"; VS s; VS d]
  | AMkTemp p => VL [VS "mkstemp"; VS p]
  | AConnect _ None => VL [VS "connect"; VS ":memory:"]
  | AConnect _ (Some p) => VL [VS "connect"; VS p]
  | AExec _ k _ => VL [VS "exec"; VS (e_kind k)]
  | ACommit _ => VL [VS "commit"]
  | ACloseConn _ => VL [VS "closeconn"]
  end.
Definition e_content (c : option content) : V :=
  match c with
  | None => VL [VS "none"]
  | Some (FText s) => VL [VS "text"; VS s]
  | Some (FDb None) => VL [VS "db"; e_outcome ONoTable]
  | Some (FDb (Some t)) => VL [VS "db"; e_outcome (OTable t)]
  | Some FJournal => VL [VS "journal"]
  end.
Definition e_res_strs (r : res obs) : V :=
  match r with Ok l => VOk (VL [VL (map VS (fst l)); VL (map VS (snd l))]) | Err e => VErr e end.

(* ---------------- C20 ---------------- *)
(* everything the harness compares, for every crash point k = 0..N *)
Definition c20_run (sc : scenario) (fs0 : fsys) (watch : list path) : V :=
  let ex := is_some (fs0 (sc_name sc)) in
  let gs := c20_groups ex sc in
  let n := List.length (c20_flat ex sc) in
  let w0 := world0 fs0 in
  let point (k : nat) : V :=
    let w := fst (run_n k w0 (c20_script sc)) in
    let fs := crash w in
    VL [VZ (Z.of_nat (group_of gs k));
        e_outcome (observe (recover fs (sc_name sc)) (sc_name sc));
        VB (is_some (fs (jpath (sc_name sc))));
        VL (map VS (filter (fun p => negb (match fs p, fs0 p with
                                           | None, None => true
                                           | Some (FText a), Some (FText b) => String.eqb a b
                                           | _, _ => false end)) watch))] in
  VL [VL (map (fun ar => e_act (fst ar)) (trace_n n w0 (c20_script sc)));
      VL (map point (seq 0 (S n)))].

(* ---------------- C16 ---------------- *)
Definition c16_run (c : call) (fs0 : fsys) (watch : list path) : V :=
  let n := fuel c in
  let '(fs, p) := frun_n n fs0 (script c) in
  VL [VL (map (fun ar => e_act (fst ar)) (ftrace_n n fs0 (script c)));
      match result_of p with Some r => e_res_strs r | None => VErr "out-of-fuel" end;
      VL (map (fun q => e_content (fs q)) watch)].

Definition c16_sched (cs : list call) (fs0 : fsys) (sched : list nat) (watch : list path) : V :=
  let ts := map script cs in
  (* the given schedule, then every task to its end, in order *)
  let tail := flat_map (fun i => repeat i (fuel (nth i cs (mkCall "" "" RContacts [] [] [] [])))) (seq 0 (List.length cs)) in
  let '(fs, ts') := run_sched (sched ++ tail) (fs0, ts) in
  VL [VL (map (fun p => match result_of p with Some r => e_res_strs r | None => VErr "out-of-fuel" end) ts');
      VL (map (fun q => e_content (fs q)) watch);
      VL (map (fun ia => VL [VZ (Z.of_nat (fst ia)); e_act (snd ia)]) (sched_trace (sched ++ tail) (fs0, ts)))].


(* the model's opinion on a schedule, computed here: does every task end with the basis (zone it goes
   on with + input texts) of its solo run?  one boolean per task *)
Definition basis_of (p : prog (res obs)) : option (res (list string)) :=
  match result_of p with
  | Some (Ok o) => Some (Ok (fst o))
  | Some (Err e) => Some (Err e)
  | None => None
  end.
Definition basis_eqb (a b : option (res (list string))) : bool :=
  match a, b with
  | Some (Ok x), Some (Ok y) => list_eqb String.eqb x y
  | Some (Err x), Some (Err y) => String.eqb x y
  | None, None => true
  | _, _ => false
  end.
Definition c16_sched_same (inplace : bool) (cs : list call) (fs0 : fsys) (sched : list nat) : V :=
  let scr := if inplace then script_in_place else script in
  let ts := map scr cs in
  let tail := flat_map (fun i => repeat i (fuel (nth i cs (mkCall "" "" RContacts [] [] [] [])))) (seq 0 (List.length cs)) in
  let '(fs, ts') := run_sched (sched ++ tail) (fs0, ts) in
  VL (map (fun cp => VB (basis_eqb (basis_of (snd cp)) (basis_of (snd (frun_n (fuel (fst cp)) fs0 (scr (fst cp)))))))
          (combine cs ts')).

Definition run_fs (cmd : string) (a : list V) : option V :=
  if cmd =? "fs.c20.run" then
    Some (c20_run (d_scenario (nth 0 a (VZ 0))) (d_fs (nth 1 a (VZ 0))) (d_strs (nth 2 a (VZ 0))))
  else if cmd =? "spec.fs.c20.allowed" then
    Some (VB (allowedb (d_outcome (nth 1 a (VZ 0))) (d_scenario (nth 0 a (VZ 0)))
                       (Z.to_nat (getZ (nth 2 a (VZ 0)))) (d_outcome (nth 3 a (VZ 0)))))
  else if cmd =? "spec.fs.c20.literal" then
    Some (VB (allowed_literalb (d_outcome (nth 1 a (VZ 0))) (d_scenario (nth 0 a (VZ 0)))
                               (Z.to_nat (getZ (nth 2 a (VZ 0)))) (d_outcome (nth 3 a (VZ 0)))))
  else if cmd =? "spec.fs.c20.final" then
    let sc := d_scenario (nth 0 a (VZ 0)) in
    Some (e_outcome (if sc_keep sc then OTable (final_table sc) else ONoFile))
  else if cmd =? "fs.c16.run" then
    Some (c16_run (d_call (nth 0 a (VZ 0))) (d_fs (nth 1 a (VZ 0))) (d_strs (nth 2 a (VZ 0))))
  else if cmd =? "fs.c16.sched" then
    Some (c16_sched (map d_call (getL (nth 0 a (VZ 0)))) (d_fs (nth 1 a (VZ 0)))
                    (map Z.to_nat (d_zs (nth 2 a (VZ 0)))) (d_strs (nth 3 a (VZ 0))))
  else if cmd =? "fs.c16.sched_same" then
    Some (VL (map (fun sv => c16_sched_same (getB (nth 3 a (VZ 0))) (map d_call (getL (nth 0 a (VZ 0)))) (d_fs (nth 1 a (VZ 0)))
                                            (map Z.to_nat (d_zs sv)))
                  (getL (nth 2 a (VZ 0)))))
  else if cmd =? "spec.fs.c16.outputs" then
    let c := d_call (nth 0 a (VZ 0)) in
    Some (VL [VL (map VS (requested_outputs c)); VL (map VS (transients c)); VL (map VS (inputs_of c))])
  else None.
