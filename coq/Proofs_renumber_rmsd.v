(* Proofs_renumber_rmsd.v — C11: renumbering and the i-RMSD.  With all residue numbers of decoy and reference mapped
   through the same strictly increasing g (e.g. + k), the interface zone is the old zone mapped through g, and the fast
   i-RMSD computed with it (same rotation) is the same number: the coordinate lists handed to the kernel are the same. *)
From Coq Require Import Lia.
From Verif Require Import PyLib ModelTypes Generated_contact Model_contact Model_many Model_superpose Model_zone Model_rmsd
  Proofs_invariance Proofs_renumber.
Open Scope Z_scope.

Section RenumRmsd.
Variable g : Z -> Z.
Hypothesis g_mono : forall x y, x < y -> g x < g y.
Let g_eq := g_eqb g g_mono.

Definition gz (cz : string * Z) : string * Z := (fst cz, g (snd cz)).
Definition mrd (rd : resdata) : resdata := map (fun e => (fst e, map g (snd e))) rd.
Definition h3k (k : key3) : key3 := let '(c, n, m) := k in (c, g n, m).

Lemma group_add_g c z G : group_add c (g z) (mrd G) = mrd (group_add c z G).
Proof.
  unfold mrd. induction G as [|[c' zs] t IH]; cbn [map group_add fst snd]; [reflexivity|].
  destruct (String.eqb c c'); cbn [map fst snd]; [rewrite map_app; reflexivity | rewrite IH; reflexivity].
Qed.
Lemma group_g l : group (map gz l) = mrd (group l).
Proof.
  unfold group. change (@nil (string * list Z)) with (mrd []) at 1. generalize (@nil (string * list Z)).
  induction l as [|[c z] t IH]; intro G; [reflexivity|]. cbn [map fold_left gz fst snd]. rewrite group_add_g. apply IH.
Qed.
Lemma in_resdata_g rd c : in_resdata (mrd rd) c = option_map (map g) (in_resdata rd c).
Proof.
  unfold in_resdata, mrd. induction rd as [|[c' l] t IH]; [reflexivity|]. cbn [map find fst snd].
  destruct (String.eqb c' c); [reflexivity | exact IH].
Qed.

Lemma inz_pred_g names rd a :
  (mem String.eqb (name (renum g a)) names &&
   match in_resdata (mrd rd) (chain (renum g a)) with Some l => mem Z.eqb (resSeq (renum g a)) l | None => false end)%bool
  = (mem String.eqb (name a) names && match in_resdata rd (chain a) with Some l => mem Z.eqb (resSeq a) l | None => false end)%bool.
Proof.
  cbn [name chain resSeq renum]. rewrite in_resdata_g. destruct (in_resdata rd (chain a)) as [l|]; cbn [option_map]; [|reflexivity].
  rewrite (mem_map g Z.eqb Z.eqb g_eq). reflexivity.
Qed.
Lemma in_zone_atoms_g names rd s :
  in_zone_atoms names (mrd rd) (map (renum g) s) = map (renum g) (in_zone_atoms names rd s).
Proof. unfold in_zone_atoms. apply filter_map_comm. intro a. apply inz_pred_g. Qed.
Lemma not_in_zone_atoms_g names rd s :
  not_in_zone_atoms names (mrd rd) (map (renum g) s) = map (renum g) (not_in_zone_atoms names rd s).
Proof.
  unfold not_in_zone_atoms. apply filter_map_comm. intro a. cbn [name chain renum]. rewrite in_resdata_g.
  destruct (in_resdata rd (chain a)); reflexivity.
Qed.

Lemma key3_of_g a : key3_of (renum g a) = h3k (key3_of a). Proof. reflexivity. Qed.
Lemma h3k_eqb p q : key3_eqb (h3k p) (h3k q) = key3_eqb p q.
Proof. destruct p as [[c n] m]. destruct q as [[c' n'] m']. cbn. rewrite g_eq. reflexivity. Qed.
Lemma keys_g s : map key3_of (map (renum g) s) = map h3k (map key3_of s).
Proof. rewrite !map_map. apply map_ext. intro a. reflexivity. Qed.
Lemma inter_keys_g a b : inter_keys (map h3k a) (map h3k b) = map h3k (inter_keys a b).
Proof. unfold inter_keys. apply filter_map_comm. intro k. apply (mem_map h3k key3_eqb key3_eqb h3k_eqb). Qed.
Lemma get_xyz_by_keys_g s keys : get_xyz_by_keys (map (renum g) s) (map h3k keys) = get_xyz_by_keys s keys.
Proof.
  unfold get_xyz_by_keys.
  rewrite (filter_map_comm (renum g) (fun a => mem key3_eqb (key3_of a) (map h3k keys)) (fun a => mem key3_eqb (key3_of a) keys))
    by (intro a; rewrite key3_of_g; apply (mem_map h3k key3_eqb key3_eqb h3k_eqb)).
  rewrite map_map. apply map_ext. intro a. reflexivity.
Qed.

(* check_residues *)
Lemma list_eqb_map {A B} (h : A -> B) (ea : A -> A -> bool) (eb : B -> B -> bool) :
  (forall x y, eb (h x) (h y) = ea x y) -> forall l l', list_eqb eb (map h l) (map h l') = list_eqb ea l l'.
Proof.
  intro H. induction l as [|x t IH]; destruct l' as [|y t']; cbn; try reflexivity. rewrite H, IH. reflexivity.
Qed.
Let hkk := hk g.
Lemma resk_of_g a : resk_of (renum g a) = hkk (resk_of a). Proof. reflexivity. Qed.
Lemma resk_list_g names s : resk_list names (map (renum g) s) = map hkk (resk_list names s).
Proof.
  unfold resk_list.
  rewrite (filter_map_comm (renum g) (fun a => match names with Some l => mem String.eqb (name a) l | None => true end)
                                    (fun a => match names with Some l => mem String.eqb (name a) l | None => true end))
    by (intro a; reflexivity).
  rewrite map_map, (map_ext (fun x => resk_of (renum g x)) (fun x => hkk (resk_of x)) resk_of_g), <- (map_map resk_of hkk).
  apply (dedup_map hkk resk_eqb resk_eqb (hk_eqb g g_mono)).
Qed.
Lemma names_of_res_g names s k : names_of_res names (map (renum g) s) (hkk k) = names_of_res names s k.
Proof.
  unfold names_of_res.
  rewrite (filter_map_comm (renum g)
            (fun a => (resk_eqb (resk_of a) (hkk k) && match names with Some l => mem String.eqb (name a) l | None => true end)%bool)
            (fun a => (resk_eqb (resk_of a) k && match names with Some l => mem String.eqb (name a) l | None => true end)%bool))
    by (intro a; rewrite resk_of_g; unfold hkk; rewrite (hk_eqb g g_mono); reflexivity).
  rewrite map_map. apply map_ext. intro a. reflexivity.
Qed.
Lemma check_residues_g enforce names decoy ref :
  check_residues enforce names (map (renum g) decoy) (map (renum g) ref) = check_residues enforce names decoy ref.
Proof.
  unfold check_residues. rewrite !resk_list_g, (list_eqb_map hkk resk_eqb resk_eqb (hk_eqb g g_mono)).
  destruct (negb (list_eqb resk_eqb (resk_list names ref) (resk_list names decoy))); [reflexivity|].
  assert (F : forallb (fun k => list_eqb String.eqb (names_of_res names (map (renum g) ref) k) (names_of_res names (map (renum g) decoy) k))
                      (map hkk (resk_list names ref))
            = forallb (fun k => list_eqb String.eqb (names_of_res names ref k) (names_of_res names decoy k)) (resk_list names ref)).
  { induction (resk_list names ref) as [|k t IH]; [reflexivity|]. cbn [map forallb]. rewrite !names_of_res_g, IH. reflexivity. }
  rewrite F. reflexivity.
Qed.

(* the fast i-RMSD with the mapped zone on the renumbered structures *)
Theorem irmsd_fast_renumbered rmat z check enforce decoy ref :
  irmsd_fast rmat (map gz z) check enforce (map (renum g) decoy) (map (renum g) ref) = irmsd_fast rmat z check enforce decoy ref.
Proof.
  unfold irmsd_fast, resdata_of. rewrite group_g, check_residues_g, !in_zone_atoms_g, !keys_g, inter_keys_g, !get_xyz_by_keys_g.
  rewrite !map_map. rewrite (map_ext (fun x => pos_of (renum g x)) pos_of (fun a => eq_refl)). reflexivity.
Qed.

(* the interface zone of the renumbered reference is the old zone mapped through g *)
Lemma gz_eqb p q : cz_eqb (gz p) (gz q) = cz_eqb p q.
Proof. unfold cz_eqb, gz. cbn [fst snd]. rewrite g_eq. reflexivity. Qed.
Lemma g_leb' x y : (g x <=? g y) = (x <=? y).
Proof.
  destruct (Z.leb_spec x y) as [L|L].
  - apply Z.leb_le. destruct (Z.eq_dec x y) as [->|N]; [lia|]. pose proof (g_mono x y ltac:(lia)). lia.
  - apply Z.leb_gt. apply g_mono. exact L.
Qed.
Lemma gz_leb p q : cz_leb (gz p) (gz q) = cz_leb p q.
Proof. unfold cz_leb, gz. cbn [fst snd]. rewrite g_leb'. reflexivity. Qed.
Lemma sorted_set_cz_g l : sorted_set_cz (map gz l) = map gz (sorted_set_cz l).
Proof. unfold sorted_set_cz. rewrite (dedup_map gz cz_eqb cz_eqb gz_eqb). apply (sort_by_map gz cz_leb cz_leb gz_leb). Qed.

Theorem compute_izone_renumbered c ref :
  compute_izone c (map (renum g) ref) = map_res (map gz) (compute_izone c ref).
Proof.
  unfold compute_izone. rewrite (get_chains_map (renum g) (fun a => eq_refl)).
  destruct (get_chains ref) as [|c1 [|c2 [|c3 l]]]; try reflexivity.
  rewrite (contact_atoms_renumbered g g_mono (closeQ c) (closeQ c) (renum g) false false) by (intros; reflexivity).
  destruct (get_contact_atoms (closeQ c) false false ref false c1 c2 true) as [r|e]; cbn [bind map_res]; [|reflexivity].
  f_equal.
  rewrite (filter_map_comm (renum g)
            (fun a => (mem Z.eqb (idx a) (flat_map snd (fst r)) && mem String.eqb (name a) backbone4)%bool)
            (fun a => (mem Z.eqb (idx a) (flat_map snd (fst r)) && mem String.eqb (name a) backbone4)%bool)) by (intro a; reflexivity).
  rewrite map_map, (map_ext (fun x => (chain (renum g x), resSeq (renum g x))) (fun x => gz (chain x, resSeq x)) (fun a => eq_refl)).
  rewrite <- (map_map (fun a => (chain a, resSeq a)) gz). apply sorted_set_cz_g.
Qed.

(* zone computed from the reference, then the fast i-RMSD: unchanged by the renumbering *)
Theorem irmsd_pipeline_renumbered rmat c check enforce decoy ref :
  (do z <- compute_izone c (map (renum g) ref); irmsd_fast rmat z check enforce (map (renum g) decoy) (map (renum g) ref))
  = (do z <- compute_izone c ref; irmsd_fast rmat z check enforce decoy ref).
Proof.
  rewrite compute_izone_renumbered. destruct (compute_izone c ref) as [z|e]; cbn [map_res bind]; [|reflexivity].
  apply irmsd_fast_renumbered.
Qed.

(* the fast L-RMSD likewise *)
Theorem lrmsd_fast_renumbered rmat z check enforce names decoy ref :
  lrmsd_fast rmat (map gz z) check enforce names (map (renum g) decoy) (map (renum g) ref) = lrmsd_fast rmat z check enforce names decoy ref.
Proof.
  unfold lrmsd_fast, resdata_of. rewrite group_g, check_residues_g, !in_zone_atoms_g, !not_in_zone_atoms_g, !keys_g, !inter_keys_g, !get_xyz_by_keys_g.
  rewrite !map_map. rewrite (map_ext (fun x => pos_of (renum g x)) pos_of (fun a => eq_refl)). reflexivity.
Qed.
Theorem compute_lzone_renumbered ref : compute_lzone (map (renum g) ref) = map_res (map gz) (compute_lzone ref).
Proof.
  unfold compute_lzone. rewrite (get_chains_map (renum g) (fun a => eq_refl)).
  destruct (get_chains ref) as [|c1 [|c2 [|c3 l]]]; try reflexivity. cbn [map_res].
  assert (CA : forall c, chain_atoms (map (renum g) ref) c = map (renum g) (chain_atoms ref c)).
  { intro c. unfold chain_atoms. apply filter_map_comm. intro a. reflexivity. }
  rewrite !CA, !map_length. f_equal.
  rewrite map_map, (map_ext (fun x => (chain (renum g x), resSeq (renum g x))) (fun x => gz (chain x, resSeq x)) (fun a => eq_refl)).
  rewrite <- (map_map (fun a => (chain a, resSeq a)) gz). apply sorted_set_cz_g.
Qed.
Theorem lrmsd_pipeline_renumbered rmat check enforce names decoy ref :
  (do z <- compute_lzone (map (renum g) ref); lrmsd_fast rmat z check enforce names (map (renum g) decoy) (map (renum g) ref))
  = (do z <- compute_lzone ref; lrmsd_fast rmat z check enforce names decoy ref).
Proof.
  rewrite compute_lzone_renumbered. destruct (compute_lzone ref) as [z|e]; cbn [map_res bind]; [|reflexivity].
  apply lrmsd_fast_renumbered.
Qed.
End RenumRmsd.

Corollary irmsd_pipeline_shifted k rmat c check enforce decoy ref :
  (do z <- compute_izone c (map (renum (fun n => n + k)) ref); irmsd_fast rmat z check enforce (map (renum (fun n => n + k)) decoy) (map (renum (fun n => n + k)) ref))
  = (do z <- compute_izone c ref; irmsd_fast rmat z check enforce decoy ref).
Proof. apply irmsd_pipeline_renumbered. intros x y H. cbv beta. lia. Qed.
