(* Proofs_fs_sites.v — the call-site table regenerated from /repo equals the table the model's scripts
   were written from; consequences used by C20 and C16. *)
From Verif Require Import PyLib ModelTypes Model_fs Generated_fs.
Open Scope string_scope.
Open Scope list_scope.

Theorem callsites_match : callsites_src = model_callsites.
Proof. reflexivity. Qed.

Definition is_shell (k : site_kind) : bool := match k with SShell => true | _ => false end.
Definition is_connect (k : site_kind) : bool := match k with SConnect => true | _ => false end.
Definition is_remove (k : site_kind) : bool := match k with SRemove => true | _ => false end.
Definition writes_kind (k : site_kind) : bool :=
  match k with
  | SOpen m | SFdopen m => negb (String.eqb m "r" || String.eqb m "rb")
  | SRemove | SReplace | SCopy | SMkdir | SConnect | SMkstemp | SPickleDump | SNumpyWrite
  | SExport | SToCsv | SPathWrite | SShell | SChdir | SSqlfileArg => true
  | _ => false
  end.
Definition sites_where (f : site_kind -> bool) (l : list callsite) : list callsite :=
  filter (fun s => f (cs_kind s)) l.

(* no call site runs a command (os.system, os.popen, subprocess.*, exec/eval) *)
Theorem no_shell_site : sites_where is_shell callsites_src = [].
Proof. rewrite callsites_match. reflexivity. Qed.

(* the only files ever removed are named by self.sqlfile: in _create_sql (before connecting) and in _close *)
Theorem remove_sites :
  map (fun s => (cs_func s, cs_path s)) (sites_where is_remove callsites_src)
  = [("pdb2sql_base._close", "self.sqlfile"); ("pdb2sql._create_sql", "self.sqlfile")].
Proof. rewrite callsites_match. reflexivity. Qed.

(* database connections: in memory, or on the caller's sqlfile; no fixed-name scratch database *)
Theorem connect_sites :
  map (fun s => (cs_func s, cs_path s)) (sites_where is_connect callsites_src)
  = [("pdb2sql._create_sql", "':memory:'"); ("pdb2sql._create_sql", "self.sqlfile")].
Proof. rewrite callsites_match. reflexivity. Qed.

(* no routine of the package creates a database object on a file *)
Definition is_sqlfile_arg (k : site_kind) : bool := match k with SSqlfileArg => true | _ => false end.
Theorem no_sqlfile_argument : sites_where is_sqlfile_arg callsites_src = [].
Proof. rewrite callsites_match. reflexivity. Qed.

(* the zone file is written through mkstemp + fdopen + os.replace, and by nothing else *)
Theorem zone_writer_sites :
  map cs_kind (filter (fun s => String.eqb (cs_func s) "StructureSimilarity._write_zone") callsites_src)
  = [SMkstemp; SFdopen "w"; SReplace].
Proof. rewrite callsites_match. reflexivity. Qed.

(* every call site that can create, change or delete something, with the script fragment that models it *)
Theorem writing_sites :
  map (fun s => (cs_func s, cs_kind s)) (sites_where writes_kind callsites_src)
  = [("pdb2sql_base.exportpdb", SOpen "a");                                   (* exportpdb(append=True): not used by any routine *)
     ("pdb2sql_base.exportpdb", SOpen "w");                                   (* Model_fs.exportpdb *)
     ("pdb2sql_base._close", SRemove);                                        (* Model_fs.acts_close *)
     ("pdb2sql._create_sql", SConnect);                                       (* ':memory:'  Model_fs.new_db *)
     ("pdb2sql._create_sql", SRemove);                                        (* Model_fs.c20_prelude *)
     ("pdb2sql._create_sql", SConnect);                                       (* Model_fs.acts_create *)
     ("superpose", SExport);                                                  (* Model_fs.script RSuperpose *)
     ("export_aligned", SExport);                                             (* Model_fs.script RAlign *)
     ("StructureSimilarity.compute_residue_pairs_ref", SOpen "wb");           (* save_file=True only: no routine *)
     ("StructureSimilarity.compute_residue_pairs_ref", SOpen "wb");
     ("StructureSimilarity.compute_residue_pairs_ref", SPickleDump);
     ("StructureSimilarity.compute_lrmsd_pdb2sql", SExport);                  (* Model_fs.script RLrmsdSql *)
     ("StructureSimilarity.compute_lrmsd_pdb2sql", SExport);
     ("StructureSimilarity.compute_irmsd_pdb2sql", SExport);                  (* Model_fs.script RIrmsdSql *)
     ("StructureSimilarity.compute_irmsd_pdb2sql", SExport);
     ("StructureSimilarity._write_zone", SMkstemp);                           (* Model_fs.write_zone *)
     ("StructureSimilarity._write_zone", SFdopen "w");
     ("StructureSimilarity._write_zone", SReplace);
     ("fetch", SOpen "wb")].                                                  (* utils.fetch: network download, outside C16 *)
Proof. rewrite callsites_match. reflexivity. Qed.
