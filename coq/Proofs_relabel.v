(* Proofs_relabel.v — C11: the position labels (row numbers) are immaterial.  Relabelling the atoms of a structure by any
   strictly increasing map g (what happens to the row numbers of the old records when records are inserted, e.g. added
   hydrogens) maps the contact atoms and the pair map through g and leaves the residue pairs, the clash count and Fnat
   unchanged.  Together with Proofs_hydrogens: adding hydrogens anywhere in the file changes neither clash count nor Fnat. *)
From Coq Require Import Lia.
From Verif Require Import PyLib ModelTypes Generated_contact Model_contact Proofs_invariance Proofs_renumber Proofs_hydrogens.
Open Scope Z_scope.

Section Relabel.
Variable g : Z -> Z.
Hypothesis g_mono : forall x y, x < y -> g x < g y.
Let g_eq := g_eqb g g_mono.
Lemma g_leb x y : (g x <=? g y) = (x <=? y).
Proof.
  destruct (Z.leb_spec x y) as [L|L].
  - apply Z.leb_le. destruct (Z.eq_dec x y) as [->|N]; [lia|]. pose proof (g_mono x y ltac:(lia)). lia.
  - apply Z.leb_gt. apply g_mono. exact L.
Qed.

Variables (close close' : atom -> atom -> bool) (f : atom -> atom) (only_bb exclH : bool).
Hypothesis Hidx : forall a, idx (f a) = g (idx a).
Hypothesis Hchain : forall a, chain (f a) = chain a.
Hypothesis HresName : forall a, resName (f a) = resName a.
Hypothesis HresSeq : forall a, resSeq (f a) = resSeq a.
Hypothesis Hname : forall a, name (f a) = name a.
Hypothesis Hclose : forall a b, close' (f a) (f b) = close a b.

Definition mcd (cd : cdict) : cdict := map (fun kv => (fst kv, map g (snd kv))) cd.
Definition mpm (pm : pmap) : pmap := map (fun kv => (g (fst kv), map g (snd kv))) pm.
Definition mst (st : cdict * pmap) : cdict * pmap := (mcd (fst st), mpm (snd st)).

Lemma dext_mcd c l d : dext String.eqb c (map g l) (mcd d) = mcd (dext String.eqb c l d).
Proof.
  unfold dext, mcd. induction d as [|[k v] t IH]; cbn [map dupd fst snd]; [reflexivity|].
  destruct (String.eqb c k); cbn [map fst snd]; [rewrite map_app; reflexivity | rewrite IH; reflexivity].
Qed.
Lemma dext_mpm k l d : dext Z.eqb (g k) (map g l) (mpm d) = mpm (dext Z.eqb k l d).
Proof.
  unfold dext, mpm. induction d as [|[k' v] t IH]; cbn [map dupd fst snd]; [reflexivity|].
  rewrite g_eq. destruct (Z.eqb k k'); cbn [map fst snd]; [rewrite map_app; reflexivity | rewrite IH; reflexivity].
Qed.

Lemma chain_atoms_f s c : chain_atoms (map f s) c = map f (chain_atoms s c).
Proof. unfold chain_atoms. apply filter_map_comm. intro x. rewrite Hchain. reflexivity. Qed.
Lemma keep2_f b : keep2 only_bb exclH (f b) = keep2 only_bb exclH b.
Proof. unfold keep2. rewrite Hname. reflexivity. Qed.

Lemma atom_step_f c1 c2 atoms2 st a :
  atom_step close' only_bb exclH c1 c2 (map f atoms2) (mst st) (f a) = mst (atom_step close only_bb exclH c1 c2 atoms2 st a).
Proof.
  unfold atom_step.
  rewrite (filter_map_comm f (close' (f a)) (close a) atoms2 (fun x => Hclose a x)).
  rewrite Hname, Hidx, is_nil_map.
  rewrite (filter_map_comm f (keep2 only_bb exclH) (keep2 only_bb exclH) _ keep2_f).
  rewrite map_map. rewrite (map_ext (fun x => idx (f x)) (fun x => g (idx x)) Hidx), <- (map_map idx g), is_nil_map.
  destruct (exclH && is_H (name a))%bool; [reflexivity|].
  destruct (negb (is_nil (filter (close a) atoms2)) && (negb only_bb || is_bb (name a)))%bool; [|reflexivity].
  destruct (negb (is_nil (map idx (filter (keep2 only_bb exclH) (filter (close a) atoms2))))); [|reflexivity].
  unfold mst. cbn [fst snd]. change [g (idx a)] with (map g [idx a]). rewrite !dext_mcd, dext_mpm. reflexivity.
Qed.

Lemma fold_atom_step_f c1 c2 atoms2 l st :
  fold_left (atom_step close' only_bb exclH c1 c2 (map f atoms2)) (map f l) (mst st)
  = mst (fold_left (atom_step close only_bb exclH c1 c2 atoms2) l st).
Proof. revert st. induction l as [|a t IH]; intro st; [reflexivity|]. cbn [map fold_left]. rewrite atom_step_f. apply IH. Qed.

Lemma pair_step_f s st cc : pair_step close' only_bb exclH (map f s) (mst st) cc = mst (pair_step close only_bb exclH s st cc).
Proof.
  destruct cc as [c1 c2]. unfold pair_step. rewrite !chain_atoms_f.
  change (@nil Z) with (map g []). unfold mst at 1. cbn [fst snd]. rewrite !dext_mcd.
  apply (fold_atom_step_f c1 c2 (chain_atoms s c2) (chain_atoms s c1) (dext String.eqb c2 [] (dext String.eqb c1 [] (fst st)), snd st)).
Qed.
Lemma fold_pair_step_f s l st :
  fold_left (pair_step close' only_bb exclH (map f s)) l (mst st) = mst (fold_left (pair_step close only_bb exclH s) l st).
Proof. revert st. induction l as [|c t IH]; intro st; [reflexivity|]. cbn [fold_left]. rewrite pair_step_f. apply IH. Qed.

Lemma sorted_set_Z_g v : sorted_set_Z (map g v) = map g (sorted_set_Z v).
Proof. unfold sorted_set_Z. rewrite (dedup_map g Z.eqb Z.eqb g_eq). apply (sort_by_map g Z.leb Z.leb g_leb). Qed.

Lemma dget_mcd c d : dget String.eqb c (mcd d) = option_map (map g) (dget String.eqb c d).
Proof. unfold mcd. induction d as [|[k v] t IH]; [reflexivity|]. cbn [map dget fst snd]. destruct (String.eqb c k); [reflexivity | exact IH]. Qed.
Lemma dupd_const_mcd c v d : dupd String.eqb c (fun _ => map g v) (mcd d) = mcd (dupd String.eqb c (fun _ => v) d).
Proof.
  unfold mcd. induction d as [|[k w] t IH]; cbn [map dupd fst snd]; [reflexivity|].
  destruct (String.eqb c k); cbn [map fst snd]; [reflexivity | rewrite IH; reflexivity].
Qed.

Lemma uniques_f cs ic : uniques cs (mcd ic) = map_res mcd (uniques cs ic).
Proof.
  revert ic. induction cs as [|c t IH]; intro ic; [reflexivity|]. cbn [uniques]. rewrite dget_mcd.
  destruct (dget String.eqb c ic) as [v|]; cbn [option_map]; [|reflexivity].
  rewrite sorted_set_Z_g, dupd_const_mcd. apply IH.
Qed.

(* contact atoms and pair map (no residue extension): mapped through g *)
Theorem contact_atoms_relabelled s allchains c1 c2 :
  get_contact_atoms close' only_bb exclH (map f s) allchains c1 c2 false
  = map_res mst (get_contact_atoms close only_bb exclH s allchains c1 c2 false).
Proof.
  unfold get_contact_atoms. rewrite !(get_chains_map f Hchain).
  destruct (negb (forallb _ _)); [reflexivity|].
  change (@nil (string * list Z), @nil (Z * list Z)) with (mst ([], [])). rewrite fold_pair_step_f.
  set (st := fold_left (pair_step close only_bb exclH s) _ _). unfold mst at 1. cbn [fst snd]. rewrite uniques_f.
  destruct (uniques _ (fst st)) as [ic|e]; cbn [map_res bind]; reflexivity.
Qed.

(* residue pairs: unchanged *)
Lemma rows_by_idx_f s L : rows_by_idx (map f s) (map g L) = map f (rows_by_idx s L).
Proof. unfold rows_by_idx. apply filter_map_comm. intro x. rewrite Hidx. apply (mem_map g Z.eqb Z.eqb g_eq). Qed.
Lemma res3_of_ff a : res3_of (f a) = res3_of a.
Proof. unfold res3_of. rewrite Hchain, HresSeq, HresName. reflexivity. Qed.

Lemma respair_step_ff s acc i l : respair_step (map f s) acc (g i, map g l) = respair_step s acc (i, l).
Proof.
  unfold respair_step. destruct acc as [d|e]; cbn [bind]; [|reflexivity].
  change [g i] with (map g [i]). rewrite !rows_by_idx_f.
  destruct (rows_by_idx s [i]) as [|a1 t]; cbn [map]; [reflexivity|].
  rewrite res3_of_ff, map_map, (map_ext (fun x => res3_of (f x)) res3_of res3_of_ff). reflexivity.
Qed.

Theorem residue_pairs_relabelled s allchains c1 c2 :
  get_contact_residue_pairs close' only_bb exclH (map f s) allchains c1 c2
  = get_contact_residue_pairs close only_bb exclH s allchains c1 c2.
Proof.
  unfold get_contact_residue_pairs. rewrite contact_atoms_relabelled.
  destruct (get_contact_atoms close only_bb exclH s allchains c1 c2 false) as [r|e]; cbn [map_res bind]; [|reflexivity].
  unfold mst. cbn [snd].
  assert (E : forall l acc, fold_left (respair_step (map f s)) (mpm l) acc = fold_left (respair_step s) l acc).
  { induction l as [|[i lv] t IH]; intro acc; [reflexivity|]. cbn [mpm map fold_left fst snd]. rewrite respair_step_ff. apply IH. }
  rewrite E. reflexivity.
Qed.
End Relabel.

Definition relabel (g : Z -> Z) (a : atom) : atom :=
  mkAtom (g (idx a)) (chain a) (resName a) (resSeq a) (name a) (ax a) (ay a) (az a).

Section RelabelScores.
Variable g : Z -> Z.
Hypothesis g_mono : forall x y, x < y -> g x < g y.

Lemma pairs_relabel c bb eh s c1 c2 :
  get_contact_residue_pairs (closeQ c) bb eh (map (relabel g) s) false c1 c2
  = get_contact_residue_pairs (closeQ c) bb eh s false c1 c2.
Proof. apply (residue_pairs_relabelled g g_mono (closeQ c) (closeQ c) (relabel g) bb eh); intros; reflexivity. Qed.

Lemma fix_chainID_relabel s : fix_chainID (map (relabel g) s) = map_res (map (relabel g)) (fix_chainID s).
Proof.
  unfold fix_chainID. rewrite (get_chains_map (relabel g) (fun a => eq_refl)).
  destruct (26 <? List.length (get_chains s))%nat; [reflexivity|]. cbn [map_res].
  f_equal. rewrite !map_map. apply map_ext. intro a. reflexivity.
Qed.

Theorem clashes_relabelled s c1 c2 : compute_clashes (map (relabel g) s) c1 c2 = compute_clashes s c1 c2.
Proof.
  unfold compute_clashes.
  rewrite (contact_atoms_relabelled g g_mono (closeQ clash_cutoff_src) (closeQ clash_cutoff_src) (relabel g) clash_only_backbone_src clash_excludeH_src)
    by (intros; reflexivity).
  destruct (get_contact_atoms (closeQ clash_cutoff_src) clash_only_backbone_src clash_excludeH_src s false c1 c2 false) as [r|e]; cbn [map_res bind]; [|reflexivity].
  f_equal. unfold mst. cbn [snd]. generalize 0. induction (snd r) as [|[k v] t IH]; intro n; [reflexivity|].
  cbn [mpm map fold_left fst snd]. rewrite map_length. apply IH.
Qed.
End RelabelScores.

Theorem fnat_relabelled g g' c decoy ref :
  (forall x y, x < y -> g x < g y) -> (forall x y, x < y -> g' x < g' y) ->
  compute_fnat_pdb2sql c (map (relabel g) decoy) (map (relabel g') ref) = compute_fnat_pdb2sql c decoy ref.
Proof.
  intros Hg Hg'. unfold compute_fnat_pdb2sql. destruct fnat_sql_fix_chainID_src.
  - rewrite !fix_chainID_relabel.
    destruct (fix_chainID decoy) as [d|e]; cbn [map_res bind]; [|reflexivity].
    destruct (fix_chainID ref) as [r|e]; cbn [map_res bind]; [|reflexivity].
    rewrite (get_chains_map (relabel g') (fun a => eq_refl)).
    destruct (get_chains r) as [|c1 [|c2 [|c3 l]]]; try reflexivity.
    rewrite (pairs_relabel g Hg), (pairs_relabel g' Hg'). reflexivity.
  - cbn [bind]. rewrite (get_chains_map (relabel g') (fun a => eq_refl)).
    destruct (get_chains ref) as [|c1 [|c2 [|c3 l]]]; try reflexivity.
    rewrite (pairs_relabel g Hg), (pairs_relabel g' Hg'). reflexivity.
Qed.

(* ADDED HYDROGENS: sH is s with hydrogen records inserted anywhere — its heavy atoms are the atoms of s in the same order,
   their row numbers shifted by a strictly increasing g.  Neither the clash count nor Fnat changes. *)
Theorem clashes_with_added_hydrogens g s sH c1 c2 :
  (forall x y, x < y -> g x < g y) -> strip_H sH = map (relabel g) s -> get_chains (strip_H sH) = get_chains sH ->
  compute_clashes sH c1 c2 = compute_clashes s c1 c2.
Proof.
  intros Hg E Hc. rewrite <- (clashes_ignore_hydrogens sH c1 c2 Hc), E. apply clashes_relabelled. exact Hg.
Qed.
Theorem fnat_with_added_hydrogens g g' c decoy ref decoyH refH :
  (forall x y, x < y -> g x < g y) -> (forall x y, x < y -> g' x < g' y) ->
  strip_H decoyH = map (relabel g) decoy -> strip_H refH = map (relabel g') ref ->
  chains_keep_heavy decoyH -> chains_keep_heavy refH -> NoDup (map idx decoyH) -> NoDup (map idx refH) ->
  compute_fnat_pdb2sql c decoyH refH = compute_fnat_pdb2sql c decoy ref.
Proof.
  intros Hg Hg' Ed Er Kd Kr Nd Nr.
  rewrite <- (fnat_ignores_hydrogens c decoyH refH Kd Kr Nd Nr), Ed, Er. apply fnat_relabelled; assumption.
Qed.

(* non-vacuity: a concrete structure with a hydrogen record inserted in the middle meets the premises *)
Example added_hydrogen_example :
  let s  := [mkAtom 0 "A" "ALA" 1 "CA" 0 0 0; mkAtom 1 "B" "GLY" 2 "CA" 2 0 0] in
  let sH := [mkAtom 0 "A" "ALA" 1 "CA" 0 0 0; mkAtom 1 "A" "ALA" 1 "HA" 1 0 0; mkAtom 2 "B" "GLY" 2 "CA" 2 0 0] in
  let g := fun x => if x <? 1 then x else x + 1 in
  (forall x y, x < y -> g x < g y) /\ strip_H sH = map (relabel g) s /\ get_chains (strip_H sH) = get_chains sH
  /\ chains_keep_heavy sH /\ NoDup (map idx sH).
Proof.
  cbv zeta. split; [|split; [|split; [|split]]].
  - intros x y H. destruct (Z.ltb_spec x 1), (Z.ltb_spec y 1); lia.
  - reflexivity.
  - vm_compute. reflexivity.
  - intros a Ha. cbn [In] in Ha. destruct Ha as [<-|[<-|[<-|[]]]].
    + eexists. split; [left; reflexivity|]. split; reflexivity.
    + eexists. split; [left; reflexivity|]. split; reflexivity.
    + eexists. split; [right; right; left; reflexivity|]. split; reflexivity.
  - cbn. repeat constructor; cbn; intuition discriminate.
Qed.
