(* Proofs_hydrogens.v — C11: hydrogens.  With hydrogens excluded (the setting of Fnat and of the clash count) the contact
   computation on a structure equals the contact computation on the same structure without its hydrogen atoms: adding
   or removing hydrogens (atoms whose name begins with H) changes neither the contact atoms, nor the pair map, nor the
   clash count — provided every chain keeps at least one heavy atom. *)
From Coq Require Import Lia.
From Verif Require Import PyLib ModelTypes Generated_contact Model_contact Proofs_invariance.

Definition heavy (a : atom) : bool := negb (is_H (name a)).
Definition strip_H (s : structure) : structure := filter heavy s.

Section Hyd.
Variable close : atom -> atom -> bool.
Variable only_bb : bool.

Lemma filter_comm {A} (p q : A -> bool) l : filter p (filter q l) = filter q (filter p l).
Proof. induction l as [|x t IH]; [reflexivity|]. cbn. destruct (p x) eqn:P, (q x) eqn:Q; cbn; rewrite ?P, ?Q, IH; reflexivity. Qed.

Lemma chain_atoms_strip s c : chain_atoms (strip_H s) c = strip_H (chain_atoms s c).
Proof. unfold chain_atoms, strip_H. apply filter_comm. Qed.

Lemma keep2_heavy b : keep2 only_bb true b = true -> heavy b = true.
Proof. unfold keep2, heavy. cbn [andb]. intro H. apply andb_prop in H. destruct H as [_ H]. exact H. Qed.

Lemma filter_keep2_strip l : filter (keep2 only_bb true) (strip_H l) = filter (keep2 only_bb true) l.
Proof.
  unfold strip_H. induction l as [|x t IH]; [reflexivity|]. cbn [filter].
  destruct (heavy x) eqn:Hx; cbn [filter]; [rewrite IH; reflexivity|].
  destruct (keep2 only_bb true x) eqn:K; [apply keep2_heavy in K; congruence | exact IH].
Qed.

(* one atom of chain 1 against chain 2 with or without the hydrogens of chain 2 *)
Lemma atom_step_strip2 c1 c2 atoms2 st a :
  atom_step close only_bb true c1 c2 (strip_H atoms2) st a = atom_step close only_bb true c1 c2 atoms2 st a.
Proof.
  unfold atom_step. cbn [andb].
  destruct (is_H (name a)); [reflexivity|].
  assert (P : map idx (filter (keep2 only_bb true) (filter (close a) (strip_H atoms2)))
            = map idx (filter (keep2 only_bb true) (filter (close a) atoms2))).
  { unfold strip_H. rewrite (filter_comm (close a) heavy atoms2). fold (strip_H (filter (close a) atoms2)).
    rewrite filter_keep2_strip. reflexivity. }
  rewrite P.
  set (pairs := map idx (filter (keep2 only_bb true) (filter (close a) atoms2))) in *.
  destruct (negb only_bb || is_bb (name a))%bool; rewrite ?andb_false_r; [|reflexivity]. rewrite !andb_true_r.
  (* if the pairs are empty both sides return st whatever the contacts are; otherwise both contact lists are non-empty *)
  destruct (is_nil pairs) eqn:Np; cbn [negb].
  - destruct (negb (is_nil (filter (close a) (strip_H atoms2)))), (negb (is_nil (filter (close a) atoms2))); reflexivity.
  - assert (N1 : is_nil (filter (close a) atoms2) = false).
    { destruct (filter (close a) atoms2) as [|x l0] eqn:E; [|reflexivity]. exfalso.
      assert (pairs = []) by (unfold pairs; rewrite ?E; reflexivity). rewrite H in Np. discriminate Np. }
    assert (N2 : is_nil (filter (close a) (strip_H atoms2)) = false).
    { destruct (filter (close a) (strip_H atoms2)) as [|x l0] eqn:E; [|reflexivity]. exfalso.
      assert (pairs = []) by (rewrite <- P; rewrite ?E; reflexivity). rewrite H in Np. discriminate Np. }
    rewrite N1, N2. reflexivity.
Qed.

(* a hydrogen of chain 1 contributes nothing *)
Lemma atom_step_H c1 c2 atoms2 st a : heavy a = false -> atom_step close only_bb true c1 c2 atoms2 st a = st.
Proof. unfold heavy, atom_step. intro H. apply Bool.negb_false_iff in H. rewrite H. reflexivity. Qed.

Lemma fold_atom_step_strip c1 c2 atoms2 l st :
  fold_left (atom_step close only_bb true c1 c2 (strip_H atoms2)) (strip_H l) st
  = fold_left (atom_step close only_bb true c1 c2 atoms2) l st.
Proof.
  revert st. induction l as [|a t IH]; intro st; [reflexivity|]. unfold strip_H. cbn [filter fold_left].
  destruct (heavy a) eqn:Ha; cbn [fold_left].
  - rewrite atom_step_strip2. apply IH.
  - rewrite (atom_step_H c1 c2 atoms2 st a Ha). apply IH.
Qed.

Lemma pair_step_strip s st cc : pair_step close only_bb true (strip_H s) st cc = pair_step close only_bb true s st cc.
Proof. destruct cc as [c1 c2]. unfold pair_step. rewrite !chain_atoms_strip. apply fold_atom_step_strip. Qed.

Theorem contact_atoms_ignore_hydrogens s allchains c1 c2 :
  get_chains (strip_H s) = get_chains s ->
  get_contact_atoms close only_bb true (strip_H s) allchains c1 c2 false
  = get_contact_atoms close only_bb true s allchains c1 c2 false.
Proof.
  intro Hc. unfold get_contact_atoms. rewrite Hc.
  assert (E : forall l st, fold_left (pair_step close only_bb true (strip_H s)) l st = fold_left (pair_step close only_bb true s) l st).
  { induction l as [|c t IH]; intro st; [reflexivity|]. cbn [fold_left]. rewrite pair_step_strip. apply IH. }
  rewrite E. reflexivity.
Qed.
End Hyd.

Theorem clashes_ignore_hydrogens s c1 c2 : get_chains (strip_H s) = get_chains s ->
  compute_clashes (strip_H s) c1 c2 = compute_clashes s c1 c2.
Proof.
  intro Hc. unfold compute_clashes. change clash_excludeH_src with true.
  rewrite (contact_atoms_ignore_hydrogens (closeQ clash_cutoff_src) clash_only_backbone_src s false c1 c2 Hc). reflexivity.
Qed.

(* hence two structures with the same heavy atoms have the same clash count, whatever hydrogens each carries *)
Corollary clashes_same_heavy_atoms s s' c1 c2 :
  strip_H s = strip_H s' -> get_chains (strip_H s) = get_chains s -> get_chains (strip_H s') = get_chains s' ->
  compute_clashes s c1 c2 = compute_clashes s' c1 c2.
Proof. intros E H H'. rewrite <- (clashes_ignore_hydrogens s c1 c2 H), <- (clashes_ignore_hydrogens s' c1 c2 H'), E. reflexivity. Qed.

(* ---- residue pairs and Fnat ---- *)
Section HydPairs.
Variable close : atom -> atom -> bool.
Variable only_bb : bool.
Variable s : structure.
Hypothesis idx_unique : NoDup (map idx s).

(* an index that designates heavy atoms only *)
Definition Hidx (i : Z) : Prop := forall a, In a s -> idx a = i -> heavy a = true.
Lemma Hidx_of_heavy a : In a s -> heavy a = true -> Hidx (idx a).
Proof.
  intros Ha Hh b Hb E. assert (b = a); [|subst; exact Hh].
  clear Hh. revert Ha Hb E. generalize idx_unique. generalize s. induction s0 as [|x t IH]; intros ND Ha Hb E; [contradiction|].
  cbn [map] in ND. inversion ND as [|? ? Nin ND']; subst.
  destruct Ha as [->|Ha], Hb as [->|Hb]; [reflexivity | | |apply IH; assumption].
  - exfalso. apply Nin. rewrite <- E. apply in_map. exact Hb.
  - exfalso. apply Nin. rewrite E. apply in_map. exact Ha.
Qed.

Lemma rows_by_idx_strip L : (forall i, In i L -> Hidx i) -> rows_by_idx (strip_H s) L = rows_by_idx s L.
Proof.
  intro HL. unfold rows_by_idx, strip_H. rewrite filter_comm.
  assert (G : forall l, (forall a, In a l -> In a s) -> filter heavy (filter (fun a => mem Z.eqb (idx a) L) l) = filter (fun a => mem Z.eqb (idx a) L) l).
  { induction l as [|a t IH]; intro Hin; [reflexivity|]. cbn [filter].
    destruct (mem Z.eqb (idx a) L) eqn:M; [|apply IH; intros x Hx; apply Hin; right; exact Hx].
    cbn [filter]. assert (Hh : heavy a = true).
    { unfold mem in M. apply existsb_exists in M. destruct M as [i [Hi Ei]]. apply Z.eqb_eq in Ei.
      apply (HL i Hi a (Hin a (or_introl eq_refl))). exact Ei. }
    rewrite Hh. f_equal. apply IH. intros x Hx. apply Hin. right. exact Hx. }
  apply G. auto.
Qed.

(* invariant of the pair map: keys and values are indices of heavy atoms *)
Definition pm_ok (pm : pmap) : Prop := forall k v, In (k, v) pm -> Hidx k /\ forall j, In j v -> Hidx j.

Lemma dext_In k0 (l : list Z) d k v : In (k, v) (dext Z.eqb k0 l d) ->
  In (k, v) d \/ (k = k0 /\ exists old, (old = [] \/ In (k, old) d) /\ v = old ++ l).
Proof.
  unfold dext. induction d as [|[k' v'] t IH]; cbn [dupd].
  - intros [E|[]]. injection E as <- <-. right. split; [reflexivity|]. exists []. split; [left; reflexivity | reflexivity].
  - destruct (Z.eqb_spec k0 k') as [->|N].
    + intros [E|H]; [|left; right; exact H]. injection E as <- <-. right. split; [reflexivity|]. exists v'. split; [right; left; reflexivity | reflexivity].
    + intros [E|H]; [left; left; exact E|]. destruct (IH H) as [H1|[Ek [old [[Eo|Io] Ev]]]].
      * left. right. exact H1.
      * right. split; [exact Ek|]. exists old. split; [left; exact Eo | exact Ev].
      * right. split; [exact Ek|]. exists old. split; [right; right; exact Io | exact Ev].
Qed.

Lemma atom_step_pm_ok c1 c2 atoms2 st a :
  In a s -> (forall b, In b atoms2 -> In b s) -> pm_ok (snd st) ->
  pm_ok (snd (atom_step close only_bb true c1 c2 atoms2 st a)).
Proof.
  intros Ha H2 Inv. unfold atom_step. cbn [andb].
  destruct (is_H (name a)) eqn:Hh; [exact Inv|].
  destruct (negb (is_nil (filter (close a) atoms2)) && (negb only_bb || is_bb (name a)))%bool; [|exact Inv].
  destruct (negb (is_nil (map idx (filter (keep2 only_bb true) (filter (close a) atoms2))))); [|exact Inv].
  cbn [snd]. intros k v Hin. apply dext_In in Hin.
  assert (HP : forall j, In j (map idx (filter (keep2 only_bb true) (filter (close a) atoms2))) -> Hidx j).
  { intros j Hj. apply in_map_iff in Hj. destruct Hj as [b [<- Hb]]. apply filter_In in Hb. destruct Hb as [Hb Kb].
    apply filter_In in Hb. destruct Hb as [Hb _]. apply Hidx_of_heavy; [apply H2, Hb | apply (keep2_heavy only_bb b Kb)]. }
  destruct Hin as [Hin|[-> [old [[->|Io] ->]]]].
  - apply (Inv k v Hin).
  - split; [apply Hidx_of_heavy; [exact Ha | unfold heavy; rewrite Hh; reflexivity]|]. intros j Hj. cbn [app] in Hj. apply HP, Hj.
  - destruct (Inv _ _ Io) as [Hk Hv]. split; [exact Hk|]. intros j Hj. apply in_app_or in Hj. destruct Hj as [Hj|Hj]; [apply Hv, Hj | apply HP, Hj].
Qed.

Lemma fold_atom_step_pm_ok c1 c2 atoms2 l st :
  (forall a, In a l -> In a s) -> (forall b, In b atoms2 -> In b s) -> pm_ok (snd st) ->
  pm_ok (snd (fold_left (atom_step close only_bb true c1 c2 atoms2) l st)).
Proof.
  revert st. induction l as [|a t IH]; intros st Hl H2 Inv; [exact Inv|]. cbn [fold_left].
  apply IH; [intros x Hx; apply Hl; right; exact Hx | exact H2 |].
  apply atom_step_pm_ok; [apply Hl; left; reflexivity | exact H2 | exact Inv].
Qed.

Lemma chain_atoms_In c a : In a (chain_atoms s c) -> In a s.
Proof. unfold chain_atoms. intro H. apply filter_In in H. exact (proj1 H). Qed.

Lemma fold_pair_step_pm_ok l st : pm_ok (snd st) -> pm_ok (snd (fold_left (pair_step close only_bb true s) l st)).
Proof.
  revert st. induction l as [|[c1 c2] t IH]; intros st Inv; [exact Inv|]. cbn [fold_left]. apply IH.
  unfold pair_step. apply fold_atom_step_pm_ok; [apply chain_atoms_In | apply chain_atoms_In | exact Inv].
Qed.

Lemma contact_atoms_pm_ok allchains c1 c2 r :
  get_contact_atoms close only_bb true s allchains c1 c2 false = Ok r -> pm_ok (snd r).
Proof.
  unfold get_contact_atoms. destruct (negb (forallb _ _)); [discriminate|].
  destruct (uniques _ _) as [ic|e]; cbn [bind]; [|discriminate]. intro H. injection H as <-. cbn [snd].
  apply fold_pair_step_pm_ok. intros k v [].
Qed.

Theorem residue_pairs_ignore_hydrogens allchains c1 c2 : get_chains (strip_H s) = get_chains s ->
  get_contact_residue_pairs close only_bb true (strip_H s) allchains c1 c2
  = get_contact_residue_pairs close only_bb true s allchains c1 c2.
Proof.
  intro Hc. unfold get_contact_residue_pairs. rewrite (contact_atoms_ignore_hydrogens close only_bb s allchains c1 c2 Hc).
  destruct (get_contact_atoms close only_bb true s allchains c1 c2 false) as [r|e] eqn:E; cbn [bind]; [|reflexivity].
  pose proof (contact_atoms_pm_ok allchains c1 c2 r E) as Inv.
  assert (F : forall l acc, (forall k v, In (k, v) l -> Hidx k /\ forall j, In j v -> Hidx j) ->
              fold_left (respair_step (strip_H s)) l acc = fold_left (respair_step s) l acc).
  { induction l as [|[i lv] t IH]; intros acc Hl; [reflexivity|]. cbn [fold_left].
    destruct (Hl i lv (or_introl eq_refl)) as [Hi Hv].
    assert (S1 : respair_step (strip_H s) acc (i, lv) = respair_step s acc (i, lv)).
    { unfold respair_step. destruct acc as [d|e']; cbn [bind]; [|reflexivity].
      rewrite (rows_by_idx_strip [i]) by (intros j [<-|[]]; exact Hi). rewrite (rows_by_idx_strip lv Hv). reflexivity. }
    rewrite S1. apply IH. intros k v Hin. apply Hl. right. exact Hin. }
  rewrite (F (snd r) (Ok []) Inv). reflexivity.
Qed.
End HydPairs.

(* ---- chain lists: sorted(set(.)) depends on membership only ---- *)
From Coq Require Import OrderedTypeEx Sorted Permutation.
From Verif Require Import Proofs_contact_lists Proofs_contact_c08b.

Lemma sleb_trans a b c : String.leb a b = true -> String.leb b c = true -> String.leb a c = true.
Proof.
  unfold String.leb. intros H1 H2.
  destruct (String.compare a b) eqn:C1; try discriminate H1; destruct (String.compare b c) eqn:C2; try discriminate H2.
  - apply String_as_OT.cmp_eq in C1. apply String_as_OT.cmp_eq in C2. subst. pose proof (proj2 (String_as_OT.cmp_eq c c) eq_refl) as R. unfold String_as_OT.cmp in R. rewrite R. reflexivity.
  - apply String_as_OT.cmp_eq in C1. subst. rewrite C2. reflexivity.
  - apply String_as_OT.cmp_eq in C2. subst. rewrite C1. reflexivity.
  - apply String_as_OT.cmp_lt in C1. apply String_as_OT.cmp_lt in C2.
    pose proof (String_as_OT.lt_trans _ _ _ C1 C2) as L. apply String_as_OT.cmp_lt in L. unfold String_as_OT.cmp in L. rewrite L. reflexivity.
Qed.

Lemma sorted_unique (a b : list string) : NoDup a -> NoDup b -> Sorted sle a -> Sorted sle b ->
  (forall x, In x a <-> In x b) -> a = b.
Proof.
  assert (Tr : Relations_1.Transitive sle) by (intros x y z; apply sleb_trans).
  revert b. induction a as [|x ta IH]; intros b Na Nb Sa Sb M.
  - destruct b as [|y tb]; [reflexivity|]. exfalso. apply (M y). left. reflexivity.
  - destruct b as [|y tb]; [exfalso; apply (M x); left; reflexivity|].
    apply Sorted_StronglySorted in Sa; [|exact Tr]. apply Sorted_StronglySorted in Sb; [|exact Tr].
    inversion Sa as [|? ? Sa' Fa]; subst. inversion Sb as [|? ? Sb' Fb]; subst.
    inversion Na as [|? ? Nxa Na']; subst. inversion Nb as [|? ? Nyb Nb']; subst.
    assert (Exy : x = y).
    { assert (Hx : In x (y :: tb)) by (apply M; left; reflexivity). assert (Hy : In y (x :: ta)) by (apply M; left; reflexivity).
      destruct Hx as [E|Hx]; [symmetry; exact E|]. destruct Hy as [E|Hy]; [exact E|].
      rewrite Forall_forall in Fa, Fb. apply String.leb_antisym; [apply Fa, Hy | apply Fb, Hx]. }
    subst y. f_equal. apply IH; try assumption; try (apply StronglySorted_Sorted; assumption).
    intro z. split; intro Hz.
    + assert (In z (x :: tb)) by (apply M; right; exact Hz). destruct H as [E|H]; [subst; contradiction | exact H].
    + assert (In z (x :: ta)) by (apply M; right; exact Hz). destruct H as [E|H]; [subst; contradiction | exact H].
Qed.

Lemma Seqb_ok' : forall x y : string, String.eqb x y = true <-> x = y.
Proof. intros x y. apply String.eqb_eq. Qed.

Lemma sorted_set_str_ext l l' : (forall x, In x l <-> In x l') -> sorted_set_str l = sorted_set_str l'.
Proof.
  intro M. unfold sorted_set_str. apply sorted_unique.
  - apply sort_by_NoDup, (dedup_NoDup String.eqb Seqb_ok').
  - apply sort_by_NoDup, (dedup_NoDup String.eqb Seqb_ok').
  - apply sort_by_Sorted.
  - apply sort_by_Sorted.
  - intro x. rewrite !sort_by_In, !(dedup_In String.eqb Seqb_ok'). apply M.
Qed.

(* every chain keeps a heavy atom *)
Definition chains_keep_heavy (s : structure) : Prop :=
  forall a, In a s -> exists b, In b s /\ heavy b = true /\ chain b = chain a.

Lemma get_chains_strip s : chains_keep_heavy s -> get_chains (strip_H s) = get_chains s.
Proof.
  intro K. unfold get_chains. apply sorted_set_str_ext. intro c. rewrite !in_map_iff. split.
  - intros [a [E Ha]]. unfold strip_H in Ha. apply filter_In in Ha. exists a. split; [exact E | exact (proj1 Ha)].
  - intros [a [E Ha]]. destruct (K a Ha) as [b [Hb [Hh Ec]]]. exists b. split; [congruence|]. unfold strip_H. apply filter_In. split; assumption.
Qed.

(* relabelling the chains (fix_chainID) commutes with removing hydrogens and keeps the premises *)
Lemma fix_chainID_strip s : chains_keep_heavy s ->
  fix_chainID (strip_H s) = match fix_chainID s with Ok s' => Ok (strip_H s') | Err e => Err e end.
Proof.
  intro K. unfold fix_chainID. rewrite (get_chains_strip s K).
  destruct (26 <? List.length (get_chains s))%nat; [reflexivity|]. f_equal. unfold strip_H.
  symmetry. apply Proofs_invariance.filter_map_comm. intro a. reflexivity.
Qed.
Lemma fix_chainID_keeps s s' : fix_chainID s = Ok s' ->
  (chains_keep_heavy s -> chains_keep_heavy s') /\ (NoDup (map idx s) -> NoDup (map idx s')).
Proof.
  unfold fix_chainID. destruct (26 <? List.length (get_chains s))%nat; [discriminate|]. intro H. injection H as <-.
  set (g := fun a => set_chain a (nth (index_of (chain a) (get_chains s)) ascii_uppercase "")). split.
  - intros K a' Ha'. apply in_map_iff in Ha'. destruct Ha' as [a [<- Ha]]. destruct (K a Ha) as [b [Hb [Hh Ec]]].
    exists (g b). split; [apply in_map; exact Hb|]. split; [exact Hh|]. unfold g. cbn. rewrite Ec. reflexivity.
  - intro ND. rewrite map_map. exact ND.
Qed.

Lemma fnat_core_hyd c dec rf : chains_keep_heavy dec -> chains_keep_heavy rf -> NoDup (map idx dec) -> NoDup (map idx rf) ->
  match get_chains (strip_H rf) with
  | [c1; c2] =>
    do pd <- get_contact_residue_pairs (closeQ c) fnat_sql_only_backbone_src fnat_sql_excludeH_src (strip_H dec) false c1 c2;
    do pr <- get_contact_residue_pairs (closeQ c) fnat_sql_only_backbone_src fnat_sql_excludeH_src (strip_H rf) false c1 c2;
    py_ratio_round fnat_sql_digits_src
      (Z.of_nat (List.length (filter (fun p => mem respair_eqb p (flat_pairs pd)) (dedup_keep_first respair_eqb (flat_pairs pr)))))
      (Z.of_nat (List.length (flat_pairs pr)))
  | _ => Err "ValueError"
  end
  = match get_chains rf with
  | [c1; c2] =>
    do pd <- get_contact_residue_pairs (closeQ c) fnat_sql_only_backbone_src fnat_sql_excludeH_src dec false c1 c2;
    do pr <- get_contact_residue_pairs (closeQ c) fnat_sql_only_backbone_src fnat_sql_excludeH_src rf false c1 c2;
    py_ratio_round fnat_sql_digits_src
      (Z.of_nat (List.length (filter (fun p => mem respair_eqb p (flat_pairs pd)) (dedup_keep_first respair_eqb (flat_pairs pr)))))
      (Z.of_nat (List.length (flat_pairs pr)))
  | _ => Err "ValueError"
  end.
Proof.
  intros Kd Kr Nd Nr. rewrite (get_chains_strip rf Kr). change fnat_sql_excludeH_src with true.
  destruct (get_chains rf) as [|c1 [|c2 [|c3 l]]]; try reflexivity.
  rewrite (residue_pairs_ignore_hydrogens (closeQ c) fnat_sql_only_backbone_src dec Nd false c1 c2 (get_chains_strip dec Kd)).
  rewrite (residue_pairs_ignore_hydrogens (closeQ c) fnat_sql_only_backbone_src rf Nr false c1 c2 (get_chains_strip rf Kr)).
  reflexivity.
Qed.

(* Fnat does not see hydrogens *)
Theorem fnat_ignores_hydrogens c decoy ref :
  chains_keep_heavy decoy -> chains_keep_heavy ref -> NoDup (map idx decoy) -> NoDup (map idx ref) ->
  compute_fnat_pdb2sql c (strip_H decoy) (strip_H ref) = compute_fnat_pdb2sql c decoy ref.
Proof.
  intros Kd Kr Nd Nr. unfold compute_fnat_pdb2sql. change fnat_sql_fix_chainID_src with true. cbn iota.
  rewrite (fix_chainID_strip decoy Kd), (fix_chainID_strip ref Kr).
  destruct (fix_chainID decoy) as [d|e] eqn:Ed; cbn [bind]; [|reflexivity].
  destruct (fix_chainID ref) as [r|e] eqn:Er; cbn [bind]; [|reflexivity].
  destruct (fix_chainID_keeps decoy d Ed) as [Kd' Nd']. destruct (fix_chainID_keeps ref r Er) as [Kr' Nr'].
  apply (fnat_core_hyd c d r (Kd' Kd) (Kr' Kr) (Nd' Nd) (Nr' Nr)).
Qed.

(* two pairs of structures with the same heavy atoms have the same Fnat, whatever hydrogens each carries *)
Corollary fnat_same_heavy_atoms c decoy ref decoy' ref' :
  strip_H decoy = strip_H decoy' -> strip_H ref = strip_H ref' ->
  chains_keep_heavy decoy -> chains_keep_heavy ref -> NoDup (map idx decoy) -> NoDup (map idx ref) ->
  chains_keep_heavy decoy' -> chains_keep_heavy ref' -> NoDup (map idx decoy') -> NoDup (map idx ref') ->
  compute_fnat_pdb2sql c decoy ref = compute_fnat_pdb2sql c decoy' ref'.
Proof.
  intros Ed Er K1 K2 N1 N2 K3 K4 N3 N4.
  rewrite <- (fnat_ignores_hydrogens c decoy ref K1 K2 N1 N2), <- (fnat_ignores_hydrogens c decoy' ref' K3 K4 N3 N4), Ed, Er. reflexivity.
Qed.
