(* Spec_sql.v — specification of selection (C03, C17) and modification (C04), written from the
   property statements: a table is a list of records, an atom's identity is its zero-based
   position, a query is  map project ∘ filter  over the rows with their positions, a
   modification is a pointwise function on the list of records.  No chunking, no rowid
   arithmetic, no recursion on query size.  Executable (the harness runs it); the Prop-level
   readings are stated next to it and proved equivalent in Proofs_sql_spec.v.

   Error vocabulary of the specification:
     "Rejected"    unknown table / attribute / condition name (any error is acceptable)
     "ValueError"  the documented 'too many SQL variables' error
     "ShapeError"  values do not fit the selection / attribute list: error, nothing modified
     "Aborted"     more than 26 chains in _fix_chainID
     "Unspecified" outside the domain the properties quantify over (MODEL/ENDMDL inputs,
                   non-integer rowID values, ...): no verdict
     "OutOfModel"  SQLite behaviour not covered by the value layer: no verdict            *)
From Verif Require Import PyLib ModelTypes Generated_parse Model_sqlval Model_sql.
Open Scope string_scope.
Open Scope Z_scope.

Definition unspecified {A} : res A := Err "Unspecified".
Definition rejected {A} : res A := Err "Rejected".

(* ------------------------------------------------------------------ *)
(* rows with their positions *)
Definition with_positions {A} (l : list A) : list (nat * A) := combine (seq 0 (List.length l)) l.

(* the value of attribute [c] of the atom at position [pos] *)
Definition spec_cell (pos : nat) (r : row) (c : cref) : val :=
  match c with CRowid => VInt (Z.of_nat pos) | CCol i => nth i r VNull end.

(* attribute named by a condition keyword (case-insensitive, Appendix A) *)
Definition spec_cond_attr (t : table) (k : string) : option cref :=
  if ci_eqb k "rowID" then Some CRowid
  else match find_ci k (tcols t) 0 with Some i => Some (CCol i) | None => None end.
(* attribute named in the requested list (case-sensitive) *)
Fixpoint find_exact (name : string) (cols : list (string * string)) (i : nat) : option nat :=
  match cols with
  | [] => None
  | (c, _) :: t => if String.eqb name c then Some i else find_exact name t (S i)
  end.
Definition spec_req_attr (t : table) (name : string) : option cref :=
  if String.eqb name "rowID" then Some CRowid
  else match find_exact name (tcols t) 0 with Some i => Some (CCol i) | None => None end.
Definition spec_attrs (t : table) (columns : string) : res (list cref) :=
  if String.eqb columns "*" then Ok (map CCol (seq 0 (List.length (tcols t))))
  else mapM (fun p => match spec_req_attr t (strip p) with Some c => Ok c | None => rejected end)
            (split_comma columns).

Definition spec_values (v : cval) : list pv := match v with CScalar x => [x] | CList l => l end.
Definition is_pint (v : pv) : bool := match v with PInt _ => true | _ => false end.
(* positions whose SQLite rowid (position + 1) is still inside the modelled integer range *)
Definition rowid_in_model (v : pv) : bool := match v with PInt z => int_in_range (z + 1) | _ => true end.

(* one keyword condition, resolved: attribute, negated?, the values after the column's
   affinity has been applied to them *)
Definition spec_cond (t : table) (c : string * cval) : res scond :=
  let '(neg, k) := key_of (fst c) in
  match spec_cond_attr t k with
  | None => rejected
  | Some cr =>
    let vs := spec_values (snd c) in
    if (match cr with CRowid => negb (forallb is_pint vs) | _ => false end) then unspecified
    else if (match cr with CRowid => negb (forallb rowid_in_model vs) | _ => false end) then out_of_model
    else do vs' <- mapM (cmp_operand (col_aff t cr)) vs; Ok (cr, neg, vs')
  end.
(* names first (so that an unknown name is always "Rejected"), then the domain, then values *)
Definition spec_names_ok (t : table) (kw : conds) : bool :=
  forallb (fun c : string * cval => match spec_cond_attr t (snd (key_of (fst c))) with Some _ => true | None => false end) kw.

(* the condition holds for the atom at [pos]: its attribute equals one of the values
   (none of them, for a negated condition); NULL / None never matches (Appendix A) *)
Definition spec_holds (pos : nat) (r : row) (c : scond) : bool :=
  let '(cr, neg, vs) := c in cond_true neg (spec_cell pos r cr) vs.
Definition spec_matches (cs : list scond) (pr : nat * row) : bool :=
  forallb (spec_holds (fst pr) (snd pr)) cs.
Definition spec_select (t : table) (cs : list scond) : list (nat * row) :=
  filter (spec_matches cs) (with_positions (trows t)).

Definition spec_project (sel : list cref) (pr : nat * row) : list val :=
  map (spec_cell (fst pr) (snd pr)) sel.
(* a single requested attribute gives a plain list *)
Definition spec_shape (sel : list cref) (rows : list (list val)) : list pyv :=
  match sel with
  | [_] => map (fun r => PV (hd VNull r)) rows
  | _ => map (fun r => PL (map PV r)) rows
  end.

(* the documented limit: a list is cut in pieces of at most 950 values; the error is due when
   the pieces of the several conditions together still exceed 999 *)
Definition spec_total (kw : conds) : Z :=
  fold_right (fun (c : string * cval) n => Z.min (Z.of_nat (List.length (spec_values (snd c)))) max_sql_values_src + n) 0 kw.

Definition spec_conds (d : db) (tablename : string) (kw : conds) : res (table * list scond) :=
  if negb (table_name_ok tablename) then out_of_model else
  match find_table tablename (tables d) with
  | None => rejected
  | Some t =>
    if negb (spec_names_ok t kw) then rejected else
    if Nat.ltb 0 (nmodel d) then unspecified else
    do cs <- mapM (spec_cond t) kw;
    Ok (t, cs)
  end.

Definition spec_get (d : db) (columns tablename : string) (kw : conds) : res (list pyv) :=
  if negb (table_name_ok tablename) then out_of_model else
  match find_table tablename (tables d) with
  | None => rejected
  | Some t =>
    do sel <- spec_attrs t columns;
    do tc <- spec_conds d tablename kw;
    if sql_limit_src <? spec_total kw then Err "ValueError"
    else Ok (spec_shape sel (map (spec_project sel) (spec_select t (snd tc))))
  end.

(* positions selected by a conjunction of conditions *)
Definition spec_positions (d : db) (tablename : string) (kw : conds) : res (list nat) :=
  do tc <- spec_conds d tablename kw;
  if sql_limit_src <? spec_total kw then Err "ValueError"
  else Ok (map fst (spec_select (fst tc) (snd tc))).

(* views *)
Definition spec_get_xyz (d : db) (tablename : string) (kw : conds) := spec_get d "x,y,z" tablename kw.
Definition spec_get_residues (d : db) (tablename : string) (kw : conds) : res (list (list val)) :=
  do res <- spec_get d "chainID,resName,resSeq" tablename kw;
  do rows <- mapM row_of res;
  Ok (dedup_keep_first pyv_eqb_row rows).
Definition spec_get_chains (d : db) (tablename : string) (kw : conds) : res (list string) :=
  do ch <- spec_get d "chainID" tablename kw;
  do names <- mapM text_of ch;
  Ok (sorted_set names).
Definition spec_get_all (d : db) (columns : string) (kw : conds) : res (list pyv) :=
  mapM (fun nt : string * table => do o <- spec_get d columns (fst nt) kw; Ok (PL o)) (tables d).

(* ------------------------------------------------------------------ *)
(* modifications: the list-of-records machine *)

(* write the values [xs] into the columns [cis] of one record *)
Fixpoint write_cells (cis : list nat) (xs : list val) (r : row) : row :=
  match cis, xs with
  | ci :: cis', x :: xs' => write_cells cis' xs' (set_nth ci x r)
  | _, _ => r
  end.
Fixpoint index_of_nat (x : nat) (l : list nat) (i : nat) : option nat :=
  match l with [] => None | y :: t => if Nat.eqb x y then Some i else index_of_nat x t (S i) end.

Definition with_table (d : db) (tablename : string) (t' : table) : db :=
  mkDb (set_table tablename t' (tables d)) (nmodel d).

(* columns that may be written: names of the addressed table, exactly as given *)
Definition spec_write_cols (t : table) (cols : list string) : res (list nat) :=
  if negb (nodup_str cols) then out_of_model else
  mapM (fun c => if String.eqb c "rowID" then unspecified else
                 match find_exact c (tcols t) 0 with Some i => Ok i | None => rejected end) cols.

Definition uval_row (u : uval) : option (list pv) :=
  match u with URow l => Some l | UStr s => Some (chars_of s) | UScalar _ => None end.
Definition shape_ok (ncol nsel : nat) (values : list uval) : bool :=
  (Nat.eqb (List.length values) nsel &&
   forallb (fun u => match uval_row u with Some l => Nat.eqb (List.length l) ncol | None => false end) values)%bool.

Definition spec_update (d : db) (columns : string) (values : list uval) (tablename : string) (kw : conds) : ures :=
  if negb (table_name_ok tablename) then (d, Some "OutOfModel") else
  match values with [] => (d, Some "Unspecified") | _ =>
  match find_table tablename (tables d) with
  | None => (d, Some "Rejected")
  | Some t =>
    match spec_write_cols t (split_comma columns), spec_positions d tablename kw with
    | Err e, _ => (d, Some e)
    | _, Err e => (d, Some e)
    | Ok cis, Ok ps =>
      if negb (shape_ok (List.length cis) (List.length ps) values) then (d, Some "ShapeError") else
      (* the i-th value row, after the store conversion of each target column *)
      match mapM (fun u => match uval_row u with
                           | Some l => mapM (fun cv : nat * pv => store_val (col_aff t (CCol (fst cv))) (snd cv)) (combine cis l)
                           | None => Err "ShapeError" end) values with
      | Err e => (d, Some e)
      | Ok xss =>
        let rows' := map (fun pr : nat * row =>
                            match index_of_nat (fst pr) ps 0 with
                            | Some i => write_cells cis (nth i xss []) (snd pr)      (* the i-th selected atom *)
                            | None => snd pr                                          (* every other atom *)
                            end) (with_positions (trows t)) in
        (with_table d tablename (mkTable (tcols t) rows'), None)
      end
    end
  end
  end.

Definition spec_update_xyz (d : db) (xyz : list uval) (tablename : string) (kw : conds) : ures :=
  spec_update d "x,y,z" xyz tablename kw.

(* single attribute by index: pairs (value, position); surplus values / indices are ignored,
   positions outside the table address nothing, a position given twice keeps the last value *)
Fixpoint last_for (p : nat) (pairs : list (Z * val)) (acc : option val) : option val :=
  match pairs with
  | [] => acc
  | (z, x) :: t => last_for p t (if Z.eqb z (Z.of_nat p) then Some x else acc)
  end.
Definition spec_update_column (d : db) (colname : string) (values : list pv)
           (index : option (list pv)) (tablename : string) : ures :=
  if negb (table_name_ok tablename) then (d, Some "OutOfModel") else
  match find_table tablename (tables d) with
  | None => (d, Some "Rejected")
  | Some t =>
    if negb (ident_shape colname) then (d, Some "OutOfModel") else
    if is_rowid_alias colname then (d, Some "Unspecified") else
    match find_ci colname (tcols t) 0 with
    | None => (d, Some "Rejected")
    | Some ci =>
      let idx := match index with
                 | None => Ok (seqZ 0 (List.length values))
                 | Some ix => mapM (fun v => match v with PInt z => Ok z | _ => unspecified end)
                                   (firstn (List.length values) ix)
                 end in
      match idx, mapM (store_val (col_aff t (CCol ci))) values with
      | Err e, _ => (d, Some e)
      | _, Err e => (d, Some e)
      | Ok ps, Ok xs =>
        let pairs := combine ps xs in
        let rows' := map (fun pr : nat * row =>
                            match last_for (fst pr) pairs None with
                            | Some x => set_nth ci x (snd pr)
                            | None => snd pr
                            end) (with_positions (trows t)) in
        (with_table d tablename (mkTable (tcols t) rows'), None)
      end
    end
  end.

(* a new attribute: every atom gets the same value, nothing else changes *)
Definition spec_add_column (d : db) (colname coltype : string) (value : pv) (tablename : string) : ures :=
  if negb (table_name_ok tablename && plain_ident colname && negb (is_rowid_alias colname)
           && (String.eqb coltype "" || plain_ident coltype))%bool then (d, Some "OutOfModel") else
  match find_table tablename (tables d) with
  | None => (d, Some "Rejected")
  | Some t =>
    match find_ci colname (tcols t) 0 with
    | Some _ => (d, Some "Rejected")
    | None =>
      match (match value with
             | PInt _ | PFloat _ => default_store (affinity_of_decl coltype) value
             | PStr s => if plain_ident s then default_store (affinity_of_decl coltype) value else unspecified
             | PNone => unspecified
             end) with
      | Err e => (d, Some e)
      | Ok x => (with_table d tablename
                   (mkTable (tcols t ++ [(colname, coltype)])%list (map (fun r : row => (r ++ [x])%list) (trows t))), None)
      end
    end
  end.

(* chain relabelling: the k-th chain in sorted order becomes the k-th capital letter *)
Definition spec_fix_chainID (d : db) : ures :=
  if Nat.ltb 0 (nmodel d) then (d, Some "Unspecified") else
  match find_table "ATOM" (tables d) with
  | None => (d, Some "Rejected")
  | Some t =>
    match find_exact "chainID" (tcols t) 0 with
    | None => (d, Some "Rejected")
    | Some ci =>
      match mapM (fun r : row => match nth ci r VNull with VText s => Ok s | _ => unspecified end) (trows t) with
      | Err e => (d, Some e)
      | Ok names =>
        let chains := sorted_set names in
        if Nat.ltb 26 (List.length chains) then (d, Some "Aborted") else
        let rows' := map (fun r : row =>
                            match nth ci r VNull with
                            | VText s => match index_of s chains 0 with
                                         | Some k => set_nth ci (VText (nth k upper_letters "")) r
                                         | None => r end
                            | _ => r end) (trows t) in
        (with_table d "ATOM" (mkTable (tcols t) rows'), None)
      end
    end
  end.

Definition spec_step (d : db) (o : op) : ures :=
  match o with
  | OpUpdate c v t kw => spec_update d c v t kw
  | OpUpdateColumn c v ix t => spec_update_column d c v ix t
  | OpUpdateXyz v t kw => spec_update_xyz d v t kw
  | OpAddColumn c ty v t => spec_add_column d c ty v t
  | OpFixChainID => spec_fix_chainID d
  end.

(* histories: the state after a sequence of operations (a failing operation leaves the
   specification state where the specification says it is: unchanged) *)
Definition spec_history (d : db) (ops : list op) : db := fold_left (fun s o => fst (spec_step s o)) ops d.
Definition model_history (d : db) (ops : list op) : db := fold_left (fun s o => fst (model_step s o)) ops d.

(* ------------------------------------------------------------------ *)
(* C17, finding classes (stated on the query, used as explicit exclusions) *)
Definition long_list (v : cval) : bool :=
  match v with CList l => max_sql_values_src <? Z.of_nat (List.length l) | _ => false end.
(* F10: a negated condition lists more than 950 values *)
Definition f10_class (kw : conds) : bool :=
  existsb (fun c : string * cval => (fst (key_of (fst c)) && long_list (snd c))%bool) kw.

(* F11: the first positive list longer than 950 values, in keyword order *)
Fixpoint first_long (kw : conds) : option (string * list pv) :=
  match kw with
  | [] => None
  | (k0, v) :: t =>
    if long_list v then (if fst (key_of k0) then None else Some (k0, spec_values v)) else first_long t
  end.
(* [sep p q l]: no element satisfying q occurs at or before an element satisfying p *)
Fixpoint sep {X} (p q : X -> bool) (l : list X) : bool :=
  match l with
  | [] => true
  | x :: t => if q x then (negb (p x) && forallb (fun y => negb (p y)) t)%bool else sep p q t
  end.
Definition any_of {X} (ps : list (X -> bool)) (x : X) : bool := existsb (fun q => q x) ps.
(* the selections of the pieces follow each other in the table and do not overlap *)
Fixpoint seps {X} (l : list X) (ps : list (X -> bool)) : bool :=
  match ps with
  | [] => true
  | p :: rest => (sep p (any_of rest) l && seps l rest)%bool
  end.
(* Outside the F11 class: cut the first long list in its pieces of 950 values; the atoms
   selected with piece 1 all come before the atoms selected with piece 2, and so on, and no atom
   is selected by two pieces (true in particular for a duplicate-free list sorted consistently
   with the table); and the same again for the remaining long lists once this one is replaced
   by any of its pieces. *)
Fixpoint f11_safe (fuel : nat) (d : db) (tablename : string) (kw : conds) : bool :=
  match fuel with
  | O => true
  | S f =>
    match first_long kw with
    | None => true
    | Some (k, l) =>
      let pieces := chunks (Z.to_nat max_sql_values_src) l in
      match find_table tablename (tables d),
            mapM (fun c => spec_conds d tablename (dict_set k (CList c) kw)) pieces with
      | Some t, Ok tcs =>
        (seps (with_positions (trows t)) (map (fun tc : table * list scond => spec_matches (snd tc)) tcs)
         && forallb (fun c => f11_safe f d tablename (dict_set k (CList c) kw)) pieces)%bool
      | _, _ => true
      end
    end
  end.
Definition f11_class (d : db) (tablename : string) (kw : conds) : bool :=
  negb (f11_safe (S (List.length kw)) d tablename kw).
