(* Proofs_export.v — C02: coordinate formatter and line layout *)
From Coq Require Import Lia ZifyBool Lqa.
From Verif Require Import PyLib PyLibFacts ModelTypes Generated_export Model_export Spec_parse Spec_export
  Proofs_text Proofs_digits.
Open Scope Q_scope.

(* decimals by interval, written from the property statement *)
Definition xyz_decimals (x : Q) : nat :=
  if Qltb (-(9995#10)) x && Qltb x (99995#10) then 3%nat
  else if Qltb (-(99995#10)) x && Qltb x (999995#10) then 2%nat
  else if Qltb (-(999995#10)) x && Qltb x (9999995#10) then 1%nat
  else 0%nat.

Ltac decide_cmp :=
  repeat match goal with
  | |- context [Qltb ?a ?b] =>
      first [ rewrite (Qltb_true a b) by lra | rewrite (Qltb_false a b) by lra ]
  | |- context [Qleb ?a ?b] =>
      first [ rewrite (Qleb_true a b) by lra | rewrite (Qleb_false a b) by lra ]
  end.

Inductive xcell (x : Q) : Type :=
| XlowErr : x <= -(99999995#10) -> xcell x
| Xn0 : -(99999995#10) < x -> x <= -(999995#10) -> xcell x
| Xn1 : -(999995#10) < x -> x <= -(99995#10) -> xcell x
| Xn2 : -(99995#10) < x -> x <= -(9995#10) -> xcell x
| Xneg3 : -(9995#10) < x -> x < 0 -> xcell x
| Xpos3 : 0 <= x -> x < 99995#10 -> xcell x
| Xp2 : 99995#10 <= x -> x < 999995#10 -> xcell x
| Xp1 : 999995#10 <= x -> x < 9999995#10 -> xcell x
| Xp0 : 9999995#10 <= x -> x < 999999995#10 -> xcell x
| XhighErr : 999999995#10 <= x -> xcell x.
Lemma xcell_of x : xcell x.
Proof.
  destruct (Qlt_le_dec (-(99999995#10)) x); [|apply XlowErr; assumption].
  destruct (Qlt_le_dec (-(999995#10)) x); [|apply Xn0; assumption].
  destruct (Qlt_le_dec (-(99995#10)) x); [|apply Xn1; assumption].
  destruct (Qlt_le_dec (-(9995#10)) x); [|apply Xn2; assumption].
  destruct (Qlt_le_dec x 0); [apply Xneg3; assumption|].
  destruct (Qlt_le_dec x (99995#10)); [apply Xpos3; assumption|].
  destruct (Qlt_le_dec x (999995#10)); [apply Xp2; assumption|].
  destruct (Qlt_le_dec x (9999995#10)); [apply Xp1; assumption|].
  destruct (Qlt_le_dec x (999999995#10)); [apply Xp0; assumption|].
  apply XhighErr; assumption.
Qed.

(* the regenerated cascade: an error exactly outside (-1e7+0.5, 1e8-0.5), otherwise the
   fixed-point rendering in 8 columns with the decimals of the interval table *)
Lemma format_xyz_cases x :
  (Qltb coord_lo x && Qltb x coord_hi = false /\ format_xyz_src x = Err "ValueError") \/
  (Qltb coord_lo x && Qltb x coord_hi = true /\ format_xyz_src x = Ok (fmt_fixed 8 (xyz_decimals x) x)).
Proof.
  unfold format_xyz_src, xyz_decimals, coord_lo, coord_hi.
  destruct (xcell_of x); decide_cmp; cbn [andb orb]; first [left; split; reflexivity | right; split; reflexivity].
Qed.

Lemma Qabs_of_neg x : x < 0 -> Qabs x == - x.
Proof. intro H. apply Qabs_neg. lra. Qed.
Lemma Qabs_of_nonneg x : 0 <= x -> Qabs x == x.
Proof. intro H. apply Qabs_pos. exact H. Qed.

Lemma in_range_bounds x : Qltb coord_lo x && Qltb x coord_hi = true ->
  -(99999995#10) < x /\ x < 999999995#10.
Proof.
  unfold coord_lo, coord_hi. intro H. apply andb_prop in H. destruct H as [A B].
  apply Qltb_spec in A. apply Qltb_spec in B. split; lra.
Qed.

Lemma pow10_val p : inject_Z (pow10 p) == inject_Z (10 ^ Z.of_nat p).
Proof. reflexivity. Qed.

Ltac eval_consts :=
  repeat match goal with
  | |- context [inject_Z ?z] =>
      let v := eval vm_compute in (inject_Z z) in progress change (inject_Z z) with v
  end.

Lemma format_xyz_width x s : format_xyz_src x = Ok s -> String.length s = 8%nat.
Proof.
  destruct (format_xyz_cases x) as [[_ E]|[R E]]; rewrite E; intro H; [discriminate H|].
  injection H as <-. clear E. apply in_range_bounds in R. destruct R as [R1 R2].
  unfold xyz_decimals.
  destruct (xcell_of x) as [H1|H1 H2|H1 H2|H1 H2|H1 H2|H1 H2|H1 H2|H1 H2|H1 H2|H1];
    try (exfalso; lra); decide_cmp; cbn [andb].
  - apply (fmt_fixed_length 8 0 x 7); [lia| |unfold sign_len, frac_len; decide_cmp; lia].
    rewrite (Qabs_of_neg x) by lra. eval_consts. lra.
  - apply (fmt_fixed_length 8 1 x 5); [lia| |unfold sign_len, frac_len; decide_cmp; lia].
    rewrite (Qabs_of_neg x) by lra. eval_consts. lra.
  - apply (fmt_fixed_length 8 2 x 4); [lia| |unfold sign_len, frac_len; decide_cmp; lia].
    rewrite (Qabs_of_neg x) by lra. eval_consts. lra.
  - apply (fmt_fixed_length 8 3 x 3); [lia| |unfold sign_len, frac_len; decide_cmp; lia].
    rewrite (Qabs_of_neg x) by lra. eval_consts. lra.
  - apply (fmt_fixed_length 8 3 x 4); [lia| |unfold sign_len, frac_len; decide_cmp; lia].
    rewrite (Qabs_of_nonneg x) by lra. eval_consts. lra.
  - apply (fmt_fixed_length 8 2 x 5); [lia| |unfold sign_len, frac_len; decide_cmp; lia].
    rewrite (Qabs_of_nonneg x) by lra. eval_consts. lra.
  - apply (fmt_fixed_length 8 1 x 6); [lia| |unfold sign_len, frac_len; decide_cmp; lia].
    rewrite (Qabs_of_nonneg x) by lra. eval_consts. lra.
  - apply (fmt_fixed_length 8 0 x 8); [lia| |unfold sign_len, frac_len; decide_cmp; lia].
    rewrite (Qabs_of_nonneg x) by lra. eval_consts. lra.
Qed.

(* the number that is printed is the value rounded at the printed precision *)
Lemma rhe_error a : Qabs (inject_Z (round_half_even a) - a) <= 1#2.
Proof.
  unfold round_half_even. rewrite Qfloor'_eq.
  pose proof (Qfloor_le a) as L. pose proof (Qlt_floor a) as U.
  rewrite inject_Z_plus in U. change (inject_Z 1) with 1 in U.
  set (f := Qfloor a) in *.
  apply Qabs_Qle_condition.
  destruct (Qcompare_spec (a - inject_Z f) (1#2)) as [C|C|C].
  - destruct (Z.even f); [|rewrite inject_Z_plus; change (inject_Z 1) with 1]; split; lra.
  - split; lra.
  - rewrite inject_Z_plus. change (inject_Z 1) with 1. split; lra.
Qed.

Definition printed_abs (p : nat) (q : Q) : Q :=
  inject_Z (round_half_even (Qabs q * inject_Z (pow10 p))) / inject_Z (pow10 p).

Lemma printed_within_half_unit p q :
  Qabs (printed_abs p q - Qabs q) <= (1#2) / inject_Z (pow10 p).
Proof.
  unfold printed_abs.
  pose proof (pow10_pos p) as P. assert (P' : 0 < inject_Z (pow10 p)) by (rewrite Zlt_Qlt in P; exact P).
  set (t := inject_Z (pow10 p)) in *. set (a := Qabs q * t).
  assert (E : inject_Z (round_half_even a) / t - Qabs q == (inject_Z (round_half_even a) - a) / t).
  { unfold a. field. lra. }
  rewrite E. unfold Qdiv. rewrite Qabs_Qmult.
  rewrite (Qabs_pos (/ t)) by (apply Qlt_le_weak, Qinv_lt_0_compat, P').
  apply Qmult_le_compat_r; [apply rhe_error | apply Qlt_le_weak, Qinv_lt_0_compat, P'].
Qed.

(* ---------------- atom name ---------------- *)
Lemma format_atomname_length nm el s :
  (1 <= String.length nm <= 4)%nat -> format_atomname_src nm el = Ok s -> String.length s = 4%nat.
Proof.
  intros Hn. unfold format_atomname_src.
  repeat match goal with |- context [if ?b then _ else _] => destruct b end;
  intro H; injection H as <-; rewrite ?center_length, ?ljust_length, ?rjust_length; lia.
Qed.
Lemma format_atomname_total nm el : exists s, format_atomname_src nm el = Ok s.
Proof.
  unfold format_atomname_src.
  repeat match goal with |- context [if ?b then _ else _] => destruct b end; eexists; reflexivity.
Qed.

(* ---------------- whole line ---------------- *)
Definition piece_len (p : piece) : nat :=
  match p with
  | PLit s => String.length s
  | PField _ _ w => w
  | PFixed _ _ w _ => w
  | PAtomName => 4
  | PXyz _ => 8
  end.

Lemma render_pieces_length d ps :
  Forall (fun p => exists s, render_piece d p = Ok s /\ String.length s = piece_len p) ps ->
  exists line, render_pieces d ps = Ok line /\ String.length line = fold_right Nat.add 0%nat (map piece_len ps).
Proof.
  induction ps as [|p t IH]; intro H.
  - exists ""%string. split; reflexivity.
  - inversion H as [|p' t' [s [Hs Hl]] Ht]; subst.
    destruct (IH Ht) as [r [Hr Hlr]].
    exists (s ++ r)%string. cbn [render_pieces map fold_right]. rewrite Hs, Hr. cbn [bind].
    split; [reflexivity|]. rewrite length_append, Hl, Hlr. reflexivity.
Qed.

Lemma layout_is_80 : fold_right Nat.add 0%nat (map piece_len export_layout_src) = 80%nat.
Proof. reflexivity. Qed.

Lemma justify_right_length w s : (String.length s <= w)%nat -> String.length (justify ARight w s) = w.
Proof. intro H. cbn [justify]. rewrite rjust_length. lia. Qed.

Lemma int_piece d i w lo hi :
  fits_int lo hi (nth i d VNull) = true ->
  (1 <= w)%nat -> (- 10 ^ Z.of_nat (w - 1) < lo)%Z -> (hi < 10 ^ Z.of_nat w)%Z ->
  exists s, render_piece d (PField i ARight w) = Ok s /\ String.length s = w.
Proof.
  intros H Hw Hlo Hhi. cbn [render_piece]. unfold fits_int in H.
  destruct (nth i d VNull) as [z| | | |]; try discriminate H.
  cbn [render_plain bind]. eexists. split; [reflexivity|].
  apply justify_right_length.
  apply andb_prop in H. destruct H as [A B].
  pose proof (str_of_Z_length_le z w Hw ltac:(lia)). lia.
Qed.

Lemma text_piece d i w lo :
  fits_text lo w (nth i d VNull) = true ->
  exists s, render_piece d (PField i ARight w) = Ok s /\ String.length s = w.
Proof.
  intros H. cbn [render_piece]. unfold fits_text in H.
  destruct (nth i d VNull) as [|?|s| |]; try discriminate H.
  cbn [render_plain bind]. eexists. split; [reflexivity|].
  apply justify_right_length.
  apply andb_prop in H. destruct H as [H _]. apply andb_prop in H. destruct H as [_ B]. lia.
Qed.

Lemma coord_piece d i :
  coord_in_range (nth i d VNull) = true ->
  exists s, render_piece d (PXyz i) = Ok s /\ String.length s = 8%nat.
Proof.
  intros H. cbn [render_piece]. unfold coord_in_range, real_of in H.
  destruct (nth i d VNull) as [z|q| | |]; try discriminate H.
  - destruct (format_xyz_cases (inject_Z z)) as [[R E]|[R E]]; [rewrite R in H; discriminate H|].
    rewrite E. eexists. split; [reflexivity|]. apply (format_xyz_width (inject_Z z)). exact E.
  - destruct (format_xyz_cases q) as [[R E]|[R E]]; [rewrite R in H; discriminate H|].
    rewrite E. eexists. split; [reflexivity|]. apply (format_xyz_width q). exact E.
Qed.

Lemma fixed62_length q : -(9999#100) <= q -> q <= 99999#100 -> String.length (fmt_fixed 6 2 q) = 6%nat.
Proof.
  intros A B.
  destruct (Qlt_le_dec q 0) as [N|P].
  - apply (fmt_fixed_length 6 2 q 2); [lia| |unfold sign_len, frac_len; rewrite (Qltb_true q 0) by lra; lia].
    rewrite (Qabs_of_neg q) by lra. eval_consts. lra.
  - apply (fmt_fixed_length 6 2 q 3); [lia| |unfold sign_len, frac_len; rewrite (Qltb_false q 0) by lra; lia].
    rewrite (Qabs_of_nonneg q) by lra. eval_consts. lra.
Qed.

Lemma real_piece d i :
  fits_real (-(9999#100)) (99999#100) (nth i d VNull) = true ->
  exists s, render_piece d (PFixed i ARight 6 2) = Ok s /\ String.length s = 6%nat.
Proof.
  intros H. cbn [render_piece]. unfold fits_real, real_of in H.
  destruct (nth i d VNull) as [z|q| | |]; try discriminate H;
  cbn [num_of bind]; (eexists; split; [reflexivity|]);
  apply andb_prop in H; destruct H as [A B]; apply Qleb_spec in A; apply Qleb_spec in B;
  apply fixed62_length; assumption.
Qed.

Lemma name_piece d :
  fits_text 1 4 (nth 1 d VNull) = true -> fits_text 1 2 (nth 12 d VNull) = true ->
  exists s, render_piece d PAtomName = Ok s /\ String.length s = 4%nat.
Proof.
  intros H1 H2. cbn [render_piece]. unfold fits_text in H1, H2.
  destruct (nth 1 d VNull) as [|?|nm| |]; try discriminate H1.
  destruct (nth 12 d VNull) as [|?|el| |]; try discriminate H2.
  cbn [text_of bind].
  destruct (format_atomname_total nm el) as [s Hs]. exists s. split; [exact Hs|].
  apply (format_atomname_length nm el s); [|exact Hs].
  apply andb_prop in H1. destruct H1 as [H1 _]. apply andb_prop in H1. lia.
Qed.

Ltac hyp := match goal with H : ?t |- ?t => exact H end.

Lemma all_pieces_render d : fits d = true ->
  Forall (fun p => exists s, render_piece d p = Ok s /\ String.length s = piece_len p) export_layout_src.
Proof.
  intro H. unfold fits in H.
  repeat match type of H with (_ && _ = true) => apply andb_prop in H; let H' := fresh "F" in destruct H as [H H'] end.
  unfold export_layout_src.
  repeat (apply Forall_cons; [|]); try apply Forall_nil; cbv beta;
  try (match goal with |- exists s, render_piece _ (PLit _) = _ /\ _ => eexists; split; reflexivity end).
  - apply (int_piece d 0 5 (-9999) 99999); [hyp | clear; lia | vm_compute; reflexivity | vm_compute; reflexivity].
  - apply name_piece; hyp.
  - apply (text_piece d 2 1 0); hyp.
  - apply (text_piece d 3 3 1); hyp.
  - apply (text_piece d 4 1 0); hyp.
  - apply (int_piece d 5 4 (-999) 9999); [hyp | clear; lia | vm_compute; reflexivity | vm_compute; reflexivity].
  - apply (text_piece d 6 1 0); hyp.
  - apply coord_piece; hyp.
  - apply coord_piece; hyp.
  - apply coord_piece; hyp.
  - apply real_piece; hyp.
  - apply real_piece; hyp.
  - apply (text_piece d 12 2 1); hyp.
Qed.

Theorem line_80 d : fits d = true ->
  exists line, line_of_row d = Ok line /\ String.length line = 80%nat.
Proof.
  intro H. unfold fits in H.
  repeat match type of H with (_ && _ = true) => apply andb_prop in H; let H' := fresh "F" in destruct H as [H H'] end.
  rewrite <- layout_is_80. unfold line_of_row. apply render_pieces_length.
  unfold export_layout_src.
  repeat (apply Forall_cons; [|]); try apply Forall_nil; cbv beta;
  try (match goal with |- exists s, render_piece _ (PLit _) = _ /\ _ => eexists; split; reflexivity end).
  - apply (int_piece d 0 5 (-9999) 99999); [hyp | clear; lia | vm_compute; reflexivity | vm_compute; reflexivity].
  - apply name_piece; hyp.
  - apply (text_piece d 2 1 0); hyp.
  - apply (text_piece d 3 3 1); hyp.
  - apply (text_piece d 4 1 0); hyp.
  - apply (int_piece d 5 4 (-999) 9999); [hyp | clear; lia | vm_compute; reflexivity | vm_compute; reflexivity].
  - apply (text_piece d 6 1 0); hyp.
  - apply coord_piece; hyp.
  - apply coord_piece; hyp.
  - apply coord_piece; hyp.
  - apply real_piece; hyp.
  - apply real_piece; hyp.
  - apply (text_piece d 12 2 1); hyp.
Qed.

Lemma format_atomname_spec nm el :
  (1 <= String.length nm <= 4)%nat -> format_atomname_src nm el = Ok (spec_atomname nm el).
Proof.
  intro H. unfold format_atomname_src, spec_atomname.
  destruct nm as [|c1 [|c2 [|c3 [|c4 [|c5 r]]]]]; cbn [String.length] in H; try lia; clear H.
  - reflexivity.
  - cbn [String.length Nat.eqb orb andb]. destruct (String.eqb (String c1 (String c2 "")) el); reflexivity.
  - cbn [String.length Nat.eqb orb andb char_at substring]. rewrite is_substring_digit.
    destruct (is_digit c1); reflexivity.
  - reflexivity.
Qed.
