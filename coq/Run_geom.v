(* Run_geom.v — wire decoding and command dispatch of the geometry cluster (C10, C06, C18).
   Model commands "geom.*", specification commands "spec.geom.*"; everything runs at NumQ. *)
From Verif Require Import PyLib Model_geom_num Generated_geom Model_geom Spec_geom.
Open Scope string_scope.

Local Notation Nq := NumQ.
Definition arg (n : nat) (a : list V) : V := nth n a (VZ 0).
Definition gQ (n : nat) (a : list V) : Q := Qred (getQ (arg n a)).
Definition getV3 (v : V) : vec3 Q := V3 (Qred (getQ (nthV 0 v))) (Qred (getQ (nthV 1 v))) (Qred (getQ (nthV 2 v))).
Definition getM3 (v : V) : mat3 Q :=
  let r0 := getV3 (nthV 0 v) in let r1 := getV3 (nthV 1 v) in let r2 := getV3 (nthV 2 v) in
  M3 (vx r0) (vy r0) (vz r0) (vx r1) (vy r1) (vz r1) (vx r2) (vy r2) (vz r2).
Definition getV4 (v : V) : vec4 Q :=
  V4 (Qred (getQ (nthV 0 v))) (Qred (getQ (nthV 1 v))) (Qred (getQ (nthV 2 v))) (Qred (getQ (nthV 3 v))).
Definition getM4 (v : V) : mat4 Q :=
  let r0 := getV4 (nthV 0 v) in let r1 := getV4 (nthV 1 v) in let r2 := getV4 (nthV 2 v) in let r3 := getV4 (nthV 3 v) in
  M4 (w0 r0) (w1 r0) (w2 r0) (w3 r0) (w0 r1) (w1 r1) (w2 r1) (w3 r1)
     (w0 r2) (w1 r2) (w2 r2) (w3 r2) (w0 r3) (w1 r3) (w2 r3) (w3 r3).
Definition getPts (v : V) : list (vec3 Q) := map getV3 (getL v).
Definition getQs (v : V) : list Q := map (fun x => Qred (getQ x)) (getL v).
Definition getCenter (v : V) : option (vec3 Q) := match v with VL [] => None | _ => Some (getV3 v) end.
Definition getSel (v : V) : list nat := map (fun x => Z.to_nat (getZ x)) (getL v).
Definition getTable (v : V) : list (Z * vec3 Q) := map (fun r => (getZ (nthV 0 r), getV3 (nthV 1 r))) (getL v).

Definition VV3 (p : vec3 Q) : V := VL [VQ (vx p); VQ (vy p); VQ (vz p)].
Definition VM3 (A : mat3 Q) : V := VL [VV3 (mrow0 A); VV3 (mrow1 A); VV3 (mrow2 A)].
Definition VPts (l : list (vec3 Q)) : V := VL (map VV3 l).
Definition VM4 (F : mat4 Q) : V :=
  VL (map (fun r => VL (map VQ r)) (m4rows F)).
Definition VTable (tb : list (Z * vec3 Q)) : V := VL (map (fun r => VL [VZ (fst r); VV3 (snd r)]) tb).
Definition VresPts (r : res (list (vec3 Q))) : V := match r with Ok l => VOk (VPts l) | Err e => VErr e end.
Definition VresM3 (r : res (mat3 Q)) : V := match r with Ok m => VOk (VM3 m) | Err e => VErr e end.

Definition getOp (v : V) : option (op (T := Q)) :=
  let k := getS (nthV 0 v) in
  if k =? "translation" then Some (OTranslate (getV3 (nthV 1 v)))
  else if k =? "rot_axis" then Some (ORotAxis (getV3 (nthV 1 v)) (Qred (getQ (nthV 2 v))) (Qred (getQ (nthV 3 v))))
  else if k =? "rot_euler" then
    Some (ORotEuler (Qred (getQ (nthV 1 v))) (Qred (getQ (nthV 2 v))) (Qred (getQ (nthV 3 v)))
                    (Qred (getQ (nthV 4 v))) (Qred (getQ (nthV 5 v))) (Qred (getQ (nthV 6 v))))
  else if k =? "rot_mat" then Some (ORotMat (getM3 (nthV 1 v)))
  else None.
Definition sop_of_op (o : op (T := Q)) : sop (T := Q) :=
  match o with
  | OTranslate v => STranslate v
  | ORotAxis u c s => SRotAxis u c s
  | ORotEuler a b c d e f => SRotEuler a b c d e f
  | ORotMat M => SRotMat M
  end.
Fixpoint getHistory (l : list V) : option (list (list nat * op (T := Q))) :=
  match l with
  | [] => Some []
  | v :: t =>
    match getOp (nthV 1 v), getHistory t with
    | Some o, Some r => Some ((getSel (nthV 0 v), o) :: r)
    | _, _ => None
    end
  end.

(* oracle answers are handed over as data *)
Definition svd_const (V Wh : mat3 Q) : mat3 Q -> mat3 Q * vec3 Q * mat3 Q := fun _ => (V, V3 0%Q 0%Q 0%Q, Wh).
Definition eig_const (l : list Q) (U : mat4 Q) : mat4 Q -> list Q * mat4 Q := fun _ => (l, U).

Definition run_geom (cmd : string) (a : list V) : option V :=
  (* ---- C10 ---- *)
  if cmd =? "geom.rodrigues" then
    let u := getV3 (arg 2 a) in Some (VM3 (rodrigues_src Nq (gQ 0 a) (gQ 1 a) (vx u) (vy u) (vz u)))
  else if cmd =? "geom.euler_mat" then
    Some (VM3 (euler_src Nq (gQ 0 a) (gQ 1 a) (gQ 2 a) (gQ 3 a) (gQ 4 a) (gQ 5 a)))
  else if cmd =? "geom.rot_axis" then
    Some (VresPts (rot_xyz_around_axis Nq (getPts (arg 0 a)) (getV3 (arg 1 a)) (gQ 2 a) (gQ 3 a) (getCenter (arg 4 a))))
  else if cmd =? "geom.rot_euler" then
    Some (VresPts (rotation_euler Nq (getPts (arg 0 a)) (gQ 1 a) (gQ 2 a) (gQ 3 a) (gQ 4 a) (gQ 5 a) (gQ 6 a) (getCenter (arg 7 a))))
  else if cmd =? "geom.rotate" then
    Some (VresPts (rotate Nq (getPts (arg 0 a)) (getM3 (arg 1 a)) (getCenter (arg 2 a))))
  else if cmd =? "geom.translate" then
    Some (VresPts (translate Nq (getPts (arg 0 a)) (getV3 (arg 1 a))))
  else if cmd =? "geom.db" then
    match getHistory (getL (arg 1 a)) with
    | None => Some (VErr "bad-history")
    | Some h => let '(st, tb) := db_history Nq (getTable (arg 0 a)) h in
                Some (VL [VL (map VS st); VTable tb])
    end
  else if cmd =? "spec.geom.db" then
    match getHistory (getL (arg 1 a)) with
    | None => Some (VErr "bad-history")
    | Some h => Some (VTable (spec_db_history Nq (getTable (arg 0 a)) (map (fun so => (fst so, sop_of_op (snd so))) h)))
    end
  else if cmd =? "spec.geom.point" then
    match getOp (arg 0 a) with
    | None => Some (VErr "bad-op")
    | Some o => Some (VV3 (sop_point Nq (sop_of_op o) (getV3 (arg 1 a)) (getV3 (arg 2 a))))
    end
  else if cmd =? "spec.geom.invariants" then
    (* squared distance of two points and triple product of three displacement vectors *)
    let p := getPts (arg 0 a) in
    let g := fun i => nth i p (V3 0%Q 0%Q 0%Q) in
    Some (VL [VQ (dist2 Nq (g 0%nat) (g 1%nat));
              VQ (triple Nq (vsub Nq (g 1%nat) (g 0%nat)) (vsub Nq (g 2%nat) (g 0%nat)) (vsub Nq (g 3%nat) (g 0%nat)))])
  else if cmd =? "geom.rand" then
    let '(ax, an) := rand_axis_angle Nq (gQ 0 a) (gQ 1 a) (gQ 2 a) (gQ 3 a) (gQ 4 a) (gQ 5 a) (gQ 6 a) in
    Some (VL [VV3 ax; VQ an; VQ (rand_theta_src Nq (gQ 0 a) (gQ 1 a) (gQ 2 a)); VQ (rand_cosphi_src Nq (gQ 0 a) (gQ 1 a) (gQ 2 a))])
  (* ---- C06 ---- *)
  else if cmd =? "geom.kabsch" then
    Some (VresM3 (kabsch Nq (svd_const (getM3 (arg 2 a)) (getM3 (arg 3 a))) (getPts (arg 0 a)) (getPts (arg 1 a))))
  else if cmd =? "geom.quat" then
    Some (VresM3 (quaternion Nq (eig_const (getQs (arg 2 a)) (getM4 (arg 3 a))) (getPts (arg 0 a)) (getPts (arg 1 a))))
  else if cmd =? "geom.rotmat" then
    Some (VresM3 (get_rotation_matrix Nq (svd_const (getM3 (arg 3 a)) (getM3 (arg 4 a)))
                                      (eig_const (getQs (arg 5 a)) (getM4 (arg 6 a)))
                                      (getS (arg 0 a)) (getPts (arg 1 a)) (getPts (arg 2 a))))
  else if cmd =? "geom.cov" then Some (VM3 (kabsch_cov_src Nq (getPts (arg 0 a)) (getPts (arg 1 a))))
  else if cmd =? "geom.F" then Some (VM4 (quat_F_src Nq (quat_corr_src Nq (getPts (arg 0 a)) (getPts (arg 1 a)))))
  else if cmd =? "geom.superpose_selection" then
    Some (VresPts (superpose_selection Nq
            (get_rotation_matrix Nq (svd_const (getM3 (arg 4 a)) (getM3 (arg 5 a)))
                                 (eig_const (getQs (arg 6 a)) (getM4 (arg 7 a))) (getS (arg 3 a)))
            (getPts (arg 0 a)) (getPts (arg 1 a)) (getPts (arg 2 a))))
  else if cmd =? "spec.geom.resid" then
    Some (VQ (resid Nq (getM3 (arg 0 a)) (getPts (arg 1 a)) (getPts (arg 2 a))))
  else if cmd =? "spec.geom.rot_defect" then Some (VL (map VQ (rot_defect Nq (getM3 (arg 0 a)))))
  else if cmd =? "spec.geom.enclosure" then
    let '(ok, lo, hi) := enclosure Nq (getPts (arg 0 a)) (getPts (arg 1 a)) (getV4 (arg 2 a)) (gQ 3 a) in
    Some (VL [VB ok; VQ lo; VQ hi])
  (* ---- C18 ---- *)
  else if cmd =? "geom.align_along_axis" then
    Some (VresPts (align_along_axis Nq (getPts (arg 0 a)) (getS (arg 1 a)) (gQ 2 a) (gQ 3 a) (gQ 4 a) (gQ 5 a)))
  else if cmd =? "geom.align" then
    match align_pca_vect Nq (getTable (arg 0 a)) (getS (arg 1 a)) (gQ 2 a) (gQ 3 a) (gQ 4 a) (gQ 5 a) with
    | Ok tb => Some (VOk (VTable tb))
    | Err e => Some (VErr e)
    end
  else if cmd =? "geom.pca_vect" then
    Some (VV3 (pca_vect Nq (getB (arg 0 a)) (getQs (arg 1 a)) (getM3 (arg 2 a))))
  else if cmd =? "geom.sample_cov" then Some (VM3 (sample_cov Nq (getPts (arg 0 a))))
  else if cmd =? "geom.plane_axis" then
    Some (match plane_axis (getS (arg 0 a)) with Ok s => VOk (VS s) | Err e => VErr e end)
  else if cmd =? "spec.geom.sph" then Some (VV3 (sph Nq (gQ 0 a) (gQ 1 a) (gQ 2 a) (gQ 3 a)))
  else if cmd =? "spec.geom.unit_axis" then
    Some (match unit_axis Nq (getS (arg 0 a)) with Some e => VOk (VV3 e) | None => VErr "ValueError" end)
  else if cmd =? "spec.geom.cov" then Some (VM3 (spec_cov Nq (getPts (arg 0 a))))
  else if cmd =? "spec.geom.principal" then
    let '(ok, v) := principal_check Nq (getPts (arg 0 a)) (getV3 (arg 1 a)) (gQ 2 a) in Some (VL [VB ok; VQ v])
  else if cmd =? "spec.geom.least" then
    let '(ok, v) := least_check Nq (getPts (arg 0 a)) (getV3 (arg 1 a)) (gQ 2 a) in Some (VL [VB ok; VQ v])
  else None.
