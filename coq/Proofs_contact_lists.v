(* Proofs_contact_lists.v — list / dictionary / sorting lemmas used by the contact proofs. *)
From Coq Require Import Lia Sorted Permutation.
From Verif Require Import PyLib Model_contact.
Open Scope Z_scope.
Open Scope list_scope.

(* ------------------------------------------------------------------ *)
(* boolean equalities                                                  *)
Definition eqb_ok {K} (eqb : K -> K -> bool) : Prop := forall x y, eqb x y = true <-> x = y.
Lemma Zeqb_ok : eqb_ok Z.eqb.
Proof. intros x y; apply Z.eqb_eq. Qed.
Lemma Seqb_ok : eqb_ok String.eqb.
Proof. intros x y; apply String.eqb_eq. Qed.
Lemma eqb_ok_refl {K} (eqb : K -> K -> bool) (H : eqb_ok eqb) x : eqb x x = true.
Proof. apply H; reflexivity. Qed.
Lemma eqb_ok_neq {K} (eqb : K -> K -> bool) (H : eqb_ok eqb) x y : x <> y -> eqb x y = false.
Proof. intro N. destruct (eqb x y) eqn:E; [apply H in E; contradiction | reflexivity]. Qed.
Lemma eqb_ok_false {K} (eqb : K -> K -> bool) (H : eqb_ok eqb) x y : eqb x y = false -> x <> y.
Proof. intros E ->. rewrite (eqb_ok_refl _ H) in E. discriminate. Qed.
Lemma eqb_ok_sym {K} (eqb : K -> K -> bool) (H : eqb_ok eqb) x y : eqb x y = eqb y x.
Proof.
  destruct (eqb x y) eqn:E.
  - apply H in E; subst. symmetry; apply (eqb_ok_refl _ H).
  - symmetry. apply (eqb_ok_neq _ H). intros ->. rewrite (eqb_ok_refl _ H) in E. discriminate.
Qed.

Lemma res3_eqb_ok : eqb_ok res3_eqb.
Proof.
  intros [[c n] r] [[c' n'] r']; unfold res3_eqb. rewrite !Bool.andb_true_iff, !String.eqb_eq, Z.eqb_eq.
  split; [intros [[-> ->] ->]; reflexivity | intros H; inversion H; auto].
Qed.
Lemma resk_eqb_ok : eqb_ok resk_eqb.
Proof.
  intros [[c r] n] [[c' r'] n']; unfold resk_eqb. rewrite !Bool.andb_true_iff, !String.eqb_eq, Z.eqb_eq.
  split; [intros [[-> ->] ->]; reflexivity | intros H; inversion H; auto].
Qed.
Lemma respair_eqb_ok : eqb_ok respair_eqb.
Proof.
  intros [a b] [a' b']; unfold respair_eqb; simpl. rewrite Bool.andb_true_iff.
  rewrite (res3_eqb_ok a a'), (res3_eqb_ok b b').
  split; [intros [-> ->]; reflexivity | intros H; inversion H; auto].
Qed.

(* ------------------------------------------------------------------ *)
(* mem / is_nil / filter / flat_map                                    *)
Lemma mem_In {K} (eqb : K -> K -> bool) (H : eqb_ok eqb) x l : mem eqb x l = true <-> In x l.
Proof.
  unfold mem. rewrite existsb_exists. split.
  - intros [y [Hy E]]. apply H in E; subst; exact Hy.
  - intro Hx. exists x; split; [exact Hx | apply (eqb_ok_refl _ H)].
Qed.
Lemma mem_false {K} (eqb : K -> K -> bool) (H : eqb_ok eqb) x l : mem eqb x l = false <-> ~ In x l.
Proof.
  rewrite <- (mem_In eqb H). destruct (mem eqb x l); split; intro A.
  - discriminate.
  - exfalso; apply A; reflexivity.
  - intro B; discriminate.
  - reflexivity.
Qed.

Lemma is_nil_false {A} (l : list A) : is_nil l = false <-> l <> [].
Proof. destruct l; simpl; split; intro H; try discriminate; try reflexivity; congruence. Qed.
Lemma is_nil_true {A} (l : list A) : is_nil l = true <-> l = [].
Proof. destruct l; simpl; split; intro H; try discriminate; try reflexivity. Qed.
Lemma not_nil_ex {A} (l : list A) : l <> [] <-> exists x, In x l.
Proof.
  destruct l; split; intro H.
  - congruence.
  - destruct H as [x []].
  - exists a; left; reflexivity.
  - discriminate.
Qed.
Lemma is_nil_map {A B} (f : A -> B) l : is_nil (map f l) = is_nil l.
Proof. destruct l; reflexivity. Qed.

Lemma filter_filter {A} (f g : A -> bool) l : filter f (filter g l) = filter (fun x => (g x && f x)%bool) l.
Proof.
  induction l as [|x t IH]; simpl; [reflexivity|].
  destruct (g x); simpl; [destruct (f x)|]; rewrite IH; reflexivity.
Qed.
Lemma flat_map_filter {A B} (p : A -> bool) (f : A -> list B) l :
  flat_map f (filter p l) = flat_map (fun x => if p x then f x else []) l.
Proof.
  induction l as [|x t IH]; simpl; [reflexivity|].
  destruct (p x); simpl; rewrite IH; reflexivity.
Qed.
Lemma flat_map_ext_in {A B} (f g : A -> list B) l :
  (forall x, In x l -> f x = g x) -> flat_map f l = flat_map g l.
Proof.
  induction l as [|x t IH]; simpl; intro H; [reflexivity|].
  rewrite (H x (or_introl eq_refl)), IH; [reflexivity|]. intros y Hy; apply H; right; exact Hy.
Qed.
Lemma filter_ext_in' {A} (f g : A -> bool) l :
  (forall x, In x l -> f x = g x) -> filter f l = filter g l.
Proof.
  induction l as [|x t IH]; simpl; intro H; [reflexivity|].
  rewrite (H x (or_introl eq_refl)), IH; [reflexivity|]. intros y Hy; apply H; right; exact Hy.
Qed.
Lemma filter_all_false {A} (f : A -> bool) l : (forall x, In x l -> f x = false) -> filter f l = [].
Proof.
  induction l as [|x t IH]; simpl; intro H; [reflexivity|].
  rewrite (H x (or_introl eq_refl)). apply IH. intros y Hy; apply H; right; exact Hy.
Qed.

Lemma NoDup_app_fresh {A} (l : list A) k : NoDup l -> ~ In k l -> NoDup (l ++ [k]).
Proof.
  induction l as [|x t IH]; simpl; intros ND H.
  - constructor; [intros []|constructor].
  - inversion ND as [|? ? Hn ND']; subst. constructor.
    + rewrite in_app_iff. intros [F|[F|[]]]; [exact (Hn F) | subst; apply H; left; reflexivity].
    + apply IH; [exact ND' | intro F; apply H; right; exact F].
Qed.

(* ------------------------------------------------------------------ *)
(* dictionaries                                                        *)
Section DictFacts.
  Context {K A : Type} (eqb : K -> K -> bool) (Heq : eqb_ok eqb).

  Lemma dget_dupd (k k' : K) (f : option (list A) -> list A) d :
    dget eqb k (dupd eqb k' f d) = if eqb k k' then Some (f (dget eqb k' d)) else dget eqb k d.
  Proof.
    induction d as [|[k0 v] t IH]; simpl.
    - destruct (eqb k k'); reflexivity.
    - destruct (eqb k' k0) eqn:E0; simpl.
      + apply Heq in E0; subst k0. destruct (eqb k k'); reflexivity.
      + destruct (eqb k k0) eqn:E1.
        * apply Heq in E1; subst k0. rewrite (eqb_ok_sym _ Heq), E0. reflexivity.
        * exact IH.
  Qed.

  Lemma dlook_dext (k k' : K) (l : list A) d :
    dlook eqb k (dext eqb k' l d) = if eqb k k' then dlook eqb k' d ++ l else dlook eqb k d.
  Proof.
    unfold dlook, dext. rewrite dget_dupd. destruct (eqb k k'); [|reflexivity].
    destruct (dget eqb k' d); reflexivity.
  Qed.

  Lemma keys_dupd (k : K) (f : option (list A) -> list A) d :
    map fst (dupd eqb k f d) = if mem eqb k (map fst d) then map fst d else map fst d ++ [k].
  Proof.
    induction d as [|[k0 v] t IH]; simpl; [reflexivity|].
    unfold mem in *; simpl. destruct (eqb k k0) eqn:E; simpl; [reflexivity|].
    rewrite IH. destruct (existsb (eqb k) (map fst t)); reflexivity.
  Qed.

  Lemma dget_None_keys (k : K) (d : list (K * list A)) : dget eqb k d = None <-> ~ In k (map fst d).
  Proof.
    induction d as [|[k0 v] t IH]; simpl.
    - split; [intros _ []|reflexivity].
    - destruct (eqb k k0) eqn:E.
      + apply Heq in E; subst. split; [discriminate | intro H; exfalso; apply H; left; reflexivity].
      + rewrite IH. split.
        * intros H [F|F]; [subst; rewrite (eqb_ok_refl _ Heq) in E; discriminate | exact (H F)].
        * intros H F; apply H; right; exact F.
  Qed.
  Lemma dget_Some_In (k : K) (d : list (K * list A)) v : dget eqb k d = Some v -> In (k, v) d.
  Proof.
    induction d as [|[k0 v0] t IH]; simpl; [discriminate|].
    destruct (eqb k k0) eqn:E.
    - apply Heq in E; subst. intro H; inversion H; left; reflexivity.
    - intro H; right; exact (IH H).
  Qed.
  Lemma In_dget (k : K) (d : list (K * list A)) v : NoDup (map fst d) -> In (k, v) d -> dget eqb k d = Some v.
  Proof.
    induction d as [|[k0 v0] t IH]; simpl; intros ND H; [destruct H|].
    inversion ND as [|? ? Hn ND']; subst.
    destruct H as [H|H].
    - inversion H; subst. rewrite (eqb_ok_refl _ Heq). reflexivity.
    - destruct (eqb k k0) eqn:E.
      + apply Heq in E; subst. exfalso; apply Hn. apply (in_map fst) in H. exact H.
      + apply IH; assumption.
  Qed.
  Lemma dlook_not_key (k : K) (d : list (K * list A)) : ~ In k (map fst d) -> dlook eqb k d = [].
  Proof. intro H. unfold dlook. apply dget_None_keys in H. rewrite H. reflexivity. Qed.

  (* appending a fresh key *)
  Lemma dext_fresh (k : K) (l : list A) d : ~ In k (map fst d) -> dext eqb k l d = d ++ [(k, l)].
  Proof.
    induction d as [|[k0 v] t IH]; simpl; intro H; [reflexivity|].
    unfold dext in *; simpl.
    destruct (eqb k k0) eqn:E.
    - apply Heq in E; subst. exfalso; apply H; left; reflexivity.
    - rewrite IH; [reflexivity|]. intro F; apply H; right; exact F.
  Qed.

  Lemma NoDup_keys_dupd (k : K) f (d : list (K * list A)) : NoDup (map fst d) -> NoDup (map fst (dupd eqb k f d)).
  Proof.
    intro ND. rewrite keys_dupd. destruct (mem eqb k (map fst d)) eqn:E; [exact ND|].
    apply (mem_false eqb Heq) in E.
    apply NoDup_app_fresh; assumption.
  Qed.
End DictFacts.

(* ------------------------------------------------------------------ *)
(* dedup_keep_first / sort_by                                          *)
Section Dedup.
  Context {K : Type} (eqb : K -> K -> bool) (Heq : eqb_ok eqb).
  Lemma dedup_aux_In seen l x : In x (dedup_aux eqb seen l) <-> In x l /\ ~ In x seen.
  Proof.
    revert seen; induction l as [|y t IH]; intro seen; simpl.
    - split; [intros [] | intros [[] _]].
    - destruct (mem eqb y seen) eqn:E.
      + apply (mem_In eqb Heq) in E. rewrite IH. split.
        * intros [A B]; split; [right; exact A | exact B].
        * intros [[A|A] B]; [subst; contradiction | split; assumption].
      + apply (mem_false eqb Heq) in E. simpl. rewrite IH. simpl. split.
        * intros [A|[A B]]; [subst; split; [left; reflexivity | exact E] | split; [right; exact A | intro F; apply B; right; exact F]].
        * intros [[A|A] B]; [left; exact A|].
          destruct (eqb y x) eqn:Eyx.
          -- apply Heq in Eyx; left; exact Eyx.
          -- right; split; [exact A | intros [F|F]; [subst; rewrite (eqb_ok_refl _ Heq) in Eyx; discriminate | exact (B F)]].
  Qed.
  Lemma dedup_aux_NoDup seen l : NoDup (dedup_aux eqb seen l).
  Proof.
    revert seen; induction l as [|y t IH]; intro seen; simpl; [constructor|].
    destruct (mem eqb y seen); [apply IH|].
    constructor; [|apply IH].
    rewrite dedup_aux_In. intros [_ F]; apply F; left; reflexivity.
  Qed.
  Lemma dedup_In l x : In x (dedup_keep_first eqb l) <-> In x l.
  Proof. unfold dedup_keep_first. rewrite dedup_aux_In. split; [intros [A _]; exact A | intro A; split; [exact A | intros []]]. Qed.
  Lemma dedup_NoDup l : NoDup (dedup_keep_first eqb l).
  Proof. apply dedup_aux_NoDup. Qed.
  Lemma dedup_aux_id seen l : NoDup l -> (forall x, In x l -> ~ In x seen) -> dedup_aux eqb seen l = l.
  Proof.
    revert seen; induction l as [|y t IH]; intros seen ND H; simpl; [reflexivity|].
    inversion ND as [|? ? Hn ND']; subst.
    assert (E : mem eqb y seen = false) by (apply (mem_false eqb Heq); apply H; left; reflexivity).
    rewrite E. f_equal. apply IH; [exact ND'|].
    intros x Hx [F|F]; [subst; contradiction | exact (H x (or_intror Hx) F)].
  Qed.
  Lemma dedup_id l : NoDup l -> dedup_keep_first eqb l = l.
  Proof. intro ND; apply dedup_aux_id; [exact ND | intros x _ []]. Qed.
End Dedup.

Lemma insert_sorted_perm {A} (leb : A -> A -> bool) x l : Permutation (insert_sorted leb x l) (x :: l).
Proof.
  induction l as [|y t IH]; simpl; [apply Permutation_refl|].
  destruct (leb x y); [apply Permutation_refl|].
  eapply Permutation_trans; [apply perm_skip; exact IH | apply perm_swap].
Qed.
Lemma sort_by_perm {A} (leb : A -> A -> bool) l : Permutation (sort_by leb l) l.
Proof.
  induction l as [|y t IH]; simpl; [constructor|].
  eapply Permutation_trans; [apply insert_sorted_perm | apply perm_skip; exact IH].
Qed.
Lemma sort_by_In {A} (leb : A -> A -> bool) l x : In x (sort_by leb l) <-> In x l.
Proof. split; apply Permutation_in; [apply sort_by_perm | apply Permutation_sym, sort_by_perm]. Qed.
Lemma sort_by_NoDup {A} (leb : A -> A -> bool) l : NoDup l -> NoDup (sort_by leb l).
Proof. intro H. eapply Permutation_NoDup; [apply Permutation_sym, sort_by_perm | exact H]. Qed.
Lemma sort_by_ext {A} (f g : A -> A -> bool) l : (forall x y, f x y = g x y) -> sort_by f l = sort_by g l.
Proof.
  intro H. induction l as [|y t IH]; simpl; [reflexivity|]. rewrite IH.
  generalize (sort_by g t). intro m. induction m as [|z m IHm]; simpl; [reflexivity|].
  rewrite H, IHm. reflexivity.
Qed.

Lemma insert_sorted_Zsorted x l : StronglySorted Z.le l -> StronglySorted Z.le (insert_sorted Z.leb x l).
Proof.
  induction l as [|y t IH]; simpl; intro S; [constructor; constructor|].
  inversion S as [|? ? S' F]; subst.
  destruct (Z.leb x y) eqn:E.
  - apply Z.leb_le in E. constructor; [exact S|].
    constructor; [exact E|]. eapply Forall_impl; [|exact F]. simpl; intros; lia.
  - apply Z.leb_gt in E. constructor; [apply IH; exact S'|].
    apply Forall_forall. intros z Hz.
    apply (Permutation_in _ (insert_sorted_perm Z.leb x t)) in Hz. destruct Hz as [Hz|Hz]; [subst; lia|].
    rewrite Forall_forall in F. exact (F z Hz).
Qed.
Lemma sort_by_Zsorted l : StronglySorted Z.le (sort_by Z.leb l).
Proof. induction l as [|y t IH]; simpl; [constructor | apply insert_sorted_Zsorted; exact IH]. Qed.
Lemma sorted_le_nodup_lt l : StronglySorted Z.le l -> NoDup l -> StronglySorted Z.lt l.
Proof.
  induction l as [|y t IH]; intros S ND; [constructor|].
  inversion S as [|? ? S' F]; inversion ND as [|? ? Hn ND']; subst.
  constructor; [apply IH; assumption|].
  rewrite Forall_forall in *. intros z Hz. pose proof (F z Hz).
  assert (y <> z) by (intros ->; contradiction). lia.
Qed.
Lemma sorted_lt_unique l1 l2 :
  StronglySorted Z.lt l1 -> StronglySorted Z.lt l2 -> (forall x, In x l1 <-> In x l2) -> l1 = l2.
Proof.
  revert l2; induction l1 as [|a t IH]; intros l2 S1 S2 H.
  - destruct l2 as [|b u]; [reflexivity|]. exfalso. apply (H b). left; reflexivity.
  - destruct l2 as [|b u]; [exfalso; apply (H a); left; reflexivity|].
    inversion S1 as [|? ? S1' F1]; inversion S2 as [|? ? S2' F2]; subst.
    rewrite Forall_forall in F1, F2.
    assert (a = b).
    { destruct (proj1 (H a) (or_introl eq_refl)) as [E|E]; [symmetry; exact E|].
      destruct (proj2 (H b) (or_introl eq_refl)) as [E'|E']; [exact E'|].
      pose proof (F1 b E'). pose proof (F2 a E). lia. }
    subst b. f_equal. apply IH; [exact S1' | exact S2'|].
    intro x; split; intro Hx.
    + destruct (proj1 (H x) (or_intror Hx)) as [E|E]; [subst; pose proof (F1 x Hx); lia | exact E].
    + destruct (proj2 (H x) (or_intror Hx)) as [E|E]; [subst; pose proof (F2 x Hx); lia | exact E].
Qed.
Lemma sorted_set_Z_sorted l : StronglySorted Z.lt (sorted_set_Z l).
Proof.
  unfold sorted_set_Z. apply sorted_le_nodup_lt; [apply sort_by_Zsorted|].
  apply sort_by_NoDup, (dedup_NoDup Z.eqb Zeqb_ok).
Qed.
Lemma sorted_set_Z_In l x : In x (sorted_set_Z l) <-> In x l.
Proof. unfold sorted_set_Z. rewrite sort_by_In. apply (dedup_In Z.eqb Zeqb_ok). Qed.
Lemma sorted_set_Z_eq l l' : StronglySorted Z.lt l' -> (forall x, In x l <-> In x l') -> sorted_set_Z l = l'.
Proof.
  intros S H. apply sorted_lt_unique; [apply sorted_set_Z_sorted | exact S|].
  intro x. rewrite sorted_set_Z_In. apply H.
Qed.
Lemma sorted_set_Z_idem l : sorted_set_Z (sorted_set_Z l) = sorted_set_Z l.
Proof. apply sorted_set_Z_eq; [apply sorted_set_Z_sorted | intro x; reflexivity]. Qed.

Lemma sorted_lt_NoDup l : StronglySorted Z.lt l -> NoDup l.
Proof.
  induction l as [|y t IH]; intro S; [constructor|].
  inversion S as [|? ? S' F]; subst. constructor; [|apply IH; exact S'].
  rewrite Forall_forall in F. intro Hy. pose proof (F y Hy). lia.
Qed.
Lemma sorted_map_filter {A} (f : A -> Z) (p : A -> bool) l :
  StronglySorted Z.lt (map f l) -> StronglySorted Z.lt (map f (filter p l)).
Proof.
  induction l as [|y t IH]; simpl; intro S; [constructor|].
  inversion S as [|? ? S' F]; subst.
  destruct (p y); simpl; [|apply IH; exact S'].
  constructor; [apply IH; exact S'|].
  rewrite Forall_forall in *. intros z Hz. apply F.
  apply in_map_iff in Hz. destruct Hz as [w [E Hw]]. apply filter_In in Hw. apply in_map_iff. exists w. tauto.
Qed.

(* ------------------------------------------------------------------ *)
(* combinations2                                                       *)
Lemma comb_In {A} (l : list A) x y : In (x, y) (combinations2 l) -> In x l /\ In y l.
Proof.
  induction l as [|a t IH]; simpl; [intros []|].
  rewrite in_app_iff, in_map_iff. intros [[z [E Hz]]|H].
  - inversion E; subst. split; [left; reflexivity | right; exact Hz].
  - destruct (IH H); split; right; assumption.
Qed.

(* lookup variants *)
Lemma dlook_dext' {K A} (eqb : K -> K -> bool) (Heq : eqb_ok eqb) (k k' : K) (l : list A) d :
  dlook eqb k (dext eqb k' l d) = dlook eqb k d ++ (if eqb k k' then l else []).
Proof.
  rewrite (dlook_dext eqb Heq). destruct (eqb k k') eqn:E; [|rewrite app_nil_r; reflexivity].
  apply Heq in E; subst; reflexivity.
Qed.
Lemma dlook_dupd_const {K A} (eqb : K -> K -> bool) (Heq : eqb_ok eqb) (k k' : K) (v : list A) d :
  dlook eqb k (dupd eqb k' (fun _ => v) d) = if eqb k k' then v else dlook eqb k d.
Proof. unfold dlook. rewrite (dget_dupd eqb Heq). destruct (eqb k k'); reflexivity. Qed.

Lemma keys_In_dupd {K A} (eqb : K -> K -> bool) (Heq : eqb_ok eqb) (k c : K) f (d : list (K * list A)) :
  In c (map fst (dupd eqb k f d)) <-> In c (map fst d) \/ c = k.
Proof.
  rewrite (keys_dupd eqb). destruct (mem eqb k (map fst d)) eqn:E.
  - apply (mem_In eqb Heq) in E. split; [intro H; left; exact H | intros [H|H]; [exact H | subst; exact E]].
  - rewrite in_app_iff; simpl. split; [intros [H|[H|[]]]; [left; exact H | right; symmetry; exact H]
                                      | intros [H|H]; [left; exact H | right; left; symmetry; exact H]].
Qed.
Lemma keys_dupd_present {K A} (eqb : K -> K -> bool) (Heq : eqb_ok eqb) (k : K) f (d : list (K * list A)) :
  In k (map fst d) -> map fst (dupd eqb k f d) = map fst d.
Proof. intro H. rewrite (keys_dupd eqb). apply (mem_In eqb Heq) in H. rewrite H. reflexivity. Qed.

(* a dictionary with distinct keys is determined by its key list and its lookups *)
Lemma dict_by_lookup {K A} (eqb : K -> K -> bool) (Heq : eqb_ok eqb) (d : list (K * list A)) :
  NoDup (map fst d) -> d = map (fun k => (k, dlook eqb k d)) (map fst d).
Proof.
  induction d as [|[k v] t IH]; simpl; intro ND; [reflexivity|].
  inversion ND as [|? ? Hn ND']; subst.
  unfold dlook at 1; simpl. rewrite (eqb_ok_refl _ Heq). f_equal.
  rewrite (IH ND') at 1. apply map_ext_in. intros k' Hk'.
  unfold dlook; simpl. rewrite (eqb_ok_neq _ Heq); [reflexivity|]. intros ->; contradiction.
Qed.

Lemma filter_or_perm {A} (p q : A -> bool) l :
  (forall x, In x l -> p x = true -> q x = false) ->
  Permutation (filter (fun x => (p x || q x)%bool) l) (filter p l ++ filter q l).
Proof.
  induction l as [|x t IH]; simpl; intro H; [constructor|].
  assert (IH' := IH (fun y Hy => H y (or_intror Hy))).
  destruct (p x) eqn:Px; simpl.
  - rewrite (H x (or_introl eq_refl) Px). apply perm_skip; exact IH'.
  - destruct (q x); [|exact IH'].
    eapply Permutation_trans; [apply perm_skip; exact IH' | apply Permutation_middle].
Qed.
