(* Model_geom.v — executable model of transform.py, the superposition kernels of superpose.py and
   align.py (C10, C06, C18).  Polymorphic in the number dictionary N (Model_geom_num.v): run at
   NumQ, reasoned about at NumR.  All formulas come from Generated_geom.v (regenerated from the
   source on every run); what is hand-written here is the control skeleton around them.
   No proofs in this file. *)
From Verif Require Import PyLib Model_geom_num Generated_geom.
Open Scope string_scope.

Fixpoint assoc_str {A} (k : string) (l : list (string * A)) : option A :=
  match l with
  | [] => None
  | (k', v) :: t => if String.eqb k k' then Some v else assoc_str k t
  end.

(* str.lower() on ASCII *)
Definition lower_ascii (c : ascii) : ascii :=
  let n := nat_of_ascii c in
  if (Nat.leb 65 n && Nat.leb n 90)%bool then ascii_of_nat (n + 32) else c.
Fixpoint lower (s : string) : string :=
  match s with EmptyString => EmptyString | String c t => String (lower_ascii c) (lower t) end.

Fixpoint set_nth {X} (i : nat) (x : X) (l : list X) : list X :=
  match l, i with
  | [], _ => []
  | _ :: t, O => x :: t
  | y :: t, S k => y :: set_nth k x t
  end.

Section Model.
Context {T : Type} (N : Num T).
Local Notation pts := (list (vec3 T)).

(* ------------------------------------------------------------------------------------ *)
(* transform.py:175-198  rotate(xyz, rot_mat, center=None)
   xyz = [] stands for the array np.array([]) of shape (0,) that _get_xyz returns for an empty
   selection: its np.mean is a float scalar (TypeError from the isinstance guard); with an
   explicit centre the subtraction cannot broadcast (ValueError). *)
Definition rotate (xyz : pts) (M : mat3 T) (center : option (vec3 T)) : res pts :=
  match xyz, center with
  | [], None => Err rotate_bad_center_exc_src
  | [], Some _ => Err "ValueError"
  | _, None => Ok (rotate_apply_src N xyz M (rotate_default_center_src N xyz))
  | _, Some c => Ok (rotate_apply_src N xyz M c)
  end.

(* transform.py:77-106; the angle enters as (ct, st) = (cos angle, sin angle) *)
Definition rot_xyz_around_axis (xyz : pts) (axis : vec3 T) (ct st : T) (center : option (vec3 T)) : res pts :=
  rotate xyz (rodrigues_src N ct st (vx axis) (vy axis) (vz axis)) center.

(* transform.py:128-156 *)
Definition rotation_euler (xyz : pts) (ca sa cb sb cg sg : T) (center : option (vec3 T)) : res pts :=
  rotate xyz (euler_src N ca sa cb sb cg sg) center.

(* transform.py:14-23: xyz += vect on the (0,) array cannot broadcast *)
Definition translate (xyz : pts) (vect : vec3 T) : res pts :=
  match xyz with [] => Err "ValueError" | _ => Ok (translation_src N xyz vect) end.

(* ---- database level: read the selection, transform, write the selection back --------- *)
(* A table is a list of rows (attributes, coordinates); the attributes are abstract.
   A selection is the list of row positions that db.get('rowID', **kwargs) returns. *)
Definition read_sel {A} (tb : list (A * vec3 T)) (sel : list nat) : pts :=
  map (fun i => nth i (map snd tb) (vzero N)) sel.                 (* transform.py:205-206 *)
Definition write_row {A} (tb : list (A * vec3 T)) (i : nat) (p : vec3 T) : list (A * vec3 T) :=
  match nth_error tb i with
  | Some (a, _) => set_nth i (a, p) tb        (* UPDATE ... SET x=?,y=?,z=? WHERE rowID=? *)
  | None => tb
  end.
Definition write_sel {A} (tb : list (A * vec3 T)) (sel : list nat) (xyz : pts) : list (A * vec3 T) :=
  fold_left (fun t ip => write_row t (fst ip) (snd ip)) (combine sel xyz) tb.   (* transform.py:209-210 *)

Inductive op :=
| OTranslate (v : vec3 T)                         (* translation(db, vect, **kwargs) *)
| ORotAxis (axis : vec3 T) (ct st : T)            (* rot_axis(db, axis, angle, **kwargs) *)
| ORotEuler (ca sa cb sb cg sg : T)               (* rot_euler(db, alpha, beta, gamma, **kwargs) *)
| ORotMat (M : mat3 T).                           (* rot_mat(db, mat, **kwargs) *)

Definition op_fun (o : op) (xyz : pts) : res pts :=
  match o with
  | OTranslate v => translate xyz v
  | ORotAxis ax ct st => rot_xyz_around_axis xyz ax ct st None
  | ORotEuler ca sa cb sb cg sg => rotation_euler xyz ca sa cb sb cg sg None
  | ORotMat M => rotate xyz M None
  end.

Definition db_apply {A} (tb : list (A * vec3 T)) (sel : list nat) (o : op) : res (list (A * vec3 T)) :=
  do xyz <- op_fun o (read_sel tb sel); Ok (write_sel tb sel xyz).

(* a history of transforms; an operation that raises leaves the table as it was *)
Fixpoint db_history {A} (tb : list (A * vec3 T)) (h : list (list nat * op)) : list string * list (A * vec3 T) :=
  match h with
  | [] => ([], tb)
  | (sel, o) :: t =>
    match db_apply tb sel o with
    | Ok tb' => let '(st, r) := db_history tb' t in ("ok" :: st, r)
    | Err e => let '(st, r) := db_history tb t in (e :: st, r)
    end
  end.

(* transform.py:47-74: axis and angle from the three uniform draws; (c_theta, s_theta) are the
   cosine and sine of rand_theta_src, s_phi the sine of arccos(rand_cosphi_src) *)
Definition rand_axis_angle (pi u1 u2 u3 c_theta s_theta s_phi : T) : vec3 T * T :=
  (rand_axis_src N c_theta s_theta (rand_cosphi_src N pi u1 u2) s_phi, rand_angle_src N pi u3).

(* ------------------------------------------------------------------------------------ *)
(* superpose.py:162-213; svd is the oracle np.linalg.svd: A |-> (V, s, Wh) *)
Definition kabsch (svd : mat3 T -> mat3 T * vec3 T * mat3 T) (P Q : pts) : res (mat3 T) :=
  if negb (Nat.eqb (List.length P) (List.length Q)) then Err "ValueError"        (* :181-185 *)
  else if Nat.eqb (List.length P) 0 then Err "OutOfModel"                   (* n >= 1 *)
  else if kabsch_uncentred_src N P Q then Err "ValueError"             (* :187-190 *)
  else
    let '(V, _, Wh) := svd (kabsch_cov_src N P Q) in                   (* :193-196 *)
    Ok (kabsch_post_src N V Wh).                                       (* :201-213 *)

(* superpose.py:216-291; eig is the oracle np.linalg.eigh (symmetric solver, real answer): F |-> (l, U) *)
Definition quaternion (eig : mat4 T -> list T * mat4 T) (P Q : pts) : res (mat3 T) :=
  if negb (Nat.eqb (List.length P) (List.length Q)) then Err "ValueError"        (* :235-237 *)
  else if Nat.eqb (List.length P) 0 then Err "OutOfModel"
  else if quat_uncentred_src N P Q then Err "ValueError"               (* :239-242 *)
  else
    let '(l, U) := eig (quat_F_src N (quat_corr_src N P Q)) in         (* :245-272 *)
    Ok (quat_rot_src N (m4col U (quat_pick_src N l))).                 (* :275-291 *)

(* superpose.py:129-159 *)
Definition get_rotation_matrix svd eig (method : string) (P Q : pts) : res (mat3 T) :=
  match assoc_str (lower method) rotmat_dispatch_src with
  | Some KKabsch => kabsch svd P Q
  | Some KQuaternion => quaternion eig P Q
  | None => Err "ValueError"
  end.

(* superpose.py:82-114 *)
Definition superpose_selection (getrot : pts -> pts -> res (mat3 T)) (xyz sel_m sel_t : pts) : res pts :=
  do rmat <- getrot (sup_centre_src N sel_m) (sup_centre_src N sel_t);
  Ok (sup_apply_src N xyz sel_m sel_t rmat).

(* ------------------------------------------------------------------------------------ *)
(* align.py *)
(* np.cov of the 3 x n array of centred coordinates: sample covariance, ddof = 1 (align.py:171-174) *)
Definition scatter (xyz : pts) : mat3 T :=
  let mu := mean N xyz in
  fold_right (fun p acc => madd N (outer N (vsub N p mu) (vsub N p mu)) acc) (mzero N) xyz.
Definition sample_cov (xyz : pts) : mat3 T :=
  mdivs N (scatter xyz) (nsub N (nlen N xyz) (n1 N)).

(* the (cos, sin) pair of one angle expression of the per-axis table *)
Definition step_cs (e : angexpr) (cphi sphi cth sth : T) : T * T :=
  ang_cs N (ae_k e) (ae_neg e) (match ae_var e with APhi => (cphi, sphi) | ATheta => (cth, sth) end).
Definition zvec (a : Z * Z * Z) : vec3 T :=
  V3 (nofZ N (fst (fst a))) (nofZ N (snd (fst a))) (nofZ N (snd a)).

(* align.py:178-212; (cphi, sphi, cth, sth) = cos/sin of the two angles of get_rotation_angle *)
Definition align_steps (steps : list ((Z * Z * Z) * angexpr)) (cphi sphi cth sth : T) (xyz : pts) : res pts :=
  fold_left (fun acc st =>
               do x <- acc;
               let cs := step_cs (snd st) cphi sphi cth sth in
               rot_xyz_around_axis x (zvec (fst st)) (fst cs) (snd cs) None)
            steps (Ok xyz).
Definition align_along_axis (xyz : pts) (axis : string) (cphi sphi cth sth : T) : res pts :=
  match assoc_str axis align_table_src with
  | None => Err "ValueError"
  | Some steps => align_steps steps cphi sphi cth sth xyz
  end.

(* align.py:84-108 (align_pca_vect): every atom is read, rotated, written back *)
Definition align_pca_vect {A} (tb : list (A * vec3 T)) (axis : string) (cphi sphi cth sth : T)
  : res (list (A * vec3 T)) :=
  let all := seq 0 (List.length tb) in
  do xyz <- align_along_axis (read_sel tb all) axis cphi sphi cth sth;
  Ok (write_sel tb all xyz).

(* align.py:7-44 / 47-81: the eigenvector handed to align_pca_vect.  (u, v) is the oracle output
   np.linalg.eigh(np.cov(...)) for the selected atoms; interface = true picks the least variance. *)
Definition pca_vect (interface : bool) (u : list T) (v : mat3 T) : vec3 T :=
  mcol v (if interface then pca_pick_min_src N u else pca_pick_max_src N u).
Definition plane_axis (plane : string) : res string :=
  match assoc_str plane plane_axis_src with Some a => Ok a | None => Err "KeyError" end.
End Model.
Arguments OTranslate {T} _. Arguments ORotAxis {T} _ _ _. Arguments ORotEuler {T} _ _ _ _ _ _. Arguments ORotMat {T} _.
