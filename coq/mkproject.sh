#!/bin/bash
# regenerate _CoqProject from the files present (Generated_*.v included)
cd "$(dirname "$0")"
{ echo "-Q . Verif"; ls *.v Properties/*.v | sort; } > _CoqProject
coq_makefile -f _CoqProject -o Makefile > /dev/null
