(* Proofs_store.v — C15 *)
From Coq Require Import Lia.
From Verif Require Import PyLib ModelTypes Generated_parse Generated_export Model_parse Model_export Spec_parse
  Model_store Proofs_text Proofs_parse Proofs_zone.
Open Scope string_scope.

(* ---- independence: an operation on one object changes no other object ---- *)
Lemma nth_error_set_nth_other {A} (l : list A) n m x : n <> m -> nth_error (set_nth n x l) m = nth_error l m.
Proof.
  revert n m. induction l as [|y t IH]; intros n m H; [destruct n; reflexivity|].
  destruct n as [|n], m as [|m]; cbn; try reflexivity; try congruence.
  apply IH. congruence.
Qed.
Lemma nth_error_app_old {A} (l l' : list A) m : (m < List.length l)%nat -> nth_error (l ++ l')%list m = nth_error l m.
Proof. intro H. apply nth_error_app1. exact H. Qed.

Theorem step_independent s o s' b :
  step s o = Ok s' -> (b < List.length s)%nat ->
  (match o with OSetCell obj _ _ _ => obj <> b | ODerive _ _ => True end) ->
  nth_error s' b = nth_error s b.
Proof.
  intros H Hb Hne. destruct o as [obj rp col v | src sel]; cbn in H.
  - destruct (nth_error s obj) as [t|]; [|discriminate H].
    destruct (nth_error t rp) as [r|]; injection H as <-; [|reflexivity].
    apply nth_error_set_nth_other. exact Hne.
  - destruct (nth_error s src) as [t|]; [|discriminate H].
    destruct (snapshot (select sel t)) as [t'|]; cbn in H; [|discriminate H].
    injection H as <-. apply nth_error_app_old. exact Hb.
Qed.

Lemma set_nth_length {A} n (x : A) l : List.length (set_nth n x l) = List.length l.
Proof. revert n. induction l as [|y t IH]; intro n; destruct n; cbn; try reflexivity. rewrite IH. reflexivity. Qed.

Lemma step_length s o s' : step s o = Ok s' -> (List.length s <= List.length s')%nat.
Proof.
  intro H. destruct o as [obj rp col v | src sel]; cbn in H.
  - destruct (nth_error s obj) as [t|]; [|discriminate H].
    destruct (nth_error t rp) as [r|]; injection H as <-; [rewrite set_nth_length|]; lia.
  - destruct (nth_error s src) as [t|]; [|discriminate H].
    destruct (snapshot (select sel t)) as [t'|]; cbn in H; [|discriminate H].
    injection H as <-. rewrite app_length. lia.
Qed.

Definition touches (b : nat) (o : op) : bool :=
  match o with OSetCell obj _ _ _ => Nat.eqb obj b | ODerive _ _ => false end.

(* every history: an object is changed only by the operations addressed to it *)
Theorem history_independent : forall ops s s' b,
  run_ops s ops = Ok s' -> (b < List.length s)%nat ->
  forallb (fun o => negb (touches b o)) ops = true ->
  nth_error s' b = nth_error s b.
Proof.
  induction ops as [|o t IH]; intros s s' b H Hb Hn; cbn in H.
  - injection H as <-. reflexivity.
  - destruct (step s o) as [s1|] eqn:E; cbn in H; [|discriminate H].
    cbn in Hn. apply andb_prop in Hn. destruct Hn as [Ho Ht].
    rewrite (IH s1 s' b H); [| pose proof (step_length _ _ _ E); lia | exact Ht].
    apply (step_independent s o s1 b E Hb).
    destruct o; cbn in Ho; [|exact I]. apply negb_true_iff in Ho. apply Nat.eqb_neq in Ho. exact Ho.
Qed.

(* ---- snapshot: exactly the selected atoms, in order, each a function of its own row ---- *)
Lemma upto_nl_nonl l : nonl l = true -> upto_nl l = l.
Proof.
  induction l as [|c t IH]; cbn; intro H; [reflexivity|].
  apply andb_prop in H. destruct H as [A B]. apply negb_true_iff in A. rewrite A, (IH B). reflexivity.
Qed.

Definition derived_row (r : row) : res row := do l <- line_of_row r; parse_record 0 l.

Lemma line_starts_ATOM r l : line_of_row r = Ok l -> is_ATOM l = true /\ is_ENDMDL l = false.
Proof.
  unfold line_of_row.
  change export_layout_src with (PLit "ATOM  " :: tl export_layout_src).
  cbn [render_pieces render_piece bind].
  destruct (render_pieces r (tl export_layout_src)) as [s|e]; cbn [bind]; intro H; [|discriminate H].
  injection H as <-. split; reflexivity.
Qed.

Definition same_outcome {A} (x y : res A) : Prop :=
  match x, y with Ok a, Ok b => a = b | Err _, Err _ => True | _, _ => False end.

Theorem snapshot_rowwise rows :
  (forall r l, In r rows -> line_of_row r = Ok l -> nonl l = true) ->
  same_outcome (snapshot rows) (mapM derived_row rows).
Proof.
  unfold snapshot, export. induction rows as [|r t IH]; intro Hn; [reflexivity|].
  cbn [mapM]. unfold derived_row at 1.
  assert (IH' := IH (fun r' l' Hin => Hn r' l' (or_intror Hin))). clear IH.
  destruct (line_of_row r) as [l|e] eqn:El; cbn [bind]; [|exact I].
  destruct (line_starts_ATOM r l El) as [HA HE].
  destruct (mapM line_of_row t) as [ls|e] eqn:Els; cbn [bind] in *.
  - cbn [parse_lines]. rewrite atom_prefix_is, HA.
    rewrite (upto_nl_nonl l (Hn r l (or_introl eq_refl) El)).
    destruct (parse_record 0 l) as [r'|e]; cbn [bind]; [|exact I].
    destruct (parse_lines ls 0) as [[rs n]|e]; cbn [bind fst] in *;
    destruct (mapM derived_row t); cbn in *; try contradiction; try exact I. subst. reflexivity.
  - destruct (parse_record 0 l); cbn [bind]; [|exact I].
    destruct (mapM derived_row t); cbn in *; [contradiction | exact I].
Qed.
