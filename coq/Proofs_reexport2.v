(* Proofs_reexport2.v — C02: exporting the table that was read back gives the identical line *)
From Coq Require Import Lia Lqa Qabs.
From Verif Require Import PyLib PyLibFacts ModelTypes Generated_parse Model_parse Generated_export Model_export Spec_parse Spec_export
  Proofs_text Proofs_digits Proofs_export Proofs_export2 Proofs_reparse Proofs_reread Proofs_roundtrip Proofs_b64 Proofs_reexport.
Open Scope Q_scope.

(* a coordinate that is neither on a format-switch threshold (same decimals after re-reading, still in range) nor a
   negative zero (sign kept); an occupancy / B-factor that is not a negative zero *)
Definition stable_coord (v : val) : Prop :=
  match real_of v with
  | Some q => let x' := b64 (printed_value (xyz_decimals q) q) in
              Qltb coord_lo x' && Qltb x' coord_hi = true /\ xyz_decimals x' = xyz_decimals q /\ Qltb x' 0 = Qltb q 0
  | None => True
  end.
Definition stable_real2 (v : val) : Prop :=
  match real_of v with Some q => Qltb (b64 (printed_value 2 q)) 0 = Qltb q 0 | None => True end.
Definition stable (d : row) : Prop :=
  stable_coord (nth 7 d VNull) /\ stable_coord (nth 8 d VNull) /\ stable_coord (nth 9 d VNull) /\
  stable_real2 (nth 10 d VNull) /\ stable_real2 (nth 11 d VNull).

Lemma render_pieces_ext d d' ps : (forall p, In p ps -> render_piece d p = render_piece d' p) ->
  render_pieces d ps = render_pieces d' ps.
Proof.
  induction ps as [|p t IH]; intro H; [reflexivity|]. cbn [render_pieces].
  rewrite (H p (or_introl eq_refl)), IH; [reflexivity|]. intros p' Hp. apply H. right. exact Hp.
Qed.

Lemma xyz_piece_same v : coord_in_range v = true -> stable_coord v ->
  match reread_coord v with VReal q => format_xyz_src q | VInt z => format_xyz_src (inject_Z z) | _ => Err "OutOfModel" end
  = match v with VReal q => format_xyz_src q | VInt z => format_xyz_src (inject_Z z) | _ => Err "OutOfModel" end.
Proof.
  unfold coord_in_range, stable_coord, reread_coord.
  destruct v as [z|q|s| |]; cbn [real_of]; try discriminate; intros R [R' [D S]]; apply reexport_coordinate; assumption.
Qed.

Lemma occ_bound q lo hi : Qleb lo q && Qleb q hi = true -> -(9999#100) <= lo -> hi <= 99999#100 ->
  (round_half_even (Qabs q * inject_Z (pow10 2)) < 2 ^ 52)%Z.
Proof.
  intros H Hlo Hhi. apply andb_prop in H. destruct H as [A B]. apply Qleb_spec in A. apply Qleb_spec in B.
  assert (Aq : Qabs q < 1000 # 1) by (apply Qabs_case; intros; lra).
  pose proof (Qabs_nonneg q) as N.
  assert (Bd : Qabs q * inject_Z (pow10 2) < inject_Z 100000).
  { change (inject_Z (pow10 2)) with (100 # 1). change (inject_Z 100000) with ((1000 # 1) * (100 # 1)).
    apply Qmult_lt_compat_r; [reflexivity | exact Aq]. }
  assert (NN : 0 <= Qabs q * inject_Z (pow10 2)) by (apply Qmult_le_0_compat; [exact N | discriminate]).
  pose proof (rhe_bound _ 100000 NN Bd) as HB. clear - HB.
  set (n := round_half_even (Qabs q * inject_Z (pow10 2))) in *. change (2 ^ 52)%Z with 4503599627370496%Z. lia.
Qed.

Lemma fixed_piece_same v : fits_real (-(9999#100)) (99999#100) v = true -> stable_real2 v ->
  (do q <- num_of (reread_real2 v); Ok (fmt_fixed 6 2 q)) = (do q <- num_of v; Ok (fmt_fixed 6 2 q)).
Proof.
  unfold fits_real, stable_real2, reread_real2.
  destruct v as [z|q|s| |]; cbn [real_of num_of bind]; try discriminate; intros R S; f_equal;
    (apply refmt; [apply (occ_bound _ _ _ R); lra | exact S]).
Qed.

Theorem reexport_identical d m : fits d = true -> stable d ->
  line_of_row (reread_row d m) = line_of_row d.
Proof.
  intros Hf [S7 [S8 [S9 [S10 S11]]]]. destruct (fits_parts d Hf) as [R7 [R8 [R9 [R10 R11]]]].
  unfold line_of_row. apply render_pieces_ext. intros p Hp. unfold export_layout_src in Hp. cbn [In] in Hp.
  repeat (destruct Hp as [Hp|Hp]; [subst p|]); try contradiction; try reflexivity.
  - cbn [render_piece]. change (nth 7 (reread_row d m) VNull) with (reread_coord (nth 7 d VNull)). apply (xyz_piece_same _ R7 S7).
  - cbn [render_piece]. change (nth 8 (reread_row d m) VNull) with (reread_coord (nth 8 d VNull)). apply (xyz_piece_same _ R8 S8).
  - cbn [render_piece]. change (nth 9 (reread_row d m) VNull) with (reread_coord (nth 9 d VNull)). apply (xyz_piece_same _ R9 S9).
  - cbn [render_piece]. change (nth 10 (reread_row d m) VNull) with (reread_real2 (nth 10 d VNull)). apply (fixed_piece_same _ R10 S10).
  - cbn [render_piece]. change (nth 11 (reread_row d m) VNull) with (reread_real2 (nth 11 d VNull)). apply (fixed_piece_same _ R11 S11).
Qed.

(* non-vacuity: the sample row of Proofs_roundtrip is stable; and the hypothesis does exclude exactly the property's two
   exceptions: a coordinate on a format-switch threshold and a negative zero are not stable *)
Example sample_row_stable : stable sample_row.
Proof. unfold stable, sample_row, stable_coord, stable_real2. cbn [nth real_of]. repeat split; vm_compute; reflexivity. Qed.
Example threshold_not_stable : ~ stable_coord (VReal (b64 (99999946 # 100))).     (* printed 999999.5, re-read onto the threshold *)
Proof. unfold stable_coord. cbn [real_of]. intros [_ [D _]]. vm_compute in D. discriminate D. Qed.
Example negative_zero_not_stable : ~ stable_coord (VReal (-(1 # 10000))).
Proof. unfold stable_coord. cbn [real_of]. intros [_ [_ S]]. vm_compute in S. discriminate S. Qed.

(* records already in canonical form — the text the exporter writes for a fitting, strip-stable, stable row — are
   reproduced unchanged by parse-then-export *)
Theorem canonical_reproduced d line m : fits d = true -> rereadable d -> stable d -> line_of_row d = Ok line ->
  exists d', parse_record m line = Ok d' /\ line_of_row d' = Ok line.
Proof.
  intros Hf Hr Hs Hl. exists (reread_row d m). split; [apply row_roundtrip; assumption|].
  rewrite (reexport_identical d m Hf Hs). exact Hl.
Qed.
