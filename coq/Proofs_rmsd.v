(* Proofs_rmsd.v — C07 (pairing by identity, value structure) *)
From Coq Require Import Lia Lqa.
From Verif Require Import PyLib ModelTypes Generated_parse Generated_contact Generated_rmsd Model_parse Model_contact
  Model_superpose Spec_superpose Model_zone Model_rmsd Spec_rmsd Proofs_superpose.
Open Scope string_scope.
Open Scope Z_scope.
Open Scope list_scope.

(* ---- the three fast readers read the wwPDB columns of the C01 table; a blank chain falls back
        to the first segID column ---- *)
Definition reader_field_ok (kv : string * (nat * nat)) : bool :=
  if String.eqb (fst kv) "chainID_if_blank" then
    (Nat.eqb (fst (snd kv)) 72 && Nat.eqb (snd (snd kv)) 73)%bool
  else match assoc (fst kv) delimiter_src with
       | Some (a, b) => (Nat.eqb (fst (snd kv)) a && Nat.eqb (snd (snd kv)) b)%bool
       | None => false
       end.
Lemma rmsd_readers_read_wwpdb_columns :
  forallb (fun fr => forallb reader_field_ok (snd fr)) rmsd_reader_cols_src = true
  /\ map fst rmsd_reader_cols_src = ["get_xyz_zone_backbone"; "get_data_zone_backbone"; "_get_xyz"].
Proof. split; vm_compute; reflexivity. Qed.

(* ---- identity pairing ---- *)
Lemma find_ext_in {A} (f g : A -> bool) l : (forall x, In x l -> f x = g x) -> find f l = find g l.
Proof.
  induction l as [|x t IH]; intro H; [reflexivity|]. cbn.
  rewrite (H x (or_introl eq_refl)). destruct (g x); [reflexivity|]. apply IH. intros y Hy. apply H. right. exact Hy.
Qed.

(* residue names agree between the two structures wherever chain and number agree *)
Definition names_consistent (decoy : structure) (r : atom) : Prop :=
  forall d, In d decoy -> chain d = chain r -> resSeq d = resSeq r -> resName d = resName r.

Lemma key4_is_key3 decoy r : names_consistent decoy r ->
  first_with_key4 (key4_of r) decoy = find (same_atom r) decoy.
Proof.
  intro H. unfold first_with_key4. apply find_ext_in. intros d Hd.
  unfold same_atom, key4_eqb, key4_of, key3_eqb, key3_of.
  destruct (String.eqb (chain d) (chain r)) eqn:E1; cbn [andb];
    [|rewrite String.eqb_sym, E1; reflexivity].
  destruct (Z.eqb (resSeq d) (resSeq r)) eqn:E2; cbn [andb];
    [|rewrite String.eqb_sym, E1, Z.eqb_sym, E2; reflexivity].
  apply String.eqb_eq in E1. apply Z.eqb_eq in E2.
  rewrite (H d Hd E1 E2), String.eqb_refl, E1, E2, String.eqb_refl, Z.eqb_refl. cbn [andb].
  apply String.eqb_sym.
Qed.

(* the SQL route: every reference atom of the zone is paired with THE decoy atom of the same
   (chain, residue number, atom name), wherever it stands in the decoy file *)
Theorem sql_route_pairs_by_identity rows decoy :
  Forall (names_consistent decoy) rows ->
  flat_map (fun r => match first_with_key4 (key4_of r) decoy with Some d => [(pos_of d, pos_of r)] | None => [] end) rows
  = flat_map (fun r => match find (same_atom r) decoy with Some d => [(pos_of d, pos_of r)] | None => [] end) rows.
Proof.
  induction 1 as [|r t Hr _ IH]; [reflexivity|]. cbn [flat_map]. rewrite (key4_is_key3 decoy r Hr), IH. reflexivity.
Qed.

Lemma identity_pairs_filter sel decoy ref :
  identity_pairs sel decoy ref
  = flat_map (fun r => match find (same_atom r) decoy with Some d => [(pos_of d, pos_of r)] | None => [] end) (filter sel ref).
Proof.
  unfold identity_pairs. induction ref as [|r t IH]; [reflexivity|]. cbn [flat_map filter].
  destruct (sel r); cbn [flat_map]; rewrite IH; reflexivity.
Qed.

(* the fast route with check: both coordinate lists are "all records whose key is common, in file
   order"; they pair atoms of equal identity exactly when the common keys come in the same
   relative order in the two files (what check_residues enforces) *)
Lemma map_eq_Forall2 {A B} (f : A -> B) l l' : map f l = map f l' -> Forall2 (fun a b => f a = f b) l l'.
Proof.
  revert l'. induction l as [|x t IH]; destruct l' as [|y t']; cbn; intro H; try discriminate H; constructor.
  - injection H as H1 _. exact H1.
  - injection H as _ H2. apply IH, H2.
Qed.
Theorem fast_route_pairs_by_identity decoy ref keys :
  map key3_of (filter (fun a => mem key3_eqb (key3_of a) keys) decoy)
  = map key3_of (filter (fun a => mem key3_eqb (key3_of a) keys) ref) ->
  Forall2 (fun d r => key3_of d = key3_of r)
          (filter (fun a => mem key3_eqb (key3_of a) keys) decoy) (filter (fun a => mem key3_eqb (key3_of a) keys) ref).
Proof. apply map_eq_Forall2. Qed.

(* without that hypothesis the statement is false of the faithful model: known finding F6 *)
Theorem fast_route_positional_refuted : exists decoy ref keys,
  unique_key3 decoy = true /\ unique_key3 ref = true /\
  (forall k, In k keys -> In k (map key3_of decoy) /\ In k (map key3_of ref)) /\
  ~ Forall2 (fun d r => key3_of d = key3_of r)
            (filter (fun a => mem key3_eqb (key3_of a) keys) decoy) (filter (fun a => mem key3_eqb (key3_of a) keys) ref).
Proof.
  set (a1 := mkAtom 0 "A" "ALA" 1 "CA" 0 0 0). set (a2 := mkAtom 1 "A" "GLY" 2 "CA" 1 0 0).
  exists [a2; a1], [a1; a2], [key3_of a1; key3_of a2].
  split; [reflexivity|]. split; [reflexivity|]. split.
  - intros k [<-|[<-|[]]]; cbn; auto.
  - cbn. intro H. inversion H as [|x y l l' Hxy _]; subst. discriminate Hxy.
Qed.

(* ---- value structure: what is reported is the kernel's residual on the centred fitted atoms ---- *)
Lemma sqdev_norm2 p q : sqdev p q = norm2 (vsub p q).
Proof. reflexivity. Qed.

Lemma Ok_inj' {A} (a b : A) : Ok a = Ok b -> a = b.
Proof. intro H. inversion H. reflexivity. Qed.

Lemma fold_qred l : (fold_right (fun a b => Qred (a + b)) 0 l == fold_right Qplus 0 l)%Q.
Proof. induction l as [|x t IH]; cbn [fold_right]; [reflexivity|]. rewrite Qred_correct, IH. reflexivity. Qed.

Lemma msd_is_resid P Qs m : msd P Qs = Ok m ->
  (m == resid P Qs / inject_Z (Z.of_nat (List.length P)))%Q.
Proof.
  unfold msd. destruct (Nat.eqb (List.length P) (List.length Qs)); cbn [negb]; [|intro H; discriminate H].
  destruct P as [|p t]; [intro H; discriminate H|].
  intro H. apply Ok_inj' in H. rewrite <- H. etransitivity; [apply Qred_correct|]. rewrite fold_qred. unfold resid. reflexivity.
Qed.

Theorem irmsd_value_is_kernel_residual rmat xd xr m :
  msd (superpose_selection rmat xd xr xd) xr = Ok m ->
  (m == resid (map (mv rmat) (centred xd)) (centred xr) / inject_Z (Z.of_nat (List.length xd)))%Q.
Proof.
  intro H. rewrite (msd_is_resid _ _ _ H), (resid_after_superposition rmat xd xr).
  unfold superpose_selection. rewrite map_length. reflexivity.
Qed.

(* a decoy identical to the reference scores 0 whenever the kernel's rotation is at least as good
   as the identity (in particular when it is optimal, C06) *)
Lemma norm2_nonneg v : (0 <= norm2 v)%Q.
Proof.
  destruct v as [[x y] z]. unfold norm2, vdot. rewrite Qred_correct.
  assert (0 <= x * x)%Q by nra. assert (0 <= y * y)%Q by nra. assert (0 <= z * z)%Q by nra. lra.
Qed.
Lemma resid_nonneg P Qs : (0 <= resid P Qs)%Q.
Proof.
  unfold resid. revert Qs. induction P as [|p t IH]; intro Qs; [cbn; lra|].
  destruct Qs as [|q u]; [cbn; lra|]. cbn [combine map fold_right fst snd].
  pose proof (norm2_nonneg (vsub p q)). specialize (IH u). lra.
Qed.
Lemma vsub_self v : veq (vsub v v) (0%Q, 0%Q, 0%Q).
Proof. destruct v as [[x y] z]. cbn -[Qred Qminus]. rewrite !Qred_correct. repeat split; ring. Qed.
Lemma resid_self P : (resid P P == 0)%Q.
Proof.
  unfold resid. induction P as [|p t IH]; [reflexivity|]. cbn [combine map fold_right fst snd].
  rewrite IH. rewrite (norm2_veq _ _ (vsub_self p)). unfold norm2, vdot. rewrite Qred_correct. ring.
Qed.

Theorem identical_scores_zero rmat P m :
  (resid (map (mv rmat) (centred P)) (centred P) <= resid (centred P) (centred P))%Q ->
  msd (superpose_selection rmat P P P) P = Ok m -> (m == 0)%Q.
Proof.
  intros Hopt H. rewrite (irmsd_value_is_kernel_residual rmat P P m H).
  rewrite resid_self in Hopt. pose proof (resid_nonneg (map (mv rmat) (centred P)) (centred P)) as Hn.
  assert (E : (resid (map (mv rmat) (centred P)) (centred P) == 0)%Q) by lra.
  rewrite E. unfold Qdiv. ring.
Qed.
