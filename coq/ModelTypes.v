(* ModelTypes.v — small datatypes shared by generated and hand-written model text *)
From Verif Require Export PyLib.

(* what a blank fixed-column field is replaced with (pdb2sqlcore.py:_create_table) *)
Inductive blank_default := DConst (q : Q) | DChainFromSegID | DElementGuess.

(* pieces of an exported line (pdb2sql_base.py:data2pdb) *)
Inductive align := ARight | ALeft | ACenter.
Inductive piece :=
| PLit (s : string)
| PField (idx : nat) (a : align) (w : nat)             (* '{:>w}'.format(d[idx]) *)
| PFixed (idx : nat) (a : align) (w p : nat)           (* '{:>w.pf}'.format(d[idx]) *)
| PAtomName                                            (* self._format_atomname(d) *)
| PXyz (idx : nat).                                    (* pdb2sql_base._format_xyz(d[idx]) *)

Inductive rmsd_shape := RmsdRoundSqrtMeanSq.

(* SQLite-level values *)
Inductive val :=
| VInt (z : Z)
| VReal (q : Q)
| VText (s : string)
| VBlob
| VNull.
Definition row := list val.

(* pieces of a zone-file line (StructureSimilarity._write_zone) *)
Inductive zpiece := ZLit (s : string) | ZChain | ZNum.
