(* Proofs_rmsd_def2.v — C07: the FAST i-RMSD is its definition too, under the condition the fast route is written for: atom
   identities unique in each file and the common zone atoms in the same relative order in the two files (what
   check_residues enforces; without it: known finding F6).  Missing atoms / residues on either side are allowed. *)
From Coq Require Import Lia.
From Verif Require Import PyLib ModelTypes Model_contact Model_many Model_superpose Spec_superpose Model_zone Model_rmsd Spec_rmsd
  Proofs_contact_spec Proofs_superpose Proofs_rmsd Proofs_routes Proofs_zone_source Proofs_rmsd_def.
Open Scope string_scope.
Open Scope list_scope.

Lemma Forall2_and_left {A B} (P0 : A -> Prop) (Rl : A -> B -> Prop) D R :
  Forall2 Rl D R -> Forall P0 D -> Forall2 (fun d r => P0 d /\ Rl d r) D R.
Proof.
  induction 1 as [|d r D R E _ IH]; intro G; constructor.
  - inversion G as [|? ? Hd _]; subst. split; [exact Hd | exact E].
  - inversion G as [|? ? _ G']; subst. apply IH. exact G'.
Qed.

Section FastDef.
Variables (z : zone) (decoy ref : structure).
Hypothesis Ud : NoDup (map key3_of decoy).

(* the selection of the definition, as a function of the identity *)
Let P (a : atom) : bool := (is_backbone a && in_zone z a)%bool.
Lemma P_key a b : key3_of a = key3_of b -> P a = P b.
Proof.
  unfold P, is_backbone, in_zone, key3_of. intro E. injection E as E1 E2 E3. rewrite E1, E2, E3. reflexivity.
Qed.
Lemma in_zone_atoms_P s : in_zone_atoms ["C"; "CA"; "N"; "O"] (resdata_of z) s = filter P s.
Proof.
  unfold in_zone_atoms. apply filter_ext. intro a.
  change (match in_resdata (resdata_of z) (chain a) with Some l => mem Z.eqb (resSeq a) l | None => false end)
    with (memG (resdata_of z) (chain a) (resSeq a)).
  unfold resdata_of. rewrite memG_group, bb_orders. reflexivity.
Qed.

Let kd := map key3_of (filter P decoy).
Let kr := map key3_of (filter P ref).
Let common := inter_keys kr kd.

Lemma key3_eqb_true_iff k k' : key3_eqb k k' = true <-> k = k'.
Proof. split; [apply key3_eqb_eq | intros ->; apply key3_eqb_refl]. Qed.

(* a decoy atom with the identity of r, if any: the one find returns (identities are unique in the decoy) *)
Lemma find_same_atom_gen r d : forall s, NoDup (map key3_of s) -> In d s -> key3_of d = key3_of r -> find (same_atom r) s = Some d.
Proof.
  induction s as [|x t IH]; intros U Hd Ek; [contradiction|].
  cbn [find]. unfold same_atom at 1. destruct (key3_eqb (key3_of r) (key3_of x)) eqn:E.
  - apply key3_eqb_eq in E. f_equal. destruct Hd as [->|Hd]; [reflexivity|]. exfalso.
    cbn [map] in U. inversion U as [|? ? Nin _]; subst. apply Nin. rewrite <- E, <- Ek. apply in_map. exact Hd.
  - destruct Hd as [->|Hd]; [rewrite Ek, key3_eqb_refl in E; discriminate E|].
    cbn [map] in U. inversion U as [|? ? _ U']; subst. apply (IH U' Hd Ek).
Qed.
Lemma find_same_atom r d : In d decoy -> key3_of d = key3_of r -> find (same_atom r) decoy = Some d.
Proof. apply find_same_atom_gen. exact Ud. Qed.
Lemma find_none r : ~ In (key3_of r) (map key3_of decoy) -> find (same_atom r) decoy = None.
Proof.
  intro N. destruct (find (same_atom r) decoy) as [d|] eqn:F; [|reflexivity]. exfalso.
  apply find_some in F. destruct F as [Hd E]. unfold same_atom in E. apply key3_eqb_eq in E. apply N. rewrite E. apply in_map. exact Hd.
Qed.

(* membership of a key in the common keys *)
Lemma in_common a : In a ref \/ In a decoy ->
  mem key3_eqb (key3_of a) common = (P a && mem key3_eqb (key3_of a) (map key3_of ref) && mem key3_eqb (key3_of a) (map key3_of decoy))%bool.
Proof.
  intros _. apply bool_eq_iff. unfold common, inter_keys. rewrite mem_key3_In, filter_In. cbv beta. rewrite !andb_true_iff, !mem_key3_In. unfold kr, kd. split.
  - intros [Hr Hd]. apply in_map_iff in Hr. destruct Hr as [r [Er Hr]]. apply filter_In in Hr. destruct Hr as [Hr Pr].
    apply in_map_iff in Hd. destruct Hd as [d [Ed Hd]]. apply filter_In in Hd. destruct Hd as [Hd _].
    split; [split|].
    + rewrite <- (P_key r a Er). exact Pr.
    + rewrite <- Er. apply in_map. exact Hr.
    + rewrite <- Ed. apply in_map. exact Hd.
  - intros [[Pa Hr] Hd]. apply in_map_iff in Hr. destruct Hr as [r [Er Hr]]. apply in_map_iff in Hd. destruct Hd as [d [Ed Hd]]. split.
    + rewrite <- Er. apply in_map. apply filter_In. split; [exact Hr | rewrite (P_key r a Er); exact Pa].
    + rewrite <- Ed. apply in_map. apply filter_In. split; [exact Hd | rewrite (P_key d a Ed); exact Pa].
Qed.

(* the reference side of the fast route = the reference atoms of the definition's pairs *)
Let Rside := filter (fun a => mem key3_eqb (key3_of a) common) ref.
Let Dside := filter (fun a => mem key3_eqb (key3_of a) common) decoy.

Lemma pairs_over_sublist l : (forall a, In a l -> In a ref) ->
  flat_map (fun r => match find (same_atom r) decoy with Some d => [(pos_of d, pos_of r)] | None => [] end) (filter P l)
  = flat_map (fun r => match find (same_atom r) decoy with Some d => [(pos_of d, pos_of r)] | None => [] end)
             (filter (fun a => mem key3_eqb (key3_of a) common) l).
Proof.
  induction l as [|r t IH]; intro Hin; [reflexivity|]. cbn [filter].
  assert (Hr : In r ref) by (apply Hin; left; reflexivity).
  assert (IHt := IH (fun a Ha => Hin a (or_intror Ha))).
  rewrite (in_common r (or_introl Hr)).
  assert (Mr : mem key3_eqb (key3_of r) (map key3_of ref) = true) by (apply mem_key3_In, in_map, Hr).
  rewrite Mr, andb_true_r.
  destruct (P r) eqn:Pr; cbn [andb]; [|exact IHt].
  destruct (mem key3_eqb (key3_of r) (map key3_of decoy)) eqn:Md.
  - cbn [flat_map]. rewrite IHt. reflexivity.
  - cbn [flat_map]. rewrite IHt.
    rewrite (find_none r) by (intro X; apply mem_key3_In in X; congruence). reflexivity.
Qed.

Lemma spec_pairs_are : irmsd_pairs_spec z decoy ref
  = flat_map (fun r => match find (same_atom r) decoy with Some d => [(pos_of d, pos_of r)] | None => [] end) Rside.
Proof. unfold irmsd_pairs_spec. rewrite identity_pairs_filter. fold P. apply pairs_over_sublist. auto. Qed.

Lemma pairs_of_Forall2 : forall D R, Forall2 (fun d r => In d decoy /\ key3_of d = key3_of r) D R ->
  flat_map (fun r => match find (same_atom r) decoy with Some d => [(pos_of d, pos_of r)] | None => [] end) R
  = combine (map pos_of D) (map pos_of R).
Proof.
  induction 1 as [|d r D R [Hd Ek] _ IH]; [reflexivity|]. cbn [flat_map map combine].
  rewrite (find_same_atom r d Hd Ek), IH. reflexivity.
Qed.

(* the common zone atoms come in the same relative order in the two files *)
Hypothesis Horder : map key3_of Dside = map key3_of Rside.

Lemma sides_paired : Forall2 (fun d r => In d decoy /\ key3_of d = key3_of r) Dside Rside.
Proof.
  assert (F : Forall2 (fun d r => key3_of d = key3_of r) Dside Rside) by (apply map_eq_Forall2; exact Horder).
  assert (G : Forall (fun d => In d decoy) Dside) by (apply Forall_forall; intros d Hd; unfold Dside in Hd; apply filter_In in Hd; exact (proj1 Hd)).
  apply (Forall2_and_left (fun d => In d decoy) (fun d r => key3_of d = key3_of r) Dside Rside F G).
Qed.

Lemma map_fst_combine' {A B} (l : list A) (l' : list B) : List.length l = List.length l' -> map fst (combine l l') = l.
Proof. revert l'. induction l as [|x t IH]; destruct l' as [|y t']; cbn; intro H; try discriminate; [reflexivity|]. rewrite IH by lia. reflexivity. Qed.
Lemma map_snd_combine' {A B} (l : list A) (l' : list B) : List.length l = List.length l' -> map snd (combine l l') = l'.
Proof. revert l'. induction l as [|x t IH]; destruct l' as [|y t']; cbn; intro H; try discriminate; [reflexivity|]. rewrite IH by lia. reflexivity. Qed.

Theorem irmsd_fast_is_definition rmat check enforce b :
  (check || enforce)%bool = true -> check_residues enforce None decoy ref = Ok b ->
  irmsd_fast rmat z check enforce decoy ref
  = (let pairs := irmsd_pairs_spec z decoy ref in
     msd (superpose_selection rmat (map fst pairs) (map snd pairs) (map fst pairs)) (map snd pairs)).
Proof.
  intros Hce Hcr. unfold irmsd_fast. rewrite Hce, Hcr. cbn [bind]. rewrite !in_zone_atoms_P. fold kd kr common.
  unfold get_xyz_by_keys. fold Dside Rside.
  assert (Len : List.length (map pos_of Dside) = List.length (map pos_of Rside)).
  { rewrite !map_length. apply (f_equal (@List.length _)) in Horder. rewrite !map_length in Horder. exact Horder. }
  rewrite Len, Nat.eqb_refl. cbn [negb].
  cbv zeta. rewrite spec_pairs_are, (pairs_of_Forall2 Dside Rside sides_paired).
  rewrite (map_fst_combine' _ _ Len), (map_snd_combine' _ _ Len). reflexivity.
Qed.
End FastDef.

(* the hypothesis in readable form: among the backbone atoms of the zone that both files have, the identities come in the same
   order in the decoy file and in the reference file *)
Definition common_zone_keys (z : zone) (decoy ref : structure) : list key3 :=
  inter_keys (map key3_of (filter (fun a => (is_backbone a && in_zone z a)%bool) ref))
             (map key3_of (filter (fun a => (is_backbone a && in_zone z a)%bool) decoy)).
Definition same_relative_order (z : zone) (decoy ref : structure) : Prop :=
  map key3_of (filter (fun a => mem key3_eqb (key3_of a) (common_zone_keys z decoy ref)) decoy)
  = map key3_of (filter (fun a => mem key3_eqb (key3_of a) (common_zone_keys z decoy ref)) ref).

Theorem irmsd_fast_is_definition' z decoy ref rmat check enforce b :
  NoDup (map key3_of decoy) -> same_relative_order z decoy ref ->
  (check || enforce)%bool = true -> check_residues enforce None decoy ref = Ok b ->
  irmsd_fast rmat z check enforce decoy ref
  = (let pairs := irmsd_pairs_spec z decoy ref in
     msd (superpose_selection rmat (map fst pairs) (map snd pairs) (map fst pairs)) (map snd pairs)).
Proof. intros U O. exact (irmsd_fast_is_definition z decoy ref U O rmat check enforce b). Qed.

(* non-vacuity: a decoy lacking an atom of the zone still meets the hypotheses *)
Example fast_definition_hypotheses_met :
  let ref   := [mkAtom 0 "A" "ALA" 1 "N" 0 0 0; mkAtom 1 "A" "ALA" 1 "CA" 1 0 0; mkAtom 2 "A" "ALA" 1 "CB" 1 1 0; mkAtom 3 "B" "GLY" 7 "CA" 4 0 0] in
  let decoy := [mkAtom 0 "A" "ALA" 1 "CA" 1 0 1; mkAtom 1 "A" "ALA" 1 "CB" 1 1 1; mkAtom 2 "B" "GLY" 7 "CA" 4 1 0] in
  let z : zone := [("A", 1%Z); ("B", 7%Z)] in
  NoDup (map key3_of decoy) /\ same_relative_order z decoy ref /\ check_residues false None decoy ref = Ok false.
Proof.
  cbv zeta. split; [|split].
  - cbn. repeat constructor; cbn; intuition discriminate.
  - vm_compute. reflexivity.
  - vm_compute. reflexivity.
Qed.
