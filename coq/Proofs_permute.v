(* Proofs_permute.v — C11: reordering the ATOM records of the decoy does not change the SQL i-RMSD at all (identities unique in
   the decoy): the routine walks the reference rows and looks each partner up by identity, wherever it stands in the file. *)
From Coq Require Import Lia Permutation.
From Verif Require Import PyLib ModelTypes Model_contact Model_many Model_superpose Spec_superpose Model_zone Model_rmsd Spec_rmsd
  Proofs_contact_lists Proofs_rmsd Proofs_hydrogens.
Open Scope string_scope.
Open Scope list_scope.

Lemma key4_eqb_refl' k : key4_eqb k k = true.
Proof. destruct k as [[[c n] r] m]. cbn. rewrite !String.eqb_refl, Z.eqb_refl. reflexivity. Qed.
Lemma key4_eqb_eq' k k' : key4_eqb k k' = true -> k = k'.
Proof.
  destruct k as [[[c n] r] m]. destruct k' as [[[c' n'] r'] m']. cbn. intro H.
  apply andb_prop in H. destruct H as [H Hm]. apply andb_prop in H. destruct H as [H Hr]. apply andb_prop in H. destruct H as [Hc Hn].
  apply String.eqb_eq in Hc. apply String.eqb_eq in Hm. apply String.eqb_eq in Hr. apply Z.eqb_eq in Hn. subst. reflexivity.
Qed.

(* with unique identities, the first record with a given identity is THE record with it *)
Lemma first_with_key4_spec s k : NoDup (map key4_of s) ->
  forall a, first_with_key4 k s = Some a <-> (In a s /\ key4_of a = k).
Proof.
  unfold first_with_key4. induction s as [|x t IH]; intros U a; cbn [find].
  - split; [discriminate | intros [[] _]].
  - cbn [map] in U. inversion U as [|? ? Nin U']; subst.
    destruct (key4_eqb (key4_of x) k) eqn:E.
    + apply key4_eqb_eq' in E. split.
      * intro H. injection H as <-. split; [left; reflexivity | exact E].
      * intros [[->|Ha] Ek]; [reflexivity|]. exfalso. apply Nin. rewrite E, <- Ek. apply in_map. exact Ha.
    + rewrite (IH U' a). split.
      * intros [Ha Ek]. split; [right; exact Ha | exact Ek].
      * intros [[->|Ha] Ek]; [rewrite Ek, key4_eqb_refl' in E; discriminate E | split; assumption].
Qed.

Lemma first_with_key4_perm s s' k : Permutation s s' -> NoDup (map key4_of s) ->
  first_with_key4 k s' = first_with_key4 k s.
Proof.
  intros Pm U. assert (U' : NoDup (map key4_of s')) by (eapply Permutation_NoDup; [apply Permutation_map; exact Pm | exact U]).
  destruct (first_with_key4 k s) as [a|] eqn:F.
  - apply (first_with_key4_spec s k U a) in F. apply (first_with_key4_spec s' k U' a). destruct F as [Ha Ek].
    split; [eapply Permutation_in; eassumption | exact Ek].
  - destruct (first_with_key4 k s') as [a'|] eqn:F'; [|reflexivity]. exfalso.
    apply (first_with_key4_spec s' k U' a') in F'. destruct F' as [Ha Ek].
    assert (F2 : first_with_key4 k s = Some a') by (apply (first_with_key4_spec s k U a'); split; [eapply Permutation_in; [apply Permutation_sym; exact Pm | exact Ha] | exact Ek]).
    congruence.
Qed.

Lemma get_chains_perm s s' : Permutation s s' -> get_chains s' = get_chains s.
Proof.
  intro Pm. unfold get_chains. apply sorted_set_str_ext. intro c. split; apply Permutation_in; apply Permutation_map;
    [apply Permutation_sym; exact Pm | exact Pm].
Qed.

Theorem irmsd_sql_decoy_order_irrelevant rmat rows decoy decoy' ref :
  Permutation decoy decoy' -> NoDup (map key4_of decoy) ->
  irmsd_sql rmat rows decoy' ref = irmsd_sql rmat rows decoy ref.
Proof.
  intros Pm U. unfold irmsd_sql. rewrite (get_chains_perm decoy decoy' Pm).
  destruct (negb (list_eqb String.eqb (get_chains decoy) (get_chains ref))); [reflexivity|].
  assert (E : flat_map (fun r => match first_with_key4 (key4_of r) decoy' with Some d => [(pos_of d, pos_of r)] | None => [] end) rows
            = flat_map (fun r => match first_with_key4 (key4_of r) decoy with Some d => [(pos_of d, pos_of r)] | None => [] end) rows).
  { apply flat_map_ext. intro r. rewrite (first_with_key4_perm decoy decoy' (key4_of r) Pm U). reflexivity. }
  rewrite E. reflexivity.
Qed.
