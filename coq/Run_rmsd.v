(* Run_rmsd.v — wire entry points of the RMSD pipelines (C07, C09, C11) *)
From Verif Require Import PyLib ModelTypes Model_contact Model_superpose Model_zone Model_rmsd Spec_rmsd
  Run_contact Run_superpose.
Open Scope string_scope.

Definition Vzone (z : zone) : V := VL (map (fun cz => VL [VS (fst cz); VZ (snd cz)]) z).
Definition zone_of_V (v : V) : zone := map (fun e => (getS (nthV 0 e), getZ (nthV 1 e))) (getL v).
Definition Vpairs (l : list (vec * vec)) : V := VL (map (fun p => VL [Vvec (fst p); Vvec (snd p)]) l).
Definition strs_of_V (v : V) : list string := map getS (getL v).
Definition VresZone (r : res zone) : V := match r with Ok z => VOk (Vzone z) | Err e => VErr e end.

Definition run_rmsd (cmd : string) (a : list V) : option V :=
  if cmd =? "rmsd.izone" then Some (VresZone (compute_izone (getQ (arg 0 a)) (struct_of_V (arg 1 a))))
  else if cmd =? "rmsd.lzone" then Some (VresZone (compute_lzone (struct_of_V (arg 0 a))))
  else if cmd =? "spec.rmsd.izone" then Some (VOk (Vzone (izone_spec (getQ (arg 0 a)) (struct_of_V (arg 1 a)))))
  else if cmd =? "rmsd.zone_text" then Some (VS (write_zone (zone_of_V (arg 0 a))))
  else if cmd =? "rmsd.read_zone" then
    Some (Vres (do g <- read_zone (getS (arg 0 a));
                Ok (VL (map (fun e => VL [VS (fst e); VL (map VZ (snd e))]) g))))
  else if cmd =? "rmsd.irmsd_fast" then     (* R zone check enforce decoy ref *)
    Some (VresQ (irmsd_fast (mat_of_V (arg 0 a)) (zone_of_V (arg 1 a)) (getB (arg 2 a)) (getB (arg 3 a))
                            (struct_of_V (arg 4 a)) (struct_of_V (arg 5 a))))
  else if cmd =? "rmsd.lrmsd_fast" then     (* R zone check enforce names decoy ref *)
    Some (VresQ (lrmsd_fast (mat_of_V (arg 0 a)) (zone_of_V (arg 1 a)) (getB (arg 2 a)) (getB (arg 3 a))
                            (strs_of_V (arg 4 a)) (struct_of_V (arg 5 a)) (struct_of_V (arg 6 a))))
  else if cmd =? "rmsd.irmsd_sql_computed" then   (* R cutoff decoy ref *)
    Some (VresQ (do rows <- izone_rows_computed (getQ (arg 1 a)) (struct_of_V (arg 3 a));
                 irmsd_sql (mat_of_V (arg 0 a)) rows (struct_of_V (arg 2 a)) (struct_of_V (arg 3 a))))
  else if cmd =? "rmsd.irmsd_sql_zone" then       (* R zone decoy ref *)
    Some (VresQ (irmsd_sql (mat_of_V (arg 0 a)) (izone_rows_from_zone (zone_of_V (arg 1 a)) (struct_of_V (arg 3 a)))
                           (struct_of_V (arg 2 a)) (struct_of_V (arg 3 a))))
  else if cmd =? "rmsd.lrmsd_sql" then            (* R enforce names decoy ref *)
    Some (VresQ (lrmsd_sql (mat_of_V (arg 0 a)) (getB (arg 1 a)) (strs_of_V (arg 2 a))
                           (struct_of_V (arg 3 a)) (struct_of_V (arg 4 a))))
  else if cmd =? "spec.rmsd.ipairs" then          (* zone decoy ref *)
    Some (Vpairs (irmsd_pairs_spec (zone_of_V (arg 0 a)) (struct_of_V (arg 1 a)) (struct_of_V (arg 2 a))))
  else if cmd =? "spec.rmsd.lpairs" then          (* names decoy ref *)
    Some (match lrmsd_pairs_spec (strs_of_V (arg 0 a)) (struct_of_V (arg 1 a)) (struct_of_V (arg 2 a)) with
          | Some (f, m) => VOk (VL [Vpairs f; Vpairs m]) | None => VErr "ValueError" end)
  else if cmd =? "spec.rmsd.domain" then          (* decoy ref: unique keys and consistent residue names *)
    Some (VB (unique_key3 (struct_of_V (arg 0 a)) && unique_key3 (struct_of_V (arg 1 a))
              && consistent_resnames (struct_of_V (arg 0 a)) (struct_of_V (arg 1 a))))
  else if cmd =? "spec.rmsd.reported_ok" then     (* k (thousandths), msd, slack *)
    Some (VB (reported_ok (getZ (arg 0 a)) (getQ (arg 1 a)) (getQ (arg 2 a))))
  else None.
