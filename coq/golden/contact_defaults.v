(* source: pdb2sql/interface.py:41-166 sha1 eb1e979f45dfe1aef7494cddc10691bec75bfd84 *)
Definition contact_cutoff_default_src : Q := (17 # 2).
Definition contact_chain1_default_src : string := "A".
Definition contact_chain2_default_src : string := "B".
Definition contact_flag_defaults_src : list (string * bool) :=
  [("allchains", false); ("extend_to_residue", false); ("only_backbone_atoms", false); ("excludeH", false); ("return_contact_pairs", false)].
Definition residues_cutoff_default_src : Q := (17 # 2).
Definition residues_chain1_default_src : string := "A".
Definition residues_chain2_default_src : string := "B".
Definition residues_flag_defaults_src : list (string * bool) :=
  [("allchains", false); ("excludeH", false); ("only_backbone_atoms", false); ("return_contact_pairs", false)].
