(* source: pdb2sql/transform.py:47-74 sha1 69fee3413b79301e3d07a2b9bdea6d58b120076c *)
(* draws, in this order: u1, u2, u3 = np.random.rand() x 3 (after np.random.seed(seed) when a seed is given) *)
Definition rand_theta_src {T : Type} (N : Num T) (pi u1 u2 : T) : T :=
  (nmul N (nmul N (nofZ N (2)) pi) u1).
(* phi = arccos(rand_cosphi_src): cos phi is this number, sin phi = sqrt(1 - cos^2 phi) >= 0 *)
Definition rand_cosphi_src {T : Type} (N : Num T) (pi u1 u2 : T) : T :=
  (nsub N (nmul N (nofZ N (2)) u2) (nofZ N (1))).
Definition rand_axis_src {T : Type} (N : Num T) (c_theta s_theta c_phi s_phi : T) : vec3 T :=
  (V3 (nmul N s_phi c_theta) (nmul N s_phi s_theta) c_phi).
Definition rand_angle_src {T : Type} (N : Num T) (pi u3 : T) : T :=
  (nmul N (nmul N (nofZ N (2)) pi) u3).
