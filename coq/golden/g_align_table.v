(* source: pdb2sql/align.py:178-212 sha1 5d25e051d79e95c06388332227ad625fe9745d2e *)
(* per target axis: the successive calls rot_xyz_around_axis(xyz, axis, angle) [default centre],
   angle = k*(pi/2) + (-)alpha written AngE k negated alpha; an unknown letter raises ValueError *)
Definition align_table_src : list (string * list ((Z * Z * Z) * angexpr)) :=
  [("x", [(((0)%Z, (0)%Z, (1)%Z), AngE (0) true APhi); (((0)%Z, (1)%Z, (0)%Z), AngE (1) true ATheta)]);
   ("y", [(((0)%Z, (0)%Z, (1)%Z), AngE (1) true APhi); (((1)%Z, (0)%Z, (0)%Z), AngE (-1) false ATheta)]);
   ("z", [(((0)%Z, (0)%Z, (1)%Z), AngE (0) true APhi); (((0)%Z, (1)%Z, (0)%Z), AngE (0) true ATheta)])].
