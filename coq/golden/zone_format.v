(* source: pdb2sql/StructureSimilarity.py:1070-1087 sha1 2fb6256bbbe8c6da9fcb9fcf1fdbdb365fdea073 *)
Definition zone_format_src : list zpiece :=
  [ZLit "zone "; ZChain; ZNum; ZLit "-"; ZChain; ZNum; ZLit "
"].
Definition zone_write_atomic_src : bool := true.
