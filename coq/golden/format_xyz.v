(* source: pdb2sql/pdb2sql_base.py:242-271 sha1 d16bb9909305bcb5ab44d3e79ac9192fa24b9759 *)
Definition format_xyz_src (i_1 : Q) : res string :=
 (if (((Qleb (Qminus (100000000 # 1) (1 # 2)) i_1)) || ((Qleb i_1 (Qplus (Qopp (10000000 # 1)) (1 # 2)))))
 then (Err "ValueError")
 else (if (((Qleb (Qminus (1000000 # 1) (1 # 2)) i_1)) || ((Qleb i_1 (Qplus (Qopp (100000 # 1)) (1 # 2)))))
 then (let i_2 := (fmt_fixed 8 0 i_1) in
 (Ok i_2))
 else (if (((Qleb (Qminus (100000 # 1) (1 # 2)) i_1)) || ((Qleb i_1 (Qplus (Qopp (10000 # 1)) (1 # 2)))))
 then (let i_3 := (fmt_fixed 8 1 i_1) in
 (Ok i_3))
 else (if (((Qleb (Qminus (10000 # 1) (1 # 2)) i_1)) || ((Qleb i_1 (Qplus (Qopp (1000 # 1)) (1 # 2)))))
 then (let i_4 := (fmt_fixed 8 2 i_1) in
 (Ok i_4))
 else (let i_5 := (fmt_fixed 8 3 i_1) in
 (Ok i_5)))))).
