(* source: pdb2sql/superpose.py:129-159 sha1 9095e5c4352a2ac464ad612867acd2d0ab83e2a7 *)
(* method.lower() is looked up in this table, in order; anything else raises ValueError *)
Definition rotmat_dispatch_src : list (string * kernel) :=
  [("svd", KKabsch); ("quaternion", KQuaternion)].
Definition rotmat_default_method_src : string := "svd".
