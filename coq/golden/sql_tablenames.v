(* source: pdb2sql/many2sql.py:15-54 sha1 8551a36aa41026c2f8cd722e13176c679feda449 *)
Definition many_first_table_src : string := "ATOM".
Definition many_table_prefix_src : string := "ATOM".
