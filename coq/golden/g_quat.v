(* source: pdb2sql/superpose.py:216-291 sha1 d6f641189649f47d5e8020f550ed6e82d0870859 *)
Definition quat_centre_eps_src {T : Type} (N : Num T) : T := (ndiv N (nofZ N (4722366482869645)) (nofZ N (4722366482869645213696))).
Definition quat_uncentred_src {T : Type} (N : Num T) (P Q : list (vec3 T)) : bool :=
  let eps := quat_centre_eps_src N in (vany_gt N (vabs N (mean N P)) eps || vany_gt N (vabs N (mean N Q)) eps)%bool.
Definition quat_corr_src {T : Type} (N : Num T) (P Q : list (vec3 T)) : mat3 T :=
  (ptq N P Q).
Definition quat_F_src {T : Type} (N : Num T) (R : mat3 T) : mat4 T :=
  M4 (mtrace N R)
     (nsub N (m12 R) (m21 R))
     (nsub N (m20 R) (m02 R))
     (nsub N (m01 R) (m10 R))
     (nsub N (m12 R) (m21 R))
     (nsub N (nsub N (m00 R) (m11 R)) (m22 R))
     (nadd N (m01 R) (m10 R))
     (nadd N (m02 R) (m20 R))
     (nsub N (m20 R) (m02 R))
     (nadd N (m01 R) (m10 R))
     (nsub N (nadd N (nopp N (m00 R)) (m11 R)) (m22 R))
     (nadd N (m12 R) (m21 R))
     (nsub N (m01 R) (m10 R))
     (nadd N (m02 R) (m20 R))
     (nadd N (m12 R) (m21 R))
     (nadd N (nsub N (nopp N (m00 R)) (m11 R)) (m22 R)).
(* l, U = np.linalg.eigh(quat_F_src R)  [oracle: symmetric eigen-solver, real answer];  the column of U that is used: *)
Definition quat_eigensolver_src : string := "eigh".
Definition quat_pick_src {T : Type} (N : Num T) (l : list T) : nat := argmax N l.
Definition quat_rot_src {T : Type} (N : Num T) (q : vec4 T) : mat3 T :=
  M3 (nsub N (nsub N (nadd N (nmul N (w0 q) (w0 q)) (nmul N (w1 q) (w1 q))) (nmul N (w2 q) (w2 q))) (nmul N (w3 q) (w3 q)))
     (nmul N (nofZ N (2)) (nsub N (nmul N (w1 q) (w2 q)) (nmul N (w0 q) (w3 q))))
     (nmul N (nofZ N (2)) (nadd N (nmul N (w1 q) (w3 q)) (nmul N (w0 q) (w2 q))))
     (nmul N (nofZ N (2)) (nadd N (nmul N (w1 q) (w2 q)) (nmul N (w0 q) (w3 q))))
     (nsub N (nadd N (nsub N (nmul N (w0 q) (w0 q)) (nmul N (w1 q) (w1 q))) (nmul N (w2 q) (w2 q))) (nmul N (w3 q) (w3 q)))
     (nmul N (nofZ N (2)) (nsub N (nmul N (w2 q) (w3 q)) (nmul N (w0 q) (w1 q))))
     (nmul N (nofZ N (2)) (nsub N (nmul N (w1 q) (w3 q)) (nmul N (w0 q) (w2 q))))
     (nmul N (nofZ N (2)) (nadd N (nmul N (w2 q) (w3 q)) (nmul N (w0 q) (w1 q))))
     (nadd N (nsub N (nsub N (nmul N (w0 q) (w0 q)) (nmul N (w1 q) (w1 q))) (nmul N (w2 q) (w2 q))) (nmul N (w3 q) (w3 q))).
