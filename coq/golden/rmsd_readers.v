(* source: pdb2sql/StructureSimilarity.py:1138-1167 sha1 a53d81eddb62e2519c84fcc010ff8917e8fd3e0d *)
Definition rmsd_reader_cols_src : list (string * list (string * (nat * nat))) :=
  [("get_xyz_zone_backbone", [("chainID", (21%nat, 22%nat)); ("name", (12%nat, 16%nat)); ("resSeq", (22%nat, 26%nat)); ("x", (30%nat, 38%nat)); ("y", (38%nat, 46%nat)); ("z", (46%nat, 54%nat)); ("chainID_if_blank", (72%nat, 73%nat))]);
   ("get_data_zone_backbone", [("chainID", (21%nat, 22%nat)); ("name", (12%nat, 16%nat)); ("resSeq", (22%nat, 26%nat)); ("chainID_if_blank", (72%nat, 73%nat))]);
   ("_get_xyz", [("chainID", (21%nat, 22%nat)); ("name", (12%nat, 16%nat)); ("resSeq", (22%nat, 26%nat)); ("x", (30%nat, 38%nat)); ("y", (38%nat, 46%nat)); ("z", (46%nat, 54%nat)); ("chainID_if_blank", (72%nat, 73%nat))])].
Definition get_xyz_zone_backbone_names_src : list string := ["C"; "CA"; "N"; "O"].
Definition get_data_zone_backbone_names_src : list string := ["C"; "CA"; "N"; "O"].
Definition irmsd_default_cutoff_src : Q := (10 # 1).
