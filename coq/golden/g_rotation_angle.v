(* source: pdb2sql/align.py:124-141 sha1 c1f110a8c1e8378d46f83119ff363f60e168eb83 *)
(* phi = arctan2(a, b), theta = arccos(c): the arguments, as expressions in the components of the vector *)
Definition angle_phi_src : compexpr * compexpr := (CY, CX).
Definition angle_theta_src : compexpr := (CDiv CZ CNorm).
