(* source: pdb2sql/pdb2sql_base.py:177-211 sha1 bbbcea9c5d7ab04ca88e440180ba893fc99f41f8 *)
Definition export_layout_src : list piece :=
  [PLit "ATOM  ";
   PField 0%nat ARight 5%nat;
   PLit " ";
   PAtomName;
   PField 2%nat ARight 1%nat;
   PField 3%nat ARight 3%nat;
   PLit " ";
   PField 4%nat ARight 1%nat;
   PField 5%nat ARight 4%nat;
   PField 6%nat ARight 1%nat;
   PLit "   ";
   PXyz 7%nat;
   PXyz 8%nat;
   PXyz 9%nat;
   PFixed 10%nat ARight 6%nat 2%nat;
   PFixed 11%nat ARight 6%nat 2%nat;
   PLit "          ";
   PField 12%nat ARight 2%nat;
   PLit "  "].
