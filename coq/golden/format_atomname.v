(* source: pdb2sql/pdb2sql_base.py:213-239 sha1 8a1cac50e6c00cc0fd12f64b5a3aece2d23a0b36 *)
Definition format_atomname_src (data_name_1 : string) (data_element_2 : string) : res string :=
 (let name_3 := data_name_1 in
 (let lname_4 := (String.length name_3) in
 (if (((Nat.eqb lname_4 1%nat) || (Nat.eqb lname_4 4%nat)))
 then (let name_5 := (center 4 name_3) in
 (Ok name_5))
 else (if ((Nat.eqb lname_4 2%nat))
 then (if ((String.eqb name_3 data_element_2))
 then (let name_6 := (ljust 4 name_3) in
 (Ok name_6))
 else (let name_7 := (center 4 name_3) in
 (Ok name_7)))
 else (if ((is_substring (char_at 0 name_3) "0123456789"))
 then (let name_8 := (ljust 4 name_3) in
 (Ok name_8))
 else (let name_9 := (rjust 4 name_3) in
 (Ok name_9))))))).
