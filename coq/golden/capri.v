(* source: pdb2sql/StructureSimilarity.py:1175-1211 sha1 8b4187d7cda94204bcdd7d77253a25907854227a *)
Definition capri_src (fnat_1 : Q) (lrmsd_2 : Q) (irmsd_3 : Q) (system_4 : string) : res string :=
 (if ((String.eqb system_4 "protein-protein"))
 then (if (((Qltb fnat_1 (3602879701896397 # 36028797018963968))) || (((Qltb (10 # 1) lrmsd_2)) && ((Qltb (4 # 1) irmsd_3))))
 then (let label_5 := "incorrect" in
 (Ok label_5))
 else (if ((((Qleb (3602879701896397 # 36028797018963968) fnat_1) && (Qltb fnat_1 (5404319552844595 # 18014398509481984))) && (((Qleb lrmsd_2 (10 # 1))) || ((Qleb irmsd_3 (4 # 1))))) || (((Qleb (5404319552844595 # 18014398509481984) fnat_1)) && ((Qltb (5 # 1) lrmsd_2)) && ((Qltb (2 # 1) irmsd_3))))
 then (let label_6 := "acceptable" in
 (Ok label_6))
 else (if ((((Qleb (5404319552844595 # 18014398509481984) fnat_1) && (Qltb fnat_1 (1 # 2))) && (((Qleb lrmsd_2 (5 # 1))) || ((Qleb irmsd_3 (2 # 1))))) || (((Qleb (1 # 2) fnat_1)) && ((Qltb (1 # 1) lrmsd_2)) && ((Qltb (1 # 1) irmsd_3))))
 then (let label_7 := "medium" in
 (Ok label_7))
 else (if (((Qleb (1 # 2) fnat_1)) && (((Qleb lrmsd_2 (1 # 1))) || ((Qleb irmsd_3 (1 # 1)))))
 then (let label_8 := "high" in
 (Ok label_8))
 else (Err "UnboundLocalError")))))
 else (Err "UnboundLocalError")).
