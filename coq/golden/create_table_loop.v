(* source: pdb2sql/pdb2sqlcore.py:122-173 sha1 be8c215a2ff92c4bdf39f1107816cce6f5b96e1f *)
Definition atom_prefix_src : string := "ATOM".
Definition endmdl_prefix_src : string := "ENDMDL".
Definition int_tag_src : string := "INT".
Definition real_tag_src : string := "REAL".
Definition blank_defaults_src : list (string * blank_default) :=
  [("chainID", DChainFromSegID); ("occ", DConst (1 # 1)); ("temp", DConst (10 # 1)); ("element", DElementGuess)].
