(* source: pdb2sql/StructureSimilarity.py:387-464 sha1 c2b9fc511a20d5b166adb768e31fd3a931b9828f *)
Definition fast_prefix_src : string := "ATOM".
Definition fast_chain_col_src : nat := 21%nat.
Definition fast_chain_alt_col_src : nat := 72%nat.
Definition fast_resSeq_src : nat * nat := (22%nat, 26%nat).
Definition fast_resName_src : nat * nat := (17%nat, 20%nat).
Definition fast_name_src : nat * nat := (12%nat, 16%nat).
Definition fast_x_src : nat * nat := (30%nat, 38%nat).
Definition fast_y_src : nat * nat := (38%nat, 46%nat).
Definition fast_z_src : nat * nat := (46%nat, 54%nat).
Definition fast_H_char_src : string := "H".
Definition fnat_fast_test_src (d2 c : Q) : bool := (Qleb (0 # 1) c && Qleb d2 (Qsqr c)).
Definition fnat_fast_cutoff_default_src : Q := (5 # 1).
Definition fnat_fast_digits_src : nat := 6%nat.
