(* source: pdb2sql/StructureSimilarity.py:1281-1294 sha1 0ff3a0d7372fc26376ea1682531913867491f701 *)
(* rmsd P Q = round (sqrt (msd P Q)) digits, msd = (1/n) * sum of squared coordinate differences *)
Definition rmsd_shape_src : rmsd_shape := RmsdRoundSqrtMeanSq.
Definition rmsd_digits_src : nat := 3%nat.
