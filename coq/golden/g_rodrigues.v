(* source: pdb2sql/transform.py:77-106 sha1 b5f47755b967b13aa13592c24d6e0e1072fe8f9d *)
(* rot_xyz_around_axis(xyz, axis, angle, center) = rotate(xyz, rodrigues_src ct st ux uy uz, center)
   with (ct, st) = (cos angle, sin angle) and (ux, uy, uz) = axis *)
Definition rodrigues_src {T : Type} (N : Num T) (ct st ux uy uz : T) : mat3 T :=
  (M3 (nadd N ct (nmul N (nmul N ux ux) (nsub N (nofZ N (1)) ct)))
      (nsub N (nmul N (nmul N ux uy) (nsub N (nofZ N (1)) ct)) (nmul N uz st))
      (nadd N (nmul N (nmul N ux uz) (nsub N (nofZ N (1)) ct)) (nmul N uy st))
      (nadd N (nmul N (nmul N uy ux) (nsub N (nofZ N (1)) ct)) (nmul N uz st))
      (nadd N ct (nmul N (nmul N uy uy) (nsub N (nofZ N (1)) ct)))
      (nsub N (nmul N (nmul N uy uz) (nsub N (nofZ N (1)) ct)) (nmul N ux st))
      (nsub N (nmul N (nmul N uz ux) (nsub N (nofZ N (1)) ct)) (nmul N uy st))
      (nadd N (nmul N (nmul N uz uy) (nsub N (nofZ N (1)) ct)) (nmul N ux st))
      (nadd N ct (nmul N (nmul N uz uz) (nsub N (nofZ N (1)) ct)))).
