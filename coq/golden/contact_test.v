(* source: pdb2sql/interface.py:125-125 sha1 260b63900692a6d30d1c4264960d996e4ba0072f *)
(* np.sqrt(np.sum((xyz2 - x0)**2, 1)) OP cutoff, expressed on the squared distance d2 *)
Definition contact_test_src (d2 c : Q) : bool := (Qleb (0 # 1) c && Qleb d2 (Qsqr c)).
