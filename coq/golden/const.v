(* source: pdb2sql/pdb2sql_base.py:6-67 sha1 4e1a4695d2a749073c9e3fb218952b067fda8e70 *)
Definition col_src : list (string * string) :=
  [("serial", "INT"); ("name", "TEXT"); ("altLoc", "TEXT"); ("resName", "TEXT"); ("chainID", "TEXT"); ("resSeq", "INT"); ("iCode", "TEXT"); ("x", "REAL"); ("y", "REAL"); ("z", "REAL"); ("occ", "REAL"); ("temp", "REAL"); ("element", "TEXT"); ("model", "INT")].
Definition delimiter_src : list (string * (nat * nat)) :=
  [("serial", (6%nat, 11%nat)); ("name", (12%nat, 16%nat)); ("altLoc", (16%nat, 17%nat)); ("resName", (17%nat, 20%nat)); ("chainID", (21%nat, 22%nat)); ("resSeq", (22%nat, 26%nat)); ("iCode", (26%nat, 27%nat)); ("x", (30%nat, 38%nat)); ("y", (38%nat, 46%nat)); ("z", (46%nat, 54%nat)); ("occ", (54%nat, 60%nat)); ("temp", (60%nat, 66%nat)); ("element", (76%nat, 78%nat))].
Definition backbone_src : list string := ["CA"; "C"; "N"; "O"].
Definition sql_limit_src : Z := 999.
Definition max_sql_values_src : Z := 950.
