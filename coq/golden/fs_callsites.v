(* source: pdb2sql/*.py (static call-site pass over 10 modules) sha1 dcce6f990fa3f6b5581bafe0f93d8cbe7c661160 *)
Definition callsites_src : list callsite :=
  [mkSite "pdb2sql_base.py" "pdb2sql_base.exportpdb" (SOpen "a") "fname";
   mkSite "pdb2sql_base.py" "pdb2sql_base.exportpdb" (SOpen "w") "fname";
   mkSite "pdb2sql_base.py" "pdb2sql_base._close" (SRemove) "self.sqlfile";
   mkSite "pdb2sqlcore.py" "pdb2sql._create_sql" (SConnect) "':memory:'";
   mkSite "pdb2sqlcore.py" "pdb2sql._create_sql" (SIsfile) "self.sqlfile";
   mkSite "pdb2sqlcore.py" "pdb2sql._create_sql" (SRemove) "self.sqlfile";
   mkSite "pdb2sqlcore.py" "pdb2sql._create_sql" (SConnect) "self.sqlfile";
   mkSite "pdb2sqlcore.py" "pdb2sql.read_pdb" (SExists) "pdbfile";
   mkSite "pdb2sqlcore.py" "pdb2sql.read_pdb" (SIsfile) "pdbfile";
   mkSite "pdb2sqlcore.py" "pdb2sql.read_pdb" (SOpen "r") "pdbfile";
   mkSite "pdb2sqlcore.py" "pdb2sql.read_pdb" (SExists) "pdbfile";
   mkSite "pdb2sqlcore.py" "pdb2sql.read_pdb" (SIsfile) "pdbfile";
   mkSite "pdb2sqlcore.py" "pdb2sql.read_pdb" (SOpen "r") "pdbfile";
   mkSite "superpose.py" "superpose" (SExport) "os.path.basename(_local_.pdbfile).rstrip('.pdb') + '_superposed_on_' + os.path.basename(_local_.pdbfile).rstrip('.pdb') + '.pdb'";
   mkSite "align.py" "export_aligned" (SExport) "_local_";
   mkSite "StructureSimilarity.py" "StructureSimilarity.compute_lrmsd_fast" (SIsfile) "lzone";
   mkSite "StructureSimilarity.py" "StructureSimilarity.compute_irmsd_fast" (SIsfile) "izone";
   mkSite "StructureSimilarity.py" "StructureSimilarity.compute_residue_pairs_ref" (SOpen "wb") "self.ref.split('.')[0] + 'residue_contact_pairs.pckl'";
   mkSite "StructureSimilarity.py" "StructureSimilarity.compute_residue_pairs_ref" (SOpen "wb") "filename";
   mkSite "StructureSimilarity.py" "StructureSimilarity.compute_residue_pairs_ref" (SPickleDump) "_local_";
   mkSite "StructureSimilarity.py" "StructureSimilarity.compute_lrmsd_pdb2sql" (SExport) "exportpath + '/lrmsd_decoy.pdb'";
   mkSite "StructureSimilarity.py" "StructureSimilarity.compute_lrmsd_pdb2sql" (SExport) "exportpath + '/lrmsd_ref.pdb'";
   mkSite "StructureSimilarity.py" "StructureSimilarity.compute_irmsd_pdb2sql" (SExport) "exportpath + '/irmsd_decoy.pdb'";
   mkSite "StructureSimilarity.py" "StructureSimilarity.compute_irmsd_pdb2sql" (SExport) "exportpath + '/irmsd_ref.pdb'";
   mkSite "StructureSimilarity.py" "StructureSimilarity.get_izone_rowID" (SIsfile) "izone";
   mkSite "StructureSimilarity.py" "StructureSimilarity._write_zone" (SMkstemp) "dir=os.path.dirname(filename) or '.', prefix=os.path.basename(filename) + '.'";
   mkSite "StructureSimilarity.py" "StructureSimilarity._write_zone" (SFdopen "w") "_local_";
   mkSite "StructureSimilarity.py" "StructureSimilarity._write_zone" (SReplace) "_local_ -> filename";
   mkSite "StructureSimilarity.py" "StructureSimilarity.read_zone" (SIsfile) "zone_file";
   mkSite "StructureSimilarity.py" "StructureSimilarity.read_zone" (SOpen "r") "zone_file";
   mkSite "utils.py" "fetch" (SUrlopen) "os.path.join('http://files.rcsb.org/download', pdbid + '.pdb')";
   mkSite "utils.py" "fetch" (SUrlopen) "os.path.join('http://files.rcsb.org/download', pdbid + '.cif')";
   mkSite "utils.py" "fetch" (SOpen "wb") "os.path.join(outdir, pdbid + '.pdb')"].
