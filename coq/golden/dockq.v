(* source: pdb2sql/StructureSimilarity.py:1215-1236 sha1 e84818febd8d9efcdd15df7caa510bf4994710df *)
Definition scale_rms_src (rms_1 d_2 : Q) : Q := (Qdiv (1 # 1) (Qplus (1 # 1) (Qsqr (Qdiv rms_1 d_2)))).
Definition dockq_raw_src (fnat_1 lrmsd_2 irmsd_3 d1_4 d2_5 : Q) : Q := (Qmult (Qdiv (1 # 1) (3 # 1)) (Qplus (Qplus fnat_1 (scale_rms_src lrmsd_2 d1_4)) (scale_rms_src irmsd_3 d2_5))).
Definition dockq_digits_src : nat := 6%nat.
Definition dockq_d1_src : Q := (17 # 2).
Definition dockq_d2_src : Q := (3 # 2).
