(* source: pdb2sql/pdb2sqlcore.py:269-300 sha1 2a3902e0477e28d31b64f692aa37b22409388f95 *)
Definition get_element_src (pdb_line_1 : string) : res string :=
 (let first_char_2 := (strip (char_at 12 pdb_line_1)) in
 (let last_char_3 := (strip (char_at 15 pdb_line_1)) in
 (if (str_nonempty first_char_2)
 then (if ((is_substring first_char_2 "0123456789"))
 then (let elem_4 := (char_at 13 pdb_line_1) in
 (Ok (strip elem_4)))
 else (if (((String.eqb first_char_2 "H")) && (str_nonempty last_char_3))
 then (let elem_5 := "H" in
 (Ok (strip elem_5)))
 else (let elem_6 := (slice 12 14 pdb_line_1) in
 (Ok (strip elem_6)))))
 else (let elem_7 := (char_at 13 pdb_line_1) in
 (Ok (strip elem_7)))))).
