(* source: pdb2sql/pdb2sqlcore.py:249-256 sha1 a0991a420ed6f951852f2364167df58df4069b89 *)
Definition linelength_src (pdb_line_1 : string) : res string :=
 (let linelen_2 := (String.length pdb_line_1) in
 (if ((Nat.ltb linelen_2 80%nat))
 then (let pdb_line_3 := (pdb_line_1 ++ (repeat_str " " (80%nat - linelen_2)%nat)) in
 (Ok pdb_line_3))
 else (if ((Nat.ltb 80%nat linelen_2))
 then (Err "ValueError")
 else (Ok pdb_line_1)))).
