(* source: pdb2sql/superpose.py:162-213 sha1 c70153cabf56df5f7b5a5cc7d057ba1d324c4670 *)
(* 1. sizes differ -> ValueError;  2. not centred -> ValueError *)
Definition centre_eps_src {T : Type} (N : Num T) : T := (ndiv N (nofZ N (4722366482869645)) (nofZ N (4722366482869645213696))).
Definition kabsch_uncentred_src {T : Type} (N : Num T) (P Q : list (vec3 T)) : bool :=
  let eps := centre_eps_src N in (vany_gt N (vabs N (mean N P)) eps || vany_gt N (vabs N (mean N Q)) eps)%bool.
Definition kabsch_cov_src {T : Type} (N : Num T) (P Q : list (vec3 T)) : mat3 T :=
  (mdivs N (ptq N P Q) (nlen N P)).
(* V, _, Wh = np.linalg.svd(kabsch_cov_src P Q)   [oracle: first and third component used] *)
Definition kabsch_post_src {T : Type} (N : Num T) (V Wh : mat3 T) : mat3 T :=
  let W_1 := (mtrans Wh) in
  let d_2 := (mdet N (mmul N W_1 (mtrans V))) in
  let Id_3 := (meye N) in
  let Id_4 := if nltb N d_2 (nofZ N (0)) then mset Id_3 2%nat 2%nat (nopp N (nofZ N (1))) else Id_3 in
  (mmul N W_1 (mmul N Id_4 (mtrans V))).
