(* source: pdb2sql/pdb2sqlcore.py:259-266 sha1 3dd9ef1791ed41902525f7c9249182d3eff0b460 *)
Definition get_chainID_src (pdb_line_1 : string) : res string :=
 (let segID_2 := (strip (slice 72 76 pdb_line_1)) in
 (if (str_nonempty segID_2)
 then (Ok segID_2)
 else (Err "ValueError"))).
