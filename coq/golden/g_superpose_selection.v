(* source: pdb2sql/superpose.py:82-114 sha1 5bb94432c3ee2c96129e52a0a997142b5c26850d *)
Definition trans_vect_src {T : Type} (N : Num T) (pts : list (vec3 T)) : vec3 T :=
  (vopp N (mean N pts)).
(* the selections are centred with their own translation vectors, the rotation is asked for the
   centred selections, the whole mobile set is moved by tr_mobile, rotated about the origin, moved by -tr_target *)
Definition sup_centre_src {T : Type} (N : Num T) (X : list (vec3 T)) : list (vec3 T) :=
  let v := trans_vect_src N X in (map (fun p_ => vadd N p_ v) X).
Definition sup_apply_src {T : Type} (N : Num T) (xyz sel_m sel_t : list (vec3 T)) (rmat : mat3 T) : list (vec3 T) :=
  let tr_m := trans_vect_src N sel_m in let tr_t := trans_vect_src N sel_t in
  let X := xyz in
  let X := (let v := tr_m in (map (fun p_ => vadd N p_ v) X)) in
  let X := rotate_apply_src N X rmat (V3 (nofZ N (0)) (nofZ N (0)) (nofZ N (0))) in
  let v := tr_t in (map (fun p_ => vsub N p_ v) X).
