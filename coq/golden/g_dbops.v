(* source: pdb2sql/transform.py:14-23 sha1 59b0b3a3182940aa559aaec4996b989ee280e835 *)
(* every database-level transform is  write_selection (f (read_selection)) with the same selection;
   the columns read and written are: *)
Definition db_columns_src : string := "x,y,z".
Definition translation_src {T : Type} (N : Num T) (xyz : list (vec3 T)) (vect : vec3 T) : list (vec3 T) :=
  (map (fun p_ => vadd N p_ vect) xyz).
(* rot_axis: f = rot_xyz_around_axis(., axis, angle)   [centre: default]
   rot_euler: f = rotation_euler(., alpha, beta, gamma) [centre: default]
   rot_mat: f = rotate(., mat)                           [centre: default] *)
Definition db_transforms_use_default_center_src : bool := true.
