(* source: pdb2sql/interface.py:41-166 sha1 eb1e979f45dfe1aef7494cddc10691bec75bfd84 *)
Definition contact_H_char_src : string := "H".
(* both backbone tests of get_contact_atoms and the one of _extend_contact_to_residue read self.backbone_atoms
   (= backbone_src of region const) *)
Definition contact_backbone_tests_src : nat := 3%nat.
