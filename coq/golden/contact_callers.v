(* source: pdb2sql/StructureSimilarity.py:1245-1271 sha1 7b7c78186df63688b4e2e72b692c791253304ac3 *)
Definition clash_cutoff_src : Q := (3 # 1).
Definition clash_excludeH_src : bool := true.
Definition clash_only_backbone_src : bool := false.
Definition clash_chain1_default_src : string := "A".
Definition clash_chain2_default_src : string := "B".
(* source: pdb2sql/StructureSimilarity.py:467-507 sha1 22541302d9bcfb0acdedcd401cfbc2fd205a259e *)
Definition pairs_ref_excludeH_src : bool := true.
Definition pairs_ref_only_backbone_src : bool := false.
Definition pairs_ref_cutoff_default_src : Q := (5 # 1).
(* source: pdb2sql/StructureSimilarity.py:917-970 sha1 e217da7126d70545d78b9d9b9e3a0f1e4f59ad16 *)
Definition fnat_sql_excludeH_src : bool := true.
Definition fnat_sql_only_backbone_src : bool := false.
Definition fnat_sql_fix_chainID_src : bool := true.
Definition fnat_sql_cutoff_default_src : Q := (5 # 1).
Definition fnat_sql_digits_src : nat := 6%nat.
