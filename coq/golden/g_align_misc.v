(* source: pdb2sql/align.py:47-81 sha1 cc005f3622f585dc3500175f637890362b2da26a *)
Definition plane_axis_src : list (string * string) :=
  [("xy", "z"); ("xz", "y"); ("yz", "x")].
Definition pca_pick_max_src {T : Type} (N : Num T) (u : list T) : nat := argmax N u.
Definition pca_pick_min_src {T : Type} (N : Num T) (u : list T) : nat := argmin N u.
(* pca(mat) = np.linalg.eigh(np.cov(centred mat, rows = coordinates))  [oracle on the sample covariance, ddof = 1] *)
Definition pca_is_eigh_of_sample_cov_src : bool := true.
(* align_pca_vect: angles of the vector; ALL atoms are read, rotated by _align_along_axis, written back *)
Definition align_moves_all_atoms_src : bool := true.
