(* source: pdb2sql/pdb2sqlcore.py:589-669 sha1 4669eb874368bee256b0a62dbb2b9b267d11a77a *)
Definition update_shift_src : Z := 1.
Definition update_column_shift_src : Z := 1.
Definition update_head_src : string := "UPDATE {tablename} SET ".
Definition update_where_src : string := " WHERE rowID=?".
Definition update_column_query_src : string := "UPDATE {tablename} SET {cn}=? WHERE rowID=?".
Definition add_column_query_src : string := "ALTER TABLE %s ADD COLUMN '%s' %s DEFAULT %s".
Definition update_default_table_src : string := "ATOM".
Definition update_column_default_table_src : string := "ATOM".
Definition add_column_default_table_src : string := "ATOM".
Definition add_column_default_type_src : string := "FLOAT".
