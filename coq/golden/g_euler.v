(* source: pdb2sql/transform.py:128-156 sha1 2db82a3423cf949f5dd0301a3bb103ab95c3603b *)
Definition euler_rx_src {T : Type} (N : Num T) (ca sa : T) : mat3 T :=
  (M3 (nofZ N (1))
      (nofZ N (0))
      (nofZ N (0))
      (nofZ N (0))
      ca
      (nopp N sa)
      (nofZ N (0))
      sa
      ca).
Definition euler_ry_src {T : Type} (N : Num T) (cb sb : T) : mat3 T :=
  (M3 cb
      (nofZ N (0))
      sb
      (nofZ N (0))
      (nofZ N (1))
      (nofZ N (0))
      (nopp N sb)
      (nofZ N (0))
      cb).
Definition euler_rz_src {T : Type} (N : Num T) (cg sg : T) : mat3 T :=
  (M3 cg
      (nopp N sg)
      (nofZ N (0))
      sg
      cg
      (nofZ N (0))
      (nofZ N (0))
      (nofZ N (0))
      (nofZ N (1))).
(* rotation_euler(xyz, alpha, beta, gamma, center) = rotate(xyz, euler_src ..., center) *)
Definition euler_src {T : Type} (N : Num T) (ca sa cb sb cg sg : T) : mat3 T :=
  (mmul N (euler_rz_src N cg sg) (mmul N (euler_ry_src N cb sb) (euler_rx_src N ca sa))).
