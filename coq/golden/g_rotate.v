(* source: pdb2sql/transform.py:175-198 sha1 d93eba7e4f56ba150cef08d52a5b07cdfc39bf06 *)
Definition rotate_default_center_src {T : Type} (N : Num T) (xyz : list (vec3 T)) : vec3 T :=
  (mean N xyz).
(* a centre that is neither a list nor an ndarray raises: *)
Definition rotate_bad_center_exc_src : string := "TypeError".
Definition rotate_apply_src {T : Type} (N : Num T) (xyz : list (vec3 T)) (rot_mat : mat3 T) (center : vec3 T) : list (vec3 T) :=
  (map (fun p_ => vadd N p_ center) (map (mvmul N rot_mat) (map (fun p_ => vsub N p_ center) xyz))).
