(* Proofs_fnat_routes.v — C09: the two Fnat routes agree.  Both are proved equal to the same specification (C08), so when the
   fast reader's view of the decoy text is the decoy table the SQL route works on, they return the same value (or both
   the same error). *)
From Verif Require Import PyLib ModelTypes Generated_contact Model_contact Spec_contact Proofs_contact_c05 Proofs_contact_c08 Proofs_contact_c08b.

Theorem fnat_routes_agree cutoff ref dec lines c1 c2 :
  wf ref -> wf dec -> get_chains ref = [c1; c2] -> get_chains dec = [c1; c2] ->
  fast_read lines = Ok dec -> every_residue_has_heavy dec ->
  compute_fnat_fast cutoff ref lines = compute_fnat_pdb2sql cutoff dec ref.
Proof.
  intros Wr Wd Cr Cd Hread Hh.
  pose proof (fnat_fast_exact cutoff ref lines dec c1 c2 Wr Cr Hread Hh) as F.
  pose proof (fnat_sql_exact cutoff ref dec c1 c2 Wr Wd Cr Cd) as S.
  unfold fnat_outcome in *. destruct (fnat_spec (withinb cutoff) ref dec); rewrite F, S; reflexivity.
Qed.
