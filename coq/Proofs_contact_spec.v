(* Proofs_contact_spec.v — (1) the regenerated constants mean what the specification's vocabulary says,
   (2) the cheap evaluators of the squared distance denote the squared distance,
   (3) the executable specifications are equivalent to their Prop readings. *)
From Coq Require Import Lia Lqa Sorted Permutation.
From Verif Require Import PyLib PyLibFacts Generated_parse Generated_contact Model_contact Spec_contact Proofs_contact_lists.
Open Scope Z_scope.
Open Scope list_scope.

(* ------------------------------------------------------------------ *)
(* (1) vocabulary                                                      *)
Lemma is_bb_spec a : is_bb (name a) = is_backbone a.
Proof. reflexivity. Qed.

Lemma prefix1 (h : ascii) (n : string) :
  prefix (String h EmptyString) n = match n with String c _ => Ascii.eqb c h | EmptyString => false end.
Proof.
  destruct n as [|c t]; simpl; [reflexivity|].
  destruct (ascii_dec h c) as [E|E].
  - subst. rewrite Ascii.eqb_refl. destruct t; reflexivity.
  - symmetry. apply Ascii.eqb_neq. congruence.
Qed.
Lemma is_H_spec a : is_H (name a) = is_hydrogen a.
Proof. unfold is_H, is_hydrogen. change contact_H_char_src with (String "H"%char EmptyString). apply prefix1. Qed.
Lemma fast_is_H_spec a : fast_is_H (name a) = is_hydrogen a.
Proof. unfold fast_is_H, is_hydrogen. change fast_H_char_src with (String "H"%char EmptyString). apply prefix1. Qed.

Lemma keep2_passes obb exh b : keep2 obb exh b = passes obb exh b.
Proof. unfold keep2, passes. rewrite is_bb_spec, is_H_spec. rewrite (Bool.orb_comm (is_backbone b)). reflexivity. Qed.

(* ------------------------------------------------------------------ *)
(* (2) squared distance                                                *)
Open Scope Q_scope.
Lemma Qsub_x_eq a b : Qsub_x a b == a - b.
Proof.
  unfold Qsub_x. destruct (Pos.eqb (Qden a) (Qden b)) eqn:E; [|reflexivity].
  apply Pos.eqb_eq in E. destruct a as [n1 d1], b as [n2 d2]; simpl in *; subst.
  unfold Qeq, Qminus, Qplus, Qopp; simpl. rewrite Pos2Z.inj_mul. ring.
Qed.
Lemma Qadd_x_eq a b : Qadd_x a b == a + b.
Proof.
  unfold Qadd_x. destruct (Pos.eqb (Qden a) (Qden b)) eqn:E; [|reflexivity].
  apply Pos.eqb_eq in E. destruct a as [n1 d1], b as [n2 d2]; simpl in *; subst.
  unfold Qeq, Qplus; simpl. rewrite Pos2Z.inj_mul. ring.
Qed.
Lemma dist2_sqdist a b : dist2 a b == sqdist a b.
Proof. unfold dist2, sqdist, Qsqr. rewrite !Qadd_x_eq, !Qsub_x_eq. ring. Qed.

Lemma sqdist_x_eq a b : sqdist_x a b == sqdist a b.
Proof.
  unfold sqdist_x, sqdist.
  assert (SQ : forall u v : Q,
    (if Pos.eqb (Qden u) (Qden v) then Qmake ((Qnum u - Qnum v) * (Qnum u - Qnum v)) (Qden u * Qden u)
     else (u - v) * (u - v)) == (u - v) * (u - v)).
  { intros u v. destruct (Pos.eqb (Qden u) (Qden v)) eqn:E; [|reflexivity].
    apply Pos.eqb_eq in E. destruct u as [n1 d1], v as [n2 d2]; simpl in *; subst.
    unfold Qeq, Qminus, Qplus, Qopp, Qmult; simpl. rewrite !Pos2Z.inj_mul. ring. }
  assert (AD : forall u v : Q,
    (if Pos.eqb (Qden u) (Qden v) then Qmake (Qnum u + Qnum v) (Qden u) else u + v) == u + v).
  { intros u v. exact (Qadd_x_eq u v). }
  rewrite !AD, !SQ. reflexivity.
Qed.
Lemma sqdist_sym a b : sqdist a b == sqdist b a.
Proof. unfold sqdist. ring. Qed.
Lemma sqdist_nonneg a b : 0 <= sqdist a b.
Proof.
  unfold sqdist.
  assert (S : forall q : Q, 0 <= q * q) by (intro q; nra).
  pose proof (S (ax a - ax b)); pose proof (S (ay a - ay b)); pose proof (S (az a - az b)). lra.
Qed.

(* the regenerated distance test IS "distance <= cutoff" (breaks if the source uses < instead of <=) *)
Lemma contact_test_inclusive d2 c : contact_test_src d2 c = true <-> (0 <= c /\ d2 <= c * c).
Proof.
  unfold contact_test_src, Qsqr. rewrite Bool.andb_true_iff, !Qleb_spec.
  split; intros [A B]; split; try exact B; try lra.
Qed.
Lemma fnat_fast_test_inclusive d2 c : fnat_fast_test_src d2 c = true <-> (0 <= c /\ d2 <= c * c).
Proof.
  unfold fnat_fast_test_src, Qsqr. rewrite Bool.andb_true_iff, !Qleb_spec.
  split; intros [A B]; split; try exact B; try lra.
Qed.

Lemma withinb_within c a b : withinb c a b = true <-> within c a b.
Proof. unfold withinb, within. rewrite Bool.andb_true_iff, !Qleb_spec, sqdist_x_eq. reflexivity. Qed.
Lemma closerb_closer c a b : closerb c a b = true <-> closer c a b.
Proof. unfold closerb, closer. rewrite Bool.andb_true_iff, !Qltb_spec, sqdist_x_eq. reflexivity. Qed.
Lemma closeQ_within c a b : closeQ c a b = true <-> within c a b.
Proof. unfold closeQ, within. rewrite contact_test_inclusive, dist2_sqdist. reflexivity. Qed.
Lemma close_fastQ_within c a b : close_fastQ c a b = true <-> within c a b.
Proof. unfold close_fastQ, within. rewrite fnat_fast_test_inclusive, dist2_sqdist. reflexivity. Qed.

Lemma bool_eq_iff (x y : bool) : (x = true <-> y = true) -> x = y.
Proof. destruct x, y; intros [A B]; try reflexivity; [symmetry; apply A; reflexivity | apply B; reflexivity]. Qed.
Lemma closeQ_withinb c a b : closeQ c a b = withinb c a b.
Proof. apply bool_eq_iff. rewrite closeQ_within, withinb_within. reflexivity. Qed.
Lemma close_fastQ_withinb c a b : close_fastQ c a b = withinb c a b.
Proof. apply bool_eq_iff. rewrite close_fastQ_within, withinb_within. reflexivity. Qed.
Lemma within_sym c a b : within c a b <-> within c b a.
Proof. unfold within. rewrite (sqdist_sym a b). reflexivity. Qed.
Lemma closeQ_sym c a b : closeQ c a b = closeQ c b a.
Proof. apply bool_eq_iff. rewrite !closeQ_within. apply within_sym. Qed.
Lemma withinb_sym c a b : withinb c a b = withinb c b a.
Proof. apply bool_eq_iff. rewrite !withinb_within. apply within_sym. Qed.
Close Scope Q_scope.

(* ------------------------------------------------------------------ *)
(* (3) executable specification <-> Prop reading                       *)
Lemma inb_In c cs : inb c cs = true <-> In c cs.
Proof.
  unfold inb. rewrite existsb_exists. split.
  - intros [x [Hx E]]. apply String.eqb_eq in E; subst; exact Hx.
  - intro H; exists c; split; [exact H | apply String.eqb_refl].
Qed.
Lemma negb_eqb_neq (x y : string) : negb (String.eqb x y) = true <-> x <> y.
Proof. rewrite Bool.negb_true_iff. apply String.eqb_neq. Qed.

Section SpecFacts.
  Variable near : atom -> atom -> bool.
  Variables (obb exh : bool).
  Notation ok := (passes obb exh).

  Lemma contact_atomb_iff s cs c a :
    contact_atomb near obb exh s cs c a = true <->
    chain a = c /\ ok a = true /\
    exists b, In b s /\ chain b <> c /\ In (chain b) cs /\ ok b = true /\ near a b = true.
  Proof.
    unfold contact_atomb. rewrite !Bool.andb_true_iff, String.eqb_eq, existsb_exists.
    split.
    - intros [[A B] [b [Hb C]]]. rewrite !Bool.andb_true_iff, negb_eqb_neq, inb_In in C.
      split; [exact A | split; [exact B | exists b; tauto]].
    - intros [A [B [b [Hb C]]]]. split; [split; assumption|]. exists b; split; [exact Hb|].
      rewrite !Bool.andb_true_iff, negb_eqb_neq, inb_In. tauto.
  Qed.
  (* the executable filter decides the Prop reading *)
  Lemma contact_atomb_spec s cs c a : In a s ->
    (contact_atomb near obb exh s cs c a = true <-> contact_atom near obb exh s cs c a).
  Proof. intro Ha. rewrite contact_atomb_iff. unfold contact_atom. tauto. Qed.
  Lemma spec_atoms_In s cs c i :
    In i (spec_atoms near obb exh s cs c) <-> exists a, idx a = i /\ contact_atom near obb exh s cs c a.
  Proof.
    unfold spec_atoms. rewrite in_map_iff. split.
    - intros [a [E H]]. apply filter_In in H. destruct H as [Ha H]. exists a; split; [exact E|].
      apply contact_atomb_spec; assumption.
    - intros [a [E H]]. exists a; split; [exact E|]. apply filter_In. split; [apply H|].
      apply contact_atomb_spec; [apply H | exact H].
  Qed.

  Lemma partnerb_iff cs a b :
    partnerb near obb exh cs a b = true <-> In (chain b) (after (chain a) cs) /\ ok b = true /\ near a b = true.
  Proof. unfold partnerb. rewrite !Bool.andb_true_iff, inb_In. tauto. Qed.
  Lemma partners_In s cs a i :
    In i (partners near obb exh s cs a) <->
    exists b, In b s /\ idx b = i /\ In (chain b) (after (chain a) cs) /\ ok b = true /\ near a b = true.
  Proof.
    unfold partners. rewrite in_map_iff. split.
    - intros [b [E H]]. apply filter_In in H. destruct H as [Hb H]. apply partnerb_iff in H. exists b; tauto.
    - intros [b [Hb [E H]]]. exists b; split; [exact E|]. apply filter_In; split; [exact Hb|]. apply partnerb_iff; exact H.
  Qed.
End SpecFacts.

Lemma after_In c cs x : In x (after c cs) -> In x cs.
Proof.
  induction cs as [|y t IH]; simpl; [intros []|].
  destruct (String.eqb c y); intro H; [right; exact H | right; exact (IH H)].
Qed.
Lemma after_head_In c cs x : In x (after c cs) -> In c cs.
Proof.
  induction cs as [|y t IH]; simpl; [intros []|].
  destruct (String.eqb c y) eqn:E; intro H; [left; symmetry; apply String.eqb_eq; exact E | right; exact (IH H)].
Qed.
Lemma after_NoDup_neq c cs x : NoDup cs -> In x (after c cs) -> x <> c.
Proof.
  induction cs as [|y t IH]; simpl; intros ND H; [destruct H|].
  inversion ND as [|? ? Hn ND']; subst.
  destruct (String.eqb c y) eqn:E.
  - apply String.eqb_eq in E; subst. intros ->; contradiction.
  - exact (IH ND' H).
Qed.
Lemma after_NoDup c cs : NoDup cs -> NoDup (after c cs).
Proof.
  induction cs as [|y t IH]; simpl; intro ND; [constructor|].
  inversion ND; subst. destruct (String.eqb c y); [assumption | apply IH; assumption].
Qed.
Lemma after_total c c' cs : In c cs -> In c' cs -> c <> c' -> In c' (after c cs) \/ In c (after c' cs).
Proof.
  induction cs as [|y t IH]; simpl; intros H H' N; [destruct H|].
  destruct (String.eqb c y) eqn:E; destruct (String.eqb c' y) eqn:E'.
  - apply String.eqb_eq in E, E'; congruence.
  - left. destruct H' as [H'|H']; [subst; rewrite String.eqb_refl in E'; discriminate | exact H'].
  - right. destruct H as [H|H]; [subst; rewrite String.eqb_refl in E; discriminate | exact H].
  - apply IH; [destruct H as [H|H]; [subst; rewrite String.eqb_refl in E; discriminate | exact H]
              | destruct H' as [H'|H']; [subst; rewrite String.eqb_refl in E'; discriminate | exact H'] | exact N].
Qed.
Lemma after_notin c cs : ~ In c cs -> after c cs = [].
Proof.
  induction cs as [|y t IH]; simpl; intro H; [reflexivity|].
  destruct (String.eqb c y) eqn:E; [apply String.eqb_eq in E; subst; exfalso; apply H; left; reflexivity|].
  apply IH. intro F; apply H; right; exact F.
Qed.

Lemma comb_iff (l : list string) x y : NoDup l -> (In (x, y) (combinations2 l) <-> In x l /\ In y (after x l)).
Proof.
  induction l as [|a t IH]; simpl; intro ND.
  - split; [intros [] | intros [[] _]].
  - inversion ND as [|? ? Hn ND']; subst. rewrite in_app_iff, in_map_iff, (IH ND'). split.
    + intros [[z [E Hz]]|[Hx Hy]].
      * inversion E; subst. rewrite String.eqb_refl. split; [left; reflexivity | exact Hz].
      * assert (x <> a) by (intros ->; contradiction).
        rewrite (proj2 (String.eqb_neq x a)) by assumption. split; [right; exact Hx | exact Hy].
    + intros [Hx Hy]. destruct (String.eqb x a) eqn:E.
      * apply String.eqb_eq in E; subst. left; exists y; split; [reflexivity | exact Hy].
      * right. split; [|exact Hy]. destruct Hx as [Hx|Hx]; [subst; rewrite String.eqb_refl in E; discriminate | exact Hx].
Qed.
