(* Model_export.v — executable model of pdb2sql_base.data2pdb / sql2pdb (C02).
   The layout (sequence of format specs), _format_xyz and _format_atomname are regenerated
   (Generated_export.v); the interpretation of a format spec on a SQLite value is PyLib. *)
From Verif Require Import PyLib ModelTypes Generated_export.
Open Scope string_scope.

Definition justify (a : align) (w : nat) (s : string) : string :=
  match a with ARight => rjust w s | ALeft => ljust w s | ACenter => center w s end.

(* '{:>w}'.format(v) for an int or a str *)
Definition render_plain (v : val) : res string :=
  match v with
  | VInt z => Ok (str_of_Z z)
  | VText s => Ok s
  | _ => Err "OutOfModel"
  end.
Definition num_of (v : val) : res Q :=
  match v with
  | VInt z => Ok (inject_Z z)
  | VReal q => Ok q
  | VText _ => Err "ValueError"
  | _ => Err "OutOfModel"
  end.
Definition text_of (v : val) : res string :=
  match v with VText s => Ok s | _ => Err "OutOfModel" end.

Definition render_piece (d : row) (p : piece) : res string :=
  match p with
  | PLit s => Ok s
  | PField i a w => do s <- render_plain (nth i d VNull); Ok (justify a w s)
  | PFixed i a w pr =>
      match a with
      | ARight => do q <- num_of (nth i d VNull); Ok (fmt_fixed w pr q)
      | _ => Err "OutOfModel"
      end
  | PAtomName =>
      do nm <- text_of (nth 1 d VNull); do el <- text_of (nth 12 d VNull); format_atomname_src nm el
  | PXyz i =>
      match nth i d VNull with
      | VReal q => format_xyz_src q
      | VInt z => format_xyz_src (inject_Z z)
      | _ => Err "OutOfModel"
      end
  end.

Fixpoint render_pieces (d : row) (ps : list piece) : res string :=
  match ps with
  | [] => Ok ""
  | p :: t => do s <- render_piece d p; do r <- render_pieces d t; Ok (s ++ r)
  end.

Definition line_of_row (d : row) : res string := render_pieces d export_layout_src.
Definition export (rows : list row) : res (list string) := mapM line_of_row rows.
