(* Model_geom_num.v — ring-polymorphic 3x3 / 4x4 matrix library for the geometry cluster
   (C10, C06, C18).  Every definition takes a dictionary [N : Num T]; the regenerated text of
   Generated_geom.v is written once against this dictionary and instantiated
     - at [NumQ]  (exact rationals, reduced after every operation): executable, extracted;
     - at [NumR]  (Coq's reals, Spec_geom.v): the theorems.
   Definitions only; lemmas live in Proofs_geom_*.v. *)
From Verif Require Import Base.
Open Scope Z_scope.

Record Num (T : Type) : Type := mkNum {
  nadd : T -> T -> T;
  nsub : T -> T -> T;
  nmul : T -> T -> T;
  ndiv : T -> T -> T;
  nopp : T -> T;
  nofZ : Z -> T;
  nltb : T -> T -> bool          (* strict order test, as Python's  a < b  on floats *)
}.
Arguments nadd {T} _ _ _. Arguments nsub {T} _ _ _. Arguments nmul {T} _ _ _.
Arguments ndiv {T} _ _ _. Arguments nopp {T} _ _. Arguments nofZ {T} _ _. Arguments nltb {T} _ _ _.

Definition NumQ : Num Q :=
  mkNum Q (fun a b => Qred (a + b)%Q) (fun a b => Qred (a - b)%Q) (fun a b => Qred (a * b)%Q)
        (fun a b => Qred (a / b)%Q) (fun a => Qred (- a)%Q) inject_Z Qltb.

Record vec3 (T : Type) : Type := V3 { vx : T; vy : T; vz : T }.
Record mat3 (T : Type) : Type := M3 {
  m00 : T; m01 : T; m02 : T;
  m10 : T; m11 : T; m12 : T;
  m20 : T; m21 : T; m22 : T }.
Record vec4 (T : Type) : Type := V4 { w0 : T; w1 : T; w2 : T; w3 : T }.
Record mat4 (T : Type) : Type := M4 {
  f00 : T; f01 : T; f02 : T; f03 : T;
  f10 : T; f11 : T; f12 : T; f13 : T;
  f20 : T; f21 : T; f22 : T; f23 : T;
  f30 : T; f31 : T; f32 : T; f33 : T }.
Arguments V3 {T} _ _ _. Arguments vx {T} _. Arguments vy {T} _. Arguments vz {T} _.
Arguments M3 {T} _ _ _ _ _ _ _ _ _.
Arguments m00 {T} _. Arguments m01 {T} _. Arguments m02 {T} _.
Arguments m10 {T} _. Arguments m11 {T} _. Arguments m12 {T} _.
Arguments m20 {T} _. Arguments m21 {T} _. Arguments m22 {T} _.
Arguments V4 {T} _ _ _ _. Arguments w0 {T} _. Arguments w1 {T} _. Arguments w2 {T} _. Arguments w3 {T} _.
Arguments M4 {T} _ _ _ _ _ _ _ _ _ _ _ _ _ _ _ _.
Arguments f00 {T} _. Arguments f01 {T} _. Arguments f02 {T} _. Arguments f03 {T} _.
Arguments f10 {T} _. Arguments f11 {T} _. Arguments f12 {T} _. Arguments f13 {T} _.
Arguments f20 {T} _. Arguments f21 {T} _. Arguments f22 {T} _. Arguments f23 {T} _.
Arguments f30 {T} _. Arguments f31 {T} _. Arguments f32 {T} _. Arguments f33 {T} _.

Section Ops.
Context {T : Type} (N : Num T).
Local Notation "a + b" := (nadd N a b).
Local Notation "a - b" := (nsub N a b).
Local Notation "a * b" := (nmul N a b).
Local Notation "a / b" := (ndiv N a b).
Local Notation "- a" := (nopp N a).
Definition n0 : T := nofZ N 0.
Definition n1 : T := nofZ N 1.
Definition nabs (a : T) : T := if nltb N a n0 then - a else a.       (* np.abs *)

(* ---- vectors ---- *)
Definition vadd (a b : vec3 T) : vec3 T := V3 (vx a + vx b) (vy a + vy b) (vz a + vz b).
Definition vsub (a b : vec3 T) : vec3 T := V3 (vx a - vx b) (vy a - vy b) (vz a - vz b).
Definition vopp (a : vec3 T) : vec3 T := V3 (- vx a) (- vy a) (- vz a).
Definition vscale (k : T) (a : vec3 T) : vec3 T := V3 (k * vx a) (k * vy a) (k * vz a).
Definition vdivs (a : vec3 T) (k : T) : vec3 T := V3 (vx a / k) (vy a / k) (vz a / k).
Definition vzero : vec3 T := V3 n0 n0 n0.
Definition vabs (a : vec3 T) : vec3 T := V3 (nabs (vx a)) (nabs (vy a)) (nabs (vz a)).
Definition dot (a b : vec3 T) : T := vx a * vx b + vy a * vy b + vz a * vz b.
Definition norm2 (a : vec3 T) : T := dot a a.
Definition cross (a b : vec3 T) : vec3 T :=
  V3 (vy a * vz b - vz a * vy b) (vz a * vx b - vx a * vz b) (vx a * vy b - vy a * vx b).
Definition triple (a b c : vec3 T) : T := dot a (cross b c).
(* any(v > eps) *)
Definition vany_gt (a : vec3 T) (eps : T) : bool :=
  (nltb N eps (vx a) || nltb N eps (vy a) || nltb N eps (vz a))%bool.

(* ---- 3x3 matrices ---- *)
Definition meye : mat3 T := M3 n1 n0 n0 n0 n1 n0 n0 n0 n1.
Definition mzero : mat3 T := M3 n0 n0 n0 n0 n0 n0 n0 n0 n0.
Definition mtrans (A : mat3 T) : mat3 T :=
  M3 (m00 A) (m10 A) (m20 A) (m01 A) (m11 A) (m21 A) (m02 A) (m12 A) (m22 A).
Definition mrow0 (A : mat3 T) := V3 (m00 A) (m01 A) (m02 A).
Definition mrow1 (A : mat3 T) := V3 (m10 A) (m11 A) (m12 A).
Definition mrow2 (A : mat3 T) := V3 (m20 A) (m21 A) (m22 A).
Definition mcol0 (A : mat3 T) := V3 (m00 A) (m10 A) (m20 A).
Definition mcol1 (A : mat3 T) := V3 (m01 A) (m11 A) (m21 A).
Definition mcol2 (A : mat3 T) := V3 (m02 A) (m12 A) (m22 A).
Definition mcol (A : mat3 T) (j : nat) : vec3 T :=
  match j with O => mcol0 A | S O => mcol1 A | _ => mcol2 A end.
(* np.dot(A, v) *)
Definition mvmul (A : mat3 T) (v : vec3 T) : vec3 T :=
  V3 (dot (mrow0 A) v) (dot (mrow1 A) v) (dot (mrow2 A) v).
(* np.dot(A, B) *)
Definition mmul (A B : mat3 T) : mat3 T :=
  M3 (dot (mrow0 A) (mcol0 B)) (dot (mrow0 A) (mcol1 B)) (dot (mrow0 A) (mcol2 B))
     (dot (mrow1 A) (mcol0 B)) (dot (mrow1 A) (mcol1 B)) (dot (mrow1 A) (mcol2 B))
     (dot (mrow2 A) (mcol0 B)) (dot (mrow2 A) (mcol1 B)) (dot (mrow2 A) (mcol2 B)).
Definition madd (A B : mat3 T) : mat3 T :=
  M3 (m00 A + m00 B) (m01 A + m01 B) (m02 A + m02 B)
     (m10 A + m10 B) (m11 A + m11 B) (m12 A + m12 B)
     (m20 A + m20 B) (m21 A + m21 B) (m22 A + m22 B).
Definition mdivs (A : mat3 T) (k : T) : mat3 T :=
  M3 (m00 A / k) (m01 A / k) (m02 A / k) (m10 A / k) (m11 A / k) (m12 A / k)
     (m20 A / k) (m21 A / k) (m22 A / k).
Definition mscale (k : T) (A : mat3 T) : mat3 T :=
  M3 (k * m00 A) (k * m01 A) (k * m02 A) (k * m10 A) (k * m11 A) (k * m12 A)
     (k * m20 A) (k * m21 A) (k * m22 A).
Definition mtrace (A : mat3 T) : T := m00 A + m11 A + m22 A.
(* np.linalg.det, as the cofactor expansion along the first row *)
Definition mdet (A : mat3 T) : T :=
  m00 A * (m11 A * m22 A - m12 A * m21 A)
  - m01 A * (m10 A * m22 A - m12 A * m20 A)
  + m02 A * (m10 A * m21 A - m11 A * m20 A).
(* functional version of  A[i, j] = v *)
Definition mset (A : mat3 T) (i j : nat) (v : T) : mat3 T :=
  match i, j with
  | 0%nat, 0%nat => M3 v (m01 A) (m02 A) (m10 A) (m11 A) (m12 A) (m20 A) (m21 A) (m22 A)
  | 0%nat, 1%nat => M3 (m00 A) v (m02 A) (m10 A) (m11 A) (m12 A) (m20 A) (m21 A) (m22 A)
  | 0%nat, 2%nat => M3 (m00 A) (m01 A) v (m10 A) (m11 A) (m12 A) (m20 A) (m21 A) (m22 A)
  | 1%nat, 0%nat => M3 (m00 A) (m01 A) (m02 A) v (m11 A) (m12 A) (m20 A) (m21 A) (m22 A)
  | 1%nat, 1%nat => M3 (m00 A) (m01 A) (m02 A) (m10 A) v (m12 A) (m20 A) (m21 A) (m22 A)
  | 1%nat, 2%nat => M3 (m00 A) (m01 A) (m02 A) (m10 A) (m11 A) v (m20 A) (m21 A) (m22 A)
  | 2%nat, 0%nat => M3 (m00 A) (m01 A) (m02 A) (m10 A) (m11 A) (m12 A) v (m21 A) (m22 A)
  | 2%nat, 1%nat => M3 (m00 A) (m01 A) (m02 A) (m10 A) (m11 A) (m12 A) (m20 A) v (m22 A)
  | 2%nat, 2%nat => M3 (m00 A) (m01 A) (m02 A) (m10 A) (m11 A) (m12 A) (m20 A) (m21 A) v
  | _, _ => A
  end.
Definition mget (A : mat3 T) (i j : nat) : T :=
  match i, j with
  | 0%nat, 0%nat => m00 A | 0%nat, 1%nat => m01 A | 0%nat, 2%nat => m02 A
  | 1%nat, 0%nat => m10 A | 1%nat, 1%nat => m11 A | 1%nat, 2%nat => m12 A
  | 2%nat, 0%nat => m20 A | 2%nat, 1%nat => m21 A | _, _ => m22 A
  end.
(* outer product  a b^T *)
Definition outer (a b : vec3 T) : mat3 T :=
  M3 (vx a * vx b) (vx a * vy b) (vx a * vz b)
     (vy a * vx b) (vy a * vy b) (vy a * vz b)
     (vz a * vx b) (vz a * vy b) (vz a * vz b).

(* ---- point sets (n x 3 arrays) ---- *)
Definition pts := list (vec3 T).
Definition vsum (l : list (vec3 T)) : vec3 T := fold_right vadd vzero l.
Definition nlen (l : list (vec3 T)) : T := nofZ N (Z.of_nat (List.length l)).
(* np.mean(xyz, 0) *)
Definition mean (l : list (vec3 T)) : vec3 T := vdivs (vsum l) (nlen l).
(* np.dot(P.T, Q) for two n x 3 arrays:  sum_k  p_k q_k^T *)
Definition ptq (P Q : list (vec3 T)) : mat3 T :=
  fold_right (fun pq acc => madd (outer (fst pq) (snd pq)) acc) mzero (combine P Q).

(* ---- 4-vectors / 4x4 ---- *)
Definition dot4 (a b : vec4 T) : T := w0 a * w0 b + w1 a * w1 b + w2 a * w2 b + w3 a * w3 b.
Definition m4row (F : mat4 T) (i : nat) : vec4 T :=
  match i with
  | 0%nat => V4 (f00 F) (f01 F) (f02 F) (f03 F)
  | 1%nat => V4 (f10 F) (f11 F) (f12 F) (f13 F)
  | 2%nat => V4 (f20 F) (f21 F) (f22 F) (f23 F)
  | _ => V4 (f30 F) (f31 F) (f32 F) (f33 F)
  end.
(* U[:, j] *)
Definition m4col (F : mat4 T) (j : nat) : vec4 T :=
  match j with
  | 0%nat => V4 (f00 F) (f10 F) (f20 F) (f30 F)
  | 1%nat => V4 (f01 F) (f11 F) (f21 F) (f31 F)
  | 2%nat => V4 (f02 F) (f12 F) (f22 F) (f32 F)
  | _ => V4 (f03 F) (f13 F) (f23 F) (f33 F)
  end.
Definition m4vmul (F : mat4 T) (v : vec4 T) : vec4 T :=
  V4 (dot4 (m4row F 0) v) (dot4 (m4row F 1) v) (dot4 (m4row F 2) v) (dot4 (m4row F 3) v).
Definition quadform4 (F : mat4 T) (v : vec4 T) : T := dot4 v (m4vmul F v).

(* np.argmax / np.argmin on a short list: index of the FIRST extremal element *)
Fixpoint argmax_aux (best : T) (bi i : nat) (l : list T) : nat :=
  match l with
  | [] => bi
  | x :: t => if nltb N best x then argmax_aux x i (S i) t else argmax_aux best bi (S i) t
  end.
Definition argmax (l : list T) : nat :=
  match l with [] => O | x :: t => argmax_aux x O 1%nat t end.
Fixpoint argmin_aux (best : T) (bi i : nat) (l : list T) : nat :=
  match l with
  | [] => bi
  | x :: t => if nltb N x best then argmin_aux x i (S i) t else argmin_aux best bi (S i) t
  end.
Definition argmin (l : list T) : nat :=
  match l with [] => O | x :: t => argmin_aux x O 1%nat t end.

(* ---- angles as (cos, sin) pairs ------------------------------------------------------ *)
(* An angle never appears as a number in the matrices: only its cosine and sine do.  The
   angle expressions of the source ( -phi, pi/2 - theta, theta - pi/2, ... ) are all of the
   form  k*(pi/2) + sg*alpha  with k an integer and sg = +1 or -1;  [ang_cs] gives the
   (cos, sin) pair of such an expression from the pair of alpha. *)
Definition quarter_turn (cs : T * T) : T * T := (- snd cs, fst cs).      (* + pi/2 *)
Definition ang_cs (k : Z) (neg : bool) (cs : T * T) : T * T :=
  let b := if neg then (fst cs, - snd cs) else cs in
  match k mod 4 with
  | 0 => b
  | 1 => quarter_turn b
  | 2 => quarter_turn (quarter_turn b)
  | _ => quarter_turn (quarter_turn (quarter_turn b))
  end.
End Ops.

(* which of the two angles of get_rotation_angle an expression refers to *)
Inductive angvar := APhi | ATheta.
(* k*(pi/2) + (if neg then -alpha else alpha) *)
Record angexpr := AngE { ae_k : Z; ae_neg : bool; ae_var : angvar }.

(* the two superposition kernels get_rotation_matrix dispatches to *)
Inductive kernel := KKabsch | KQuaternion.
(* arguments of arctan2 / arccos in get_rotation_angle: components of the vector, its norm, quotients *)
Inductive compexpr := CX | CY | CZ | CNorm | CDiv (a b : compexpr).

