(* Model_store.v — derived databases (C15): a store of independent tables.
   pdb2sqlcore.py __call__, interface.py __init__, many2sql.py __init__/convert_input all
   build the new object from the *text* sql2pdb() of the (selected) source rows:
   snapshot = parse (export rows).  Each object owns its own sqlite3 connection. *)
From Verif Require Import PyLib ModelTypes Generated_parse Generated_export Model_parse Model_export.
Open Scope string_scope.

Definition snapshot (rows : list row) : res (list row) :=
  do ls <- export rows; do r <- parse_lines ls 0; Ok (fst r).

(* the store: object id = position *)
Definition store := list (list row).
Fixpoint set_nth {A} (n : nat) (x : A) (l : list A) : list A :=
  match l, n with
  | [], _ => []
  | _ :: t, O => x :: t
  | y :: t, S k => y :: set_nth k x t
  end.
Inductive op :=
| OSetCell (obj rowpos col : nat) (v : val)          (* any modification is a sequence of cell writes *)
| ODerive (src : nat) (sel : list nat).              (* new object from the rows at positions sel *)
Definition select (sel : list nat) (t : list row) : list row :=
  flat_map (fun i => match nth_error t i with Some r => [r] | None => [] end) sel.
Definition step (s : store) (o : op) : res store :=
  match o with
  | OSetCell obj rp col v =>
    match nth_error s obj with
    | Some t =>
      match nth_error t rp with
      | Some r => Ok (set_nth obj (set_nth rp (set_nth col v r) t) s)
      | None => Ok s
      end
    | None => Err "NoSuchObject"
    end
  | ODerive src sel =>
    match nth_error s src with
    | Some t => do t' <- snapshot (select sel t); Ok (s ++ [t'])%list
    | None => Err "NoSuchObject"
    end
  end.
Fixpoint run_ops (s : store) (ops : list op) : res store :=
  match ops with [] => Ok s | o :: t => do s' <- step s o; run_ops s' t end.
