(* Proofs_rmsd_def.v — C07: the SQL i-RMSD IS its definition.  For ANY decoy (records in any order, atoms or residues missing)
   with the same two chains as the reference and residue names consistent with it, compute_irmsd_pdb2sql with zone z fits and
   measures exactly on the specification's pairs: the backbone atoms of the zone residues of the reference, each paired with
   the decoy atom of the same (chain, residue number, atom name), atoms without a partner left out. *)
From Coq Require Import Lia.
From Verif Require Import PyLib ModelTypes Model_contact Model_many Model_superpose Spec_superpose Model_zone Model_rmsd Spec_rmsd
  Proofs_contact_spec Proofs_superpose Proofs_rmsd Proofs_zone_source.
Open Scope string_scope.
Open Scope list_scope.

Lemma bb_orders a : mem String.eqb (name a) ["C"; "CA"; "N"; "O"] = is_backbone a.
Proof.
  unfold is_backbone, mem. cbn [existsb]. rewrite !orb_false_r.
  destruct (String.eqb (name a) "C"), (String.eqb (name a) "CA"), (String.eqb (name a) "N"), (String.eqb (name a) "O"); reflexivity.
Qed.

Lemma izone_rows_are_spec_selection z ref :
  izone_rows_from_zone z ref = filter (fun r => (is_backbone r && in_zone z r)%bool) ref.
Proof.
  unfold izone_rows_from_zone. apply filter_ext. intro a.
  change (match in_resdata (resdata_of z) (chain a) with Some l => mem Z.eqb (resSeq a) l | None => false end)
    with (memG (resdata_of z) (chain a) (resSeq a)).
  unfold resdata_of. rewrite memG_group, bb_orders. unfold in_zone. apply andb_comm.
Qed.

Theorem irmsd_sql_is_definition rmat z decoy ref :
  get_chains decoy = get_chains ref ->
  Forall (names_consistent decoy) (izone_rows_from_zone z ref) ->
  irmsd_sql rmat (izone_rows_from_zone z ref) decoy ref
  = (let pairs := irmsd_pairs_spec z decoy ref in
     match pairs with
     | [] => Err "ValueError"
     | _ => msd (map (mv rmat) (centred (map fst pairs))) (centred (map snd pairs))
     end).
Proof.
  intros Hc Hn. unfold irmsd_sql. rewrite Hc.
  assert (LE : list_eqb String.eqb (get_chains ref) (get_chains ref) = true).
  { generalize (get_chains ref). intro l. induction l as [|x t IH]; [reflexivity|]. cbn [list_eqb]. rewrite String.eqb_refl, IH. reflexivity. }
  rewrite LE. cbn [negb].
  rewrite (sql_route_pairs_by_identity _ decoy Hn).
  unfold irmsd_pairs_spec. rewrite identity_pairs_filter, <- izone_rows_are_spec_selection. reflexivity.
Qed.
