(* Proofs_contact_c05.v — get_contact_atoms (model) = the specification of C05, for every symmetric
   distance test, every option combination, any number of chains and atoms. *)
From Coq Require Import Lia Sorted Permutation.
From Verif Require Import PyLib Generated_parse Generated_contact Model_contact Spec_contact
  Proofs_contact_lists Proofs_contact_spec.
Open Scope Z_scope.
Open Scope list_scope.

(* the table is well formed: row ids strictly increase along the table (idx = position does) *)
Definition wf (s : structure) : Prop := StronglySorted Z.lt (map idx s).

Lemma wf_NoDup s : wf s -> NoDup (map idx s).
Proof. apply sorted_lt_NoDup. Qed.
Lemma NoDup_map_inj {A B} (f : A -> B) l x y : NoDup (map f l) -> In x l -> In y l -> f x = f y -> x = y.
Proof.
  induction l as [|z t IH]; simpl; intros ND Hx Hy E; [destruct Hx|].
  inversion ND as [|? ? Hn ND']; subst.
  destruct Hx as [Hx|Hx], Hy as [Hy|Hy]; subst.
  - reflexivity.
  - exfalso; apply Hn. rewrite E. apply in_map; exact Hy.
  - exfalso; apply Hn. rewrite <- E. apply in_map; exact Hx.
  - apply IH; assumption.
Qed.
Lemma wf_inj s a b : wf s -> In a s -> In b s -> idx a = idx b -> a = b.
Proof. intro W. apply NoDup_map_inj. apply wf_NoDup; exact W. Qed.

Lemma chain_atoms_In s c a : In a (chain_atoms s c) <-> In a s /\ chain a = c.
Proof. unfold chain_atoms. rewrite filter_In, String.eqb_eq. reflexivity. Qed.

Section C05.
  Variable close : atom -> atom -> bool.
  Hypothesis close_sym : forall a b, close a b = close b a.
  Variables (obb exh : bool).
  Variable s : structure.
  Notation ok := (passes obb exh).

  (* partners of atom a among the atoms of chain c2 *)
  Definition P (c2 : string) (a : atom) : list Z :=
    map idx (filter (keep2 obb exh) (filter (close a) (chain_atoms s c2))).
  Definition good (c2 : string) (a : atom) : bool := (ok a && negb (is_nil (P c2 a)))%bool.

  Lemma P_filter c2 a :
    P c2 a = map idx (filter (fun b => (String.eqb (chain b) c2 && ok b && close a b)%bool) s).
  Proof.
    unfold P, chain_atoms. rewrite !filter_filter. f_equal. apply filter_ext. intro b.
    rewrite keep2_passes. destruct (String.eqb (chain b) c2), (close a b), (ok b); reflexivity.
  Qed.
  Lemma P_In c2 a i : In i (P c2 a) <-> exists b, In b s /\ chain b = c2 /\ ok b = true /\ close a b = true /\ idx b = i.
  Proof.
    rewrite P_filter, in_map_iff. split.
    - intros [b [E Hb]]. apply filter_In in Hb. destruct Hb as [Hb C].
      rewrite !Bool.andb_true_iff, String.eqb_eq in C. exists b; tauto.
    - intros [b [Hb [C [O [Cl E]]]]]. exists b; split; [exact E|]. apply filter_In; split; [exact Hb|].
      rewrite !Bool.andb_true_iff, String.eqb_eq. tauto.
  Qed.

  Lemma atom_step_eq c1 c2 st a :
    atom_step close obb exh c1 c2 (chain_atoms s c2) st a =
    if good c2 a
    then (dext String.eqb c2 (P c2 a) (dext String.eqb c1 [idx a] (fst st)), dext Z.eqb (idx a) (P c2 a) (snd st))
    else st.
  Proof.
    unfold atom_step, good, passes, P. rewrite is_H_spec, is_bb_spec.
    set (contacts := filter (close a) (chain_atoms s c2)).
    destruct (exh && is_hydrogen a)%bool; simpl.
    - rewrite Bool.andb_false_r. reflexivity.
    - rewrite Bool.andb_true_r. destruct (negb obb || is_backbone a)%bool; simpl.
      + rewrite Bool.andb_true_r. destruct contacts; reflexivity.
      + rewrite Bool.andb_false_r. reflexivity.
  Qed.

  (* contribution of one chain pair to index_contact[c] and to index_contact_pairs[k] *)
  Definition contrib (c : string) (cc : string * string) : list Z :=
    flat_map (fun a => if good (snd cc) a
                       then (if String.eqb c (fst cc) then [idx a] else []) ++ (if String.eqb c (snd cc) then P (snd cc) a else [])
                       else []) (chain_atoms s (fst cc)).
  Definition pcontrib (k : Z) (cc : string * string) : list Z :=
    flat_map (fun a => if (good (snd cc) a && Z.eqb k (idx a))%bool then P (snd cc) a else []) (chain_atoms s (fst cc)).

  Lemma fold_atoms_look c1 c2 l st :
    let st' := fold_left (atom_step close obb exh c1 c2 (chain_atoms s c2)) l st in
    (forall c, dlook String.eqb c (fst st') = dlook String.eqb c (fst st) ++
       flat_map (fun a => if good c2 a
                          then (if String.eqb c c1 then [idx a] else []) ++ (if String.eqb c c2 then P c2 a else [])
                          else []) l) /\
    (forall k, dlook Z.eqb k (snd st') = dlook Z.eqb k (snd st) ++
       flat_map (fun a => if (good c2 a && Z.eqb k (idx a))%bool then P c2 a else []) l) /\
    (forall c, In c (map fst (fst st')) <-> In c (map fst (fst st)) \/ (exists a, In a l /\ good c2 a = true /\ (c = c1 \/ c = c2))).
  Proof.
    revert st; induction l as [|a t IH]; intro st; simpl.
    - split; [|split]; intros; rewrite ?app_nil_r; try reflexivity.
      split; [intro H; left; exact H | intros [H|[a [[] _]]]; exact H].
    - destruct (IH (atom_step close obb exh c1 c2 (chain_atoms s c2) st a)) as [A [B C]].
      split; [|split].
      + intro c. rewrite A, atom_step_eq. destruct (good c2 a); simpl; [|reflexivity].
        rewrite !(dlook_dext' String.eqb Seqb_ok). rewrite <- !app_assoc. reflexivity.
      + intro k. rewrite B, atom_step_eq. destruct (good c2 a); simpl; [|reflexivity].
        rewrite (dlook_dext' Z.eqb Zeqb_ok). rewrite <- !app_assoc. reflexivity.
      + intro c. rewrite C, atom_step_eq. destruct (good c2 a) eqn:G; simpl.
        * unfold dext. rewrite !(keys_In_dupd String.eqb Seqb_ok). split.
          -- intros [[[H|H]|H]|[a' [Ha' R]]].
             ++ left; exact H.
             ++ right; exists a; split; [left; reflexivity | split; [exact G | left; exact H]].
             ++ right; exists a; split; [left; reflexivity | split; [exact G | right; exact H]].
             ++ right; exists a'; split; [right; exact Ha' | exact R].
          -- intros [H|[a' [[E|Ha'] [G' R]]]].
             ++ left; left; left; exact H.
             ++ subst a'. destruct R as [R|R]; [left; left; right; exact R | left; right; exact R].
             ++ right; exists a'; split; [exact Ha' | split; [exact G' | exact R]].
        * split.
          -- intros [H|[a' [Ha' R]]]; [left; exact H | right; exists a'; split; [right; exact Ha' | exact R]].
          -- intros [H|[a' [[E|Ha'] [G' R]]]]; [left; exact H | subst; congruence | right; exists a'; split; [exact Ha'|split; assumption]].
  Qed.

  Lemma pair_step_look st cc :
    let st' := pair_step close obb exh s st cc in
    (forall c, dlook String.eqb c (fst st') = dlook String.eqb c (fst st) ++ contrib c cc) /\
    (forall k, dlook Z.eqb k (snd st') = dlook Z.eqb k (snd st) ++ pcontrib k cc) /\
    (forall c, In c (map fst (fst st')) <-> In c (map fst (fst st)) \/ c = fst cc \/ c = snd cc).
  Proof.
    destruct cc as [c1 c2]. unfold pair_step, contrib, pcontrib; simpl fst; simpl snd.
    destruct (fold_atoms_look c1 c2 (chain_atoms s c1)
                (dext String.eqb c2 [] (dext String.eqb c1 [] (fst st)), snd st)) as [A [B C]].
    split; [|split].
    - intro c. rewrite A. simpl fst. rewrite !(dlook_dext' String.eqb Seqb_ok).
      destruct (String.eqb c c1), (String.eqb c c2); rewrite ?app_nil_r; reflexivity.
    - intro k. rewrite B. reflexivity.
    - intro c. rewrite C. simpl fst. unfold dext. rewrite !(keys_In_dupd String.eqb Seqb_ok). split.
      + intros [[[H|H]|H]|[a [_ [_ [H|H]]]]]; auto.
      + intros [H|[H|H]]; auto.
  Qed.

  Lemma fold_pairs_look ccs st :
    let st' := fold_left (pair_step close obb exh s) ccs st in
    (forall c, dlook String.eqb c (fst st') = dlook String.eqb c (fst st) ++ flat_map (contrib c) ccs) /\
    (forall k, dlook Z.eqb k (snd st') = dlook Z.eqb k (snd st) ++ flat_map (pcontrib k) ccs) /\
    (forall c, In c (map fst (fst st')) <-> In c (map fst (fst st)) \/ exists cc, In cc ccs /\ (c = fst cc \/ c = snd cc)).
  Proof.
    revert st; induction ccs as [|cc t IH]; intro st; simpl.
    - split; [|split]; intros; rewrite ?app_nil_r; try reflexivity.
      split; [intro H; left; exact H | intros [H|[cc [[] _]]]; exact H].
    - destruct (IH (pair_step close obb exh s st cc)) as [A [B C]].
      destruct (pair_step_look st cc) as [A1 [B1 C1]].
      split; [|split].
      + intro c. rewrite A, A1, <- app_assoc. reflexivity.
      + intro k. rewrite B, B1, <- app_assoc. reflexivity.
      + intro c. rewrite C, C1. split.
        * intros [[H|H]|[cc' [H R]]]; [left; exact H | right; exists cc; split; [left; reflexivity | exact H]
                                       | right; exists cc'; split; [right; exact H | exact R]].
        * intros [H|[cc' [[E|H] R]]]; [left; left; exact H | subst; left; right; exact R | right; exists cc'; split; assumption].
  Qed.

  Lemma good_iff c2 a :
    good c2 a = true <-> ok a = true /\ exists b, In b s /\ chain b = c2 /\ ok b = true /\ close a b = true.
  Proof.
    unfold good. rewrite Bool.andb_true_iff, Bool.negb_true_iff, is_nil_false, not_nil_ex.
    split; intros [A [i Hi]]; split; try exact A.
    - apply P_In in Hi. destruct Hi as [b Hb]. exists b; tauto.
    - destruct Hi as [Hb [C [O Cl]]]. exists (idx i). apply P_In. exists i; tauto.
  Qed.

  Lemma contrib_In c cc i :
    In i (contrib c cc) <->
    exists a, In a s /\ chain a = fst cc /\ good (snd cc) a = true /\
              ((c = fst cc /\ i = idx a) \/ (c = snd cc /\ In i (P (snd cc) a))).
  Proof.
    unfold contrib. rewrite in_flat_map. split.
    - intros [a [Ha H]]. apply chain_atoms_In in Ha. destruct Ha as [Ha C].
      destruct (good (snd cc) a) eqn:G; [|destruct H].
      exists a. split; [exact Ha | split; [exact C | split; [exact G|]]].
      apply in_app_iff in H. destruct H as [H|H].
      + destruct (String.eqb c (fst cc)) eqn:E; [|destruct H].
        apply String.eqb_eq in E. destruct H as [H|[]]. left; split; [exact E | symmetry; exact H].
      + destruct (String.eqb c (snd cc)) eqn:E; [|destruct H].
        apply String.eqb_eq in E. right; split; assumption.
    - intros [a [Ha [C [G H]]]]. exists a. split; [apply chain_atoms_In; split; assumption|].
      rewrite G. apply in_app_iff. destruct H as [[E H]|[E H]].
      + left. subst c. rewrite String.eqb_refl. left; symmetry; exact H.
      + right. subst c. rewrite String.eqb_refl. exact H.
  Qed.

  Lemma acc_In cs c i : NoDup cs -> In c cs ->
    (In i (flat_map (contrib c) (combinations2 cs)) <->
     exists a, In a s /\ idx a = i /\ contact_atomb close obb exh s cs c a = true).
  Proof.
    intros ND Hc. rewrite in_flat_map. split.
    - intros [[c1 c2] [Hcc H]]. apply (comb_iff cs c1 c2 ND) in Hcc. destruct Hcc as [H1 H2].
      apply contrib_In in H. simpl in H. destruct H as [a [Ha [C [G H]]]].
      apply good_iff in G. destruct G as [Oa [b [Hb [Cb [Ob Cl]]]]].
      pose proof (after_NoDup_neq c1 cs c2 ND H2) as N.
      destruct H as [[E H]|[E H]].
      + subst c i. exists a. split; [exact Ha | split; [reflexivity|]].
        apply contact_atomb_iff. split; [exact C | split; [exact Oa|]].
        exists b. split; [exact Hb | split; [congruence | split; [rewrite Cb; eapply after_In; exact H2 | split; assumption]]].
      + subst c. apply P_In in H. destruct H as [b' [Hb' [Cb' [Ob' [Cl' E]]]]].
        exists b'. split; [exact Hb' | split; [exact E|]].
        apply contact_atomb_iff. split; [exact Cb' | split; [exact Ob'|]].
        exists a. split; [exact Ha | split; [congruence | split; [rewrite C; exact H1 | split; [exact Oa | rewrite close_sym; exact Cl']]]].
    - intros [a [Ha [E H]]]. apply contact_atomb_iff in H.
      destruct H as [C [Oa [b [Hb [N [Hcb [Ob Cl]]]]]]].
      destruct (after_total c (chain b) cs Hc Hcb (fun F => N (eq_sym F))) as [A|A].
      + exists (c, chain b). split; [apply (comb_iff cs _ _ ND); split; assumption|].
        apply contrib_In; simpl. exists a. split; [exact Ha | split; [exact C | split]].
        * apply good_iff. split; [exact Oa|]. exists b; tauto.
        * left; split; [reflexivity | symmetry; exact E].
      + exists (chain b, c). split; [apply (comb_iff cs _ _ ND); split; assumption|].
        apply contrib_In; simpl. exists b. split; [exact Hb | split; [reflexivity | split]].
        * apply good_iff. split; [exact Ob|]. exists a. rewrite close_sym. tauto.
        * right; split; [reflexivity|]. apply P_In. exists a. rewrite close_sym. tauto.
  Qed.

  (* interface.py:151-152 *)
  Lemma uniques_ok cs ic :
    (forall c, In c cs -> In c (map fst ic)) ->
    exists ic', uniques cs ic = Ok ic' /\ map fst ic' = map fst ic /\
      forall c, dlook String.eqb c ic' = if mem String.eqb c cs then sorted_set_Z (dlook String.eqb c ic) else dlook String.eqb c ic.
  Proof.
    revert ic; induction cs as [|c0 t IH]; intros ic H; simpl.
    - exists ic. split; [reflexivity | split; [reflexivity | intro c; reflexivity]].
    - destruct (dget String.eqb c0 ic) as [v|] eqn:G.
      2:{ exfalso. apply (dget_None_keys String.eqb Seqb_ok) in G. apply G, H. left; reflexivity. }
      set (ic1 := dupd String.eqb c0 (fun _ => sorted_set_Z v) ic).
      assert (K1 : map fst ic1 = map fst ic).
      { apply (keys_dupd_present String.eqb Seqb_ok). apply H; left; reflexivity. }
      destruct (IH ic1) as [ic' [E [K L]]].
      { intros c Hc. rewrite K1. apply H; right; exact Hc. }
      exists ic'. split; [exact E | split; [rewrite K; exact K1|]].
      intro c. rewrite L. unfold ic1. rewrite (dlook_dupd_const String.eqb Seqb_ok).
      unfold mem; simpl. destruct (String.eqb c c0) eqn:E0; simpl.
      + apply String.eqb_eq in E0; subst c0. assert (V : dlook String.eqb c ic = v) by (unfold dlook; rewrite G; reflexivity).
        rewrite V. destruct (existsb (String.eqb c) t); [apply sorted_set_Z_idem | reflexivity].
      + reflexivity.
  Qed.

  (* ---- the key order of index_contact: insertion order = order of chainIDs ---- *)
  Definition add_key (k : string) (ks : list string) : list string :=
    if mem String.eqb k ks then ks else ks ++ [k].
  Definition addk (ks : list string) (cc : string * string) : list string := add_key (snd cc) (add_key (fst cc) ks).

  Lemma add_key_present k ks : In k ks -> add_key k ks = ks.
  Proof. intro H. unfold add_key. apply (mem_In String.eqb Seqb_ok) in H. rewrite H. reflexivity. Qed.
  Lemma add_key_fresh k ks : ~ In k ks -> add_key k ks = ks ++ [k].
  Proof. intro H. unfold add_key. apply (mem_false String.eqb Seqb_ok) in H. rewrite H. reflexivity. Qed.

  Lemma fold_atoms_keys c1 c2 l st :
    In c1 (map fst (fst st)) -> In c2 (map fst (fst st)) ->
    map fst (fst (fold_left (atom_step close obb exh c1 c2 (chain_atoms s c2)) l st)) = map fst (fst st).
  Proof.
    revert st; induction l as [|a t IH]; intros st H1 H2; cbn [fold_left]; [reflexivity|].
    assert (E : map fst (fst (atom_step close obb exh c1 c2 (chain_atoms s c2) st a)) = map fst (fst st)).
    { rewrite atom_step_eq. destruct (good c2 a); [|reflexivity]. simpl. unfold dext.
      rewrite (keys_dupd_present String.eqb Seqb_ok); rewrite (keys_dupd_present String.eqb Seqb_ok); auto. }
    rewrite IH; [exact E | exact (eq_ind_r (fun l => In c1 l) H1 E) | exact (eq_ind_r (fun l => In c2 l) H2 E)].
  Qed.
  Lemma pair_step_keys st cc :
    map fst (fst (pair_step close obb exh s st cc)) = addk (map fst (fst st)) cc.
  Proof.
    destruct cc as [c1 c2]. unfold pair_step, addk; simpl fst; simpl snd.
    rewrite fold_atoms_keys; simpl fst; unfold dext.
    - rewrite !(keys_dupd String.eqb). reflexivity.
    - apply (keys_In_dupd String.eqb Seqb_ok). left. apply (keys_In_dupd String.eqb Seqb_ok). right; reflexivity.
    - apply (keys_In_dupd String.eqb Seqb_ok). right; reflexivity.
  Qed.
  Lemma fold_pairs_keys ccs st :
    map fst (fst (fold_left (pair_step close obb exh s) ccs st)) = fold_left addk ccs (map fst (fst st)).
  Proof.
    revert st; induction ccs as [|cc t IH]; intro st; simpl; [reflexivity|].
    rewrite IH, pair_step_keys. reflexivity.
  Qed.

  Lemma addk_stable ccs ks :
    (forall cc, In cc ccs -> In (fst cc) ks /\ In (snd cc) ks) -> fold_left addk ccs ks = ks.
  Proof.
    induction ccs as [|cc t IH]; simpl; intro H; [reflexivity|].
    destruct (H cc (or_introl eq_refl)) as [A B].
    unfold addk at 2. rewrite (add_key_present _ _ A), (add_key_present _ _ B).
    apply IH. intros cc' Hc; apply H; right; exact Hc.
  Qed.
  Lemma addk_row x t pre :
    NoDup t -> (forall y, In y t -> y <> x /\ ~ In y pre) ->
    fold_left addk (map (pair x) t) (x :: pre) = x :: pre ++ t.
  Proof.
    revert pre; induction t as [|y t IH]; intros pre ND H; simpl; [rewrite app_nil_r; reflexivity|].
    inversion ND as [|? ? Hn ND']; subst.
    destruct (H y (or_introl eq_refl)) as [Nx Np].
    unfold addk at 2; simpl fst; simpl snd.
    rewrite (add_key_present x (x :: pre)) by (left; reflexivity).
    rewrite (add_key_fresh y (x :: pre)) by (intros [F|F]; [apply Nx; symmetry; exact F | exact (Np F)]).
    change ((x :: pre) ++ [y]) with (x :: (pre ++ [y])).
    rewrite IH; [rewrite <- app_assoc; reflexivity | exact ND'|].
    intros z Hz. destruct (H z (or_intror Hz)) as [A B]. split; [exact A|].
    rewrite in_app_iff. intros [F|[F|[]]]; [exact (B F) | subst; contradiction].
  Qed.
  Lemma addk_combinations cs : NoDup cs -> (2 <= List.length cs)%nat -> fold_left addk (combinations2 cs) [] = cs.
  Proof.
    intros ND L. destruct cs as [|x [|y t]]; simpl in L; try lia.
    inversion ND as [|? ? Hn ND']; subst.
    change (combinations2 (x :: y :: t)) with (map (pair x) (y :: t) ++ combinations2 (y :: t)).
    rewrite fold_left_app. simpl map. simpl fold_left at 2.
    assert (E0 : addk [] (x, y) = [x; y]).
    { unfold addk; simpl fst; simpl snd. rewrite (add_key_fresh x []) by (intros []). simpl.
      rewrite (add_key_fresh y [x]); [reflexivity|]. intros [F|[]]. apply Hn; left; symmetry; exact F. }
    rewrite E0. inversion ND' as [|? ? Hn' ND'']; subst.
    rewrite (addk_row x t [y] ND'').
    - apply addk_stable. intros [c1 c2] Hcc. apply comb_In in Hcc. simpl. split; right; tauto.
    - intros z Hz. split; [intros ->; apply Hn; right; exact Hz | intros [F|[]]; subst; contradiction].
  Qed.

  (* ---- C05: the contact atoms of every requested chain are exactly the specified ones ---- *)
  Definition final_state (cs : list string) := fold_left (pair_step close obb exh s) (combinations2 cs) ([], []).

  Lemma uniques_exact cs : wf s -> NoDup cs -> (2 <= List.length cs)%nat ->
    uniques cs (fst (final_state cs)) = Ok (spec_atoms_dict close obb exh s cs).
  Proof.
    intros W ND L. unfold final_state.
    destruct (fold_pairs_look (combinations2 cs) ([], [])) as [A [_ _]].
    pose proof (fold_pairs_keys (combinations2 cs) ([], [])) as K. simpl in K. rewrite (addk_combinations cs ND L) in K.
    set (st := fold_left (pair_step close obb exh s) (combinations2 cs) ([], [])) in *.
    destruct (uniques_ok cs (fst st)) as [ic' [E [K' Lk]]].
    { intros c Hc. rewrite K. exact Hc. }
    rewrite E. f_equal.
    rewrite (dict_by_lookup String.eqb Seqb_ok ic') by (rewrite K', K; exact ND).
    rewrite K', K. unfold spec_atoms_dict. apply map_ext_in. intros c Hc. f_equal.
    rewrite Lk. rewrite (proj2 (mem_In String.eqb Seqb_ok c cs) Hc). rewrite A. simpl.
    apply sorted_set_Z_eq.
    - unfold spec_atoms. apply sorted_map_filter. exact W.
    - intro i. rewrite (acc_In cs c i ND Hc). unfold spec_atoms. rewrite in_map_iff. split.
      + intros [a [Ha [Ei H]]]. exists a; split; [exact Ei | apply filter_In; split; assumption].
      + intros [a [Ei H]]. apply filter_In in H. exists a; tauto.
  Qed.

  (* ---- get_chains ---- *)
  Lemma get_chains_In c : In c (get_chains s) <-> In c (map chain s).
  Proof. unfold get_chains, sorted_set_str. rewrite sort_by_In. apply (dedup_In String.eqb Seqb_ok). Qed.
  Lemma get_chains_NoDup : NoDup (get_chains s).
  Proof. unfold get_chains, sorted_set_str. apply sort_by_NoDup, (dedup_NoDup String.eqb Seqb_ok). Qed.

  Lemma get_contact_atoms_eq (allch : bool) (c1 c2 : string) :
    let cs := if allch then get_chains s else [c1; c2] in
    wf s -> NoDup cs -> (2 <= List.length cs)%nat -> (forall c, In c cs -> In c (map chain s)) ->
    get_contact_atoms close obb exh s allch c1 c2 false =
    Ok (spec_atoms_dict close obb exh s cs, snd (final_state cs)).
  Proof.
    intros cs W ND L Hp. unfold get_contact_atoms. fold cs.
    assert (F : forallb (fun c => mem String.eqb c (get_chains s)) cs = true).
    { apply forallb_forall. intros c Hc. apply (mem_In String.eqb Seqb_ok). apply get_chains_In, Hp, Hc. }
    rewrite F. simpl negb. cbv iota.
    fold (final_state cs). rewrite (uniques_exact cs W ND L). reflexivity.
  Qed.

  (* a missing chain is rejected before anything is computed *)
  Lemma get_contact_atoms_missing c1 c2 ext :
    ~ (In c1 (map chain s) /\ In c2 (map chain s)) ->
    get_contact_atoms close obb exh s false c1 c2 ext = Err "ValueError".
  Proof.
    intro H. unfold get_contact_atoms.
    assert (F : forallb (fun c => mem String.eqb c (get_chains s)) [c1; c2] = false).
    { destruct (forallb _ _) eqn:E; [|reflexivity]. exfalso. apply H.
      rewrite forallb_forall in E.
      split; apply get_chains_In; apply (mem_In String.eqb Seqb_ok); apply E; simpl; auto. }
    rewrite F. reflexivity.
  Qed.

  (* ---- the pair map of a two-chain request, as a list ---- *)
  Lemma fold_atoms_pm_fresh c1 c2 l st :
    NoDup (map idx l) -> (forall a, In a l -> ~ In (idx a) (map fst (snd st))) ->
    snd (fold_left (atom_step close obb exh c1 c2 (chain_atoms s c2)) l st) =
    snd st ++ flat_map (fun a => if good c2 a then [(idx a, P c2 a)] else []) l.
  Proof.
    revert st; induction l as [|a t IH]; intros st ND H; cbn [fold_left flat_map]; [rewrite app_nil_r; reflexivity|].
    inversion ND as [|? ? Hn ND']; subst.
    rewrite IH; [|exact ND'|].
    - rewrite atom_step_eq. destruct (good c2 a); [|reflexivity]. simpl snd.
      rewrite (dext_fresh Z.eqb Zeqb_ok) by (apply H; left; reflexivity).
      rewrite <- app_assoc. reflexivity.
    - intros a' Ha'. rewrite atom_step_eq. destruct (good c2 a); [|apply H; right; exact Ha'].
      simpl snd. rewrite (dext_fresh Z.eqb Zeqb_ok) by (apply H; left; reflexivity).
      rewrite map_app, in_app_iff. simpl. intros [F|[F|[]]].
      + exact (H a' (or_intror Ha') F).
      + apply Hn. rewrite F. apply in_map; exact Ha'.
  Qed.

  Lemma two_chain_pm c1 c2 : wf s -> c1 <> c2 ->
    snd (final_state [c1; c2]) = spec_pairs close obb exh s [c1; c2].
  Proof.
    intros W N. unfold final_state. cbn [combinations2 map app fold_left]. unfold pair_step.
    rewrite fold_atoms_pm_fresh.
    - cbn [snd app]. unfold chain_atoms at 1. rewrite flat_map_filter. unfold spec_pairs.
      apply flat_map_ext_in. intros a Ha. unfold inb. cbn [existsb].
      destruct (String.eqb (chain a) c1) eqn:E1.
      + cbn [orb]. unfold good.
        assert (EP : partners close obb exh s [c1; c2] a = P c2 a).
        { rewrite P_filter. unfold partners. f_equal. apply filter_ext. intro b. unfold partnerb.
          cbn [after]. rewrite E1. unfold inb. cbn [existsb]. rewrite Bool.orb_false_r. reflexivity. }
        rewrite EP. destruct (ok a); cbn [andb]; [|reflexivity].
        destruct (P c2 a); reflexivity.
      + assert (EP : partners close obb exh s [c1; c2] a = []).
        { unfold partners. rewrite filter_all_false; [reflexivity|]. intros b _. unfold partnerb. cbn [after]. rewrite E1.
          destruct (String.eqb (chain a) c2); reflexivity. }
        rewrite EP. destruct ((false || (String.eqb (chain a) c2 || false)) && ok a)%bool; reflexivity.
    - apply sorted_lt_NoDup. unfold chain_atoms. apply sorted_map_filter. exact W.
    - intros a _ [].
  Qed.

  (* ---- the pair map for any list of distinct chains (in particular: all chains) ---- *)
  Definition pm_inv (pm : pmap) : Prop :=
    NoDup (map fst pm) /\ forall k l, dget Z.eqb k pm = Some l -> l <> [].

  Lemma pm_inv_dext k l pm : l <> [] -> pm_inv pm -> pm_inv (dext Z.eqb k l pm).
  Proof.
    intros Hl [ND NE]. split; [apply (NoDup_keys_dupd Z.eqb Zeqb_ok); exact ND|].
    intros k' l'. unfold dext. rewrite (dget_dupd Z.eqb Zeqb_ok). destruct (Z.eqb k' k).
    - intro E; inversion E; subst. destruct (dget Z.eqb k pm); [|exact Hl].
      intro F. apply app_eq_nil in F. destruct F as [_ F]. exact (Hl F).
    - apply NE.
  Qed.
  Lemma good_P_nonnil c2 a : good c2 a = true -> P c2 a <> [].
  Proof. unfold good. rewrite Bool.andb_true_iff, Bool.negb_true_iff, is_nil_false. tauto. Qed.
  Lemma fold_atoms_inv c1 c2 l st :
    pm_inv (snd st) -> pm_inv (snd (fold_left (atom_step close obb exh c1 c2 (chain_atoms s c2)) l st)).
  Proof.
    revert st; induction l as [|a t IH]; intros st H; cbn [fold_left]; [exact H|].
    apply IH. rewrite atom_step_eq. destruct (good c2 a) eqn:G; [|exact H].
    simpl snd. apply pm_inv_dext; [apply good_P_nonnil; exact G | exact H].
  Qed.
  Lemma fold_pairs_inv ccs st :
    pm_inv (snd st) -> pm_inv (snd (fold_left (pair_step close obb exh s) ccs st)).
  Proof.
    revert st; induction ccs as [|[c1 c2] t IH]; intros st H; cbn [fold_left]; [exact H|].
    apply IH. unfold pair_step. apply fold_atoms_inv. exact H.
  Qed.
  Lemma final_inv cs : pm_inv (snd (final_state cs)).
  Proof. apply fold_pairs_inv. split; [constructor | intros k l; discriminate]. Qed.

  Lemma flat_map_nil {A B} (f : A -> list B) l : (forall x, In x l -> f x = []) -> flat_map f l = [].
  Proof.
    induction l as [|x t IH]; simpl; intro H; [reflexivity|].
    rewrite (H x (or_introl eq_refl)), IH; [reflexivity|]. intros y Hy; apply H; right; exact Hy.
  Qed.
  Lemma flat_map_pick (G : atom -> list Z) l a :
    NoDup (map idx l) -> In a l ->
    flat_map (fun a' => if Z.eqb (idx a) (idx a') then G a' else []) l = G a.
  Proof.
    induction l as [|x t IH]; simpl; intros ND Ha; [destruct Ha|].
    inversion ND as [|? ? Hn ND']; subst.
    destruct Ha as [Ha|Ha].
    - subst x. rewrite Z.eqb_refl. rewrite flat_map_nil; [apply app_nil_r|].
      intros y Hy. destruct (Z.eqb (idx a) (idx y)) eqn:E; [|reflexivity].
      apply Z.eqb_eq in E. exfalso; apply Hn. rewrite E. apply in_map; exact Hy.
    - destruct (Z.eqb (idx a) (idx x)) eqn:E.
      + apply Z.eqb_eq in E. exfalso; apply Hn. rewrite <- E. apply in_map; exact Ha.
      + simpl. apply IH; assumption.
  Qed.

  Lemma pcontrib_pick a cc : wf s -> In a s ->
    pcontrib (idx a) cc = if String.eqb (chain a) (fst cc) then (if good (snd cc) a then P (snd cc) a else []) else [].
  Proof.
    intros W Ha. unfold pcontrib, chain_atoms. rewrite flat_map_filter.
    rewrite <- (flat_map_pick (fun a' => if String.eqb (chain a') (fst cc) then (if good (snd cc) a' then P (snd cc) a' else []) else []) s a (wf_NoDup s W) Ha).
    apply flat_map_ext. intro a'.
    destruct (String.eqb (chain a') (fst cc)), (good (snd cc) a'), (Z.eqb (idx a) (idx a')); reflexivity.
  Qed.

  Lemma comb_row (G : string -> list Z) c t :
    flat_map (fun cc : string * string => if String.eqb c (fst cc) then G (snd cc) else []) (map (pair c) t) = flat_map G t.
  Proof. induction t as [|y t IH]; simpl; [reflexivity|]. rewrite String.eqb_refl, IH. reflexivity. Qed.

  Lemma comb_select (G : string -> list Z) c cs : NoDup cs ->
    flat_map (fun cc : string * string => if String.eqb c (fst cc) then G (snd cc) else []) (combinations2 cs) =
    flat_map G (after c cs).
  Proof.
    induction cs as [|x t IH]; intro ND; [reflexivity|].
    inversion ND as [|? ? Hn ND']; subst.
    cbn [combinations2 after]. rewrite flat_map_app, (IH ND').
    destruct (String.eqb c x) eqn:E.
    - apply String.eqb_eq in E; subst x. rewrite (after_notin c t Hn). simpl. rewrite app_nil_r.
      apply comb_row.
    - rewrite flat_map_nil; [reflexivity|]. intros cc Hcc. apply in_map_iff in Hcc.
      destruct Hcc as [y [Ey _]]; subst cc. simpl. rewrite E. reflexivity.
  Qed.

  Lemma pm_lookup cs a : wf s -> NoDup cs -> In a s ->
    dlook Z.eqb (idx a) (snd (final_state cs)) =
    if ok a then flat_map (fun c2 => P c2 a) (after (chain a) cs) else [].
  Proof.
    intros W ND Ha. unfold final_state.
    destruct (fold_pairs_look (combinations2 cs) ([], [])) as [_ [B _]]. rewrite B. cbn [snd dlook dget app].
    rewrite (flat_map_ext _ (fun cc : string * string => if String.eqb (chain a) (fst cc) then (fun c2 => if good c2 a then P c2 a else []) (snd cc) else [])).
    2:{ intro cc. apply pcontrib_pick; assumption. }
    rewrite (comb_select (fun c2 => if good c2 a then P c2 a else []) (chain a) cs ND).
    unfold good. destruct (ok a); cbn [andb].
    - apply flat_map_ext. intro c2. destruct (P c2 a); reflexivity.
    - apply flat_map_nil. intros; reflexivity.
  Qed.

  Lemma P_partners_perm a later : NoDup later ->
    Permutation (flat_map (fun c2 => P c2 a) later)
                (map idx (filter (fun b => (inb (chain b) later && ok b && close a b)%bool) s)).
  Proof.
    induction later as [|c t IH]; intro ND.
    - simpl. rewrite filter_all_false; [constructor | intros; reflexivity].
    - inversion ND as [|? ? Hn ND']; subst. cbn [flat_map].
      rewrite (filter_ext _ (fun b => ((String.eqb (chain b) c && ok b && close a b) || (inb (chain b) t && ok b && close a b))%bool)).
      2:{ intro b. unfold inb. cbn [existsb]. destruct (String.eqb (chain b) c), (existsb (String.eqb (chain b)) t), (ok b), (close a b); reflexivity. }
      eapply Permutation_trans; [|apply Permutation_map, Permutation_sym, filter_or_perm].
      + rewrite map_app, <- P_filter. apply Permutation_app_head. exact (IH ND').
      + intros b _ Hp. rewrite !Bool.andb_true_iff, String.eqb_eq in Hp. destruct Hp as [[Hc _] _].
        assert (Hi : inb (chain b) t = false).
        { destruct (inb (chain b) t) eqn:E; [|reflexivity]. apply inb_In in E. rewrite Hc in E. contradiction. }
        rewrite Hi. reflexivity.
  Qed.

  Theorem pm_exact cs : wf s -> NoDup cs ->
    let pm := snd (final_state cs) in
    pm_inv pm /\
    (forall k, In k (map fst pm) -> exists a, In a s /\ idx a = k) /\
    (forall a, In a s ->
       Permutation (dlook Z.eqb (idx a) pm)
                   (if (inb (chain a) cs && ok a)%bool then partners close obb exh s cs a else [])).
  Proof.
    intros W ND pm. split; [apply final_inv | split].
    - intros k Hk. destruct (final_inv cs) as [NDk NE]. fold pm in NDk, NE.
      destruct (dget Z.eqb k pm) as [l|] eqn:G.
      2:{ apply (dget_None_keys Z.eqb Zeqb_ok) in G. contradiction. }
      pose proof (NE k l G) as Hl. apply not_nil_ex in Hl. destruct Hl as [i Hi].
      assert (Hd : In i (dlook Z.eqb k pm)) by (unfold dlook; rewrite G; exact Hi).
      unfold pm, final_state in Hd.
      destruct (fold_pairs_look (combinations2 cs) ([], [])) as [_ [B _]]. rewrite B in Hd. cbn [snd dlook dget app] in Hd.
      apply in_flat_map in Hd. destruct Hd as [cc [_ Hd]]. unfold pcontrib in Hd.
      apply in_flat_map in Hd. destruct Hd as [a [Ha Hd]]. apply chain_atoms_In in Ha.
      destruct (Z.eqb k (idx a)) eqn:E; [|rewrite Bool.andb_false_r in Hd; destruct Hd].
      apply Z.eqb_eq in E. exists a; split; [apply Ha | symmetry; exact E].
    - intros a Ha. unfold pm. rewrite (pm_lookup cs a W ND Ha).
      destruct (ok a); [|rewrite Bool.andb_false_r; constructor]. rewrite Bool.andb_true_r.
      destruct (inb (chain a) cs) eqn:Ec.
      + unfold partners. eapply Permutation_trans; [apply P_partners_perm; apply after_NoDup; exact ND|].
        unfold partnerb. apply Permutation_refl.
      + assert (Hn : ~ In (chain a) cs) by (intro F; apply inb_In in F; congruence).
        rewrite (after_notin _ _ Hn). constructor.
  Qed.

  (* Prop reading: b is listed under a exactly when (a, b) is a contacting pair with a's chain first; once *)
  Corollary pm_pairs_iff cs a b : wf s -> NoDup cs -> In a s -> In b s ->
    (In (idx b) (dlook Z.eqb (idx a) (snd (final_state cs))) <-> contact_pair close obb exh s cs a b).
  Proof.
    intros W ND Ha Hb. destruct (pm_exact cs W ND) as [_ [_ Pm]]. specialize (Pm a Ha). cbv zeta in Pm.
    unfold contact_pair. split.
    - intro H. apply (Permutation_in _ Pm) in H.
      destruct (inb (chain a) cs && ok a)%bool eqn:E; [|destruct H].
      apply Bool.andb_true_iff in E. destruct E as [E1 E2]. apply inb_In in E1.
      apply partners_In in H. destruct H as [b' [Hb' [Ei [A [O C]]]]].
      assert (b' = b) by (apply (wf_inj s); assumption). subst b'. tauto.
    - intros [_ [_ [Hc [A [Oa [Ob C]]]]]].
      apply (Permutation_in _ (Permutation_sym Pm)).
      rewrite (proj2 (inb_In _ _) Hc), Oa. cbn [andb]. apply partners_In. exists b; tauto.
  Qed.
  Corollary pm_values_NoDup cs a : wf s -> NoDup cs -> In a s ->
    NoDup (dlook Z.eqb (idx a) (snd (final_state cs))).
  Proof.
    intros W ND Ha. destruct (pm_exact cs W ND) as [_ [_ Pm]]. specialize (Pm a Ha). cbv zeta in Pm.
    eapply Permutation_NoDup; [apply Permutation_sym; exact Pm|].
    destruct (inb (chain a) cs && ok a)%bool; [|constructor].
    unfold partners. apply sorted_lt_NoDup, sorted_map_filter. exact W.
  Qed.
End C05.

(* ================================================================== *)
(* closed statements (the Section variables are now universally quantified) *)
Definition symmetric (close : atom -> atom -> bool) : Prop := forall a b, close a b = close b a.
Definition present (s : structure) (c : string) : Prop := In c (map chain s).

Lemma two_chain_exact close obb exh s c1 c2 :
  symmetric close -> wf s -> c1 <> c2 -> present s c1 -> present s c2 ->
  get_contact_atoms close obb exh s false c1 c2 false =
  Ok (spec_atoms_dict close obb exh s [c1; c2], spec_pairs close obb exh s [c1; c2]).
Proof.
  intros Sy W N H1 H2.
  rewrite (get_contact_atoms_eq close Sy obb exh s false c1 c2 W).
  - rewrite (two_chain_pm close obb exh s c1 c2 W N). reflexivity.
  - constructor; [intros [F|[]]; apply N; symmetry; exact F | constructor; [intros [] | constructor]].
  - simpl; lia.
  - intros c [E|[E|[]]]; subst; assumption.
Qed.

Lemma missing_chain_rejected close obb exh s c1 c2 ext :
  ~ (present s c1 /\ present s c2) -> get_contact_atoms close obb exh s false c1 c2 ext = Err "ValueError".
Proof. apply get_contact_atoms_missing. Qed.

Lemma existsb_ext' {A} (f g : A -> bool) l : (forall x, f x = g x) -> existsb f l = existsb g l.
Proof. intro H. induction l as [|x t IH]; simpl; [reflexivity|]. rewrite H, IH. reflexivity. Qed.

(* lookup in an association list that has at most one entry per atom *)
Lemma dlook_flat_single (c : atom -> bool) (F : atom -> list Z) l a :
  NoDup (map idx l) -> In a l ->
  dlook Z.eqb (idx a)
    (flat_map (fun x => if c x then match F x with [] => [] | v => [(idx x, v)] end else []) l) =
  if c a then F a else [].
Proof.
  assert (NK : forall t k, ~ In k (map idx t) ->
     ~ In k (map fst (flat_map (fun x => if c x then match F x with [] => [] | v => [(idx x, v)] end else []) t))).
  { intros t k Hn Hk. apply in_map_iff in Hk. destruct Hk as [[k' l'] [Ek Hk]]. simpl in Ek; subst k'.
    apply in_flat_map in Hk. destruct Hk as [y [Hy Hk]].
    destruct (c y); [|destruct Hk]. destruct (F y); [destruct Hk|]. destruct Hk as [Hk|[]]. inversion Hk; subst.
    apply Hn. apply in_map; exact Hy. }
  induction l as [|x t IH]; intros ND Ha; [destruct Ha|].
  inversion ND as [|? ? Hn NDt]; subst. cbn [flat_map].
  destruct Ha as [Ha|Ha].
  - subst x. destruct (c a).
    + destruct (F a) as [|p ps] eqn:Ep.
      * simpl. apply (dlook_not_key Z.eqb Zeqb_ok). apply NK. exact Hn.
      * unfold dlook. simpl. rewrite Z.eqb_refl. reflexivity.
    + simpl. apply (dlook_not_key Z.eqb Zeqb_ok). apply NK. exact Hn.
  - assert (Ne : Z.eqb (idx a) (idx x) = false).
    { apply Z.eqb_neq. intro E. apply Hn. rewrite <- E. apply in_map; exact Ha. }
    destruct (c x); [destruct (F x)|]; simpl; try (apply IH; assumption).
    unfold dlook. simpl. rewrite Ne. apply IH; assumption.
Qed.

Lemma inb_swap x c1 c2 : inb x [c1; c2] = inb x [c2; c1].
Proof. unfold inb; simpl. destruct (String.eqb x c1), (String.eqb x c2); reflexivity. Qed.
Lemma spec_atoms_swap close obb exh s c1 c2 c :
  spec_atoms close obb exh s [c1; c2] c = spec_atoms close obb exh s [c2; c1] c.
Proof.
  unfold spec_atoms. f_equal. apply filter_ext. intro a. unfold contact_atomb. f_equal.
  apply existsb_ext'. intro b. rewrite inb_swap. reflexivity.
Qed.

Lemma swap_transposes close obb exh s c1 c2 :
  symmetric close -> wf s -> c1 <> c2 -> present s c1 -> present s c2 ->
  exists A1 A2 pm12 pm21,
    get_contact_atoms close obb exh s false c1 c2 false = Ok ([(c1, A1); (c2, A2)], pm12) /\
    get_contact_atoms close obb exh s false c2 c1 false = Ok ([(c2, A2); (c1, A1)], pm21) /\
    (forall k, In k (map fst pm12) \/ In k (map fst pm21) -> exists a, In a s /\ idx a = k) /\
    forall a b, In a s -> In b s ->
      (In (idx b) (dlook Z.eqb (idx a) pm12) <-> In (idx a) (dlook Z.eqb (idx b) pm21)).
Proof.
  intros Sy W N H1 H2.
  assert (ND12 : NoDup [c1; c2]) by (constructor; [intros [F|[]]; apply N; symmetry; exact F | constructor; [intros [] | constructor]]).
  assert (ND21 : NoDup [c2; c1]) by (constructor; [intros [F|[]]; apply N; exact F | constructor; [intros [] | constructor]]).
  exists (spec_atoms close obb exh s [c1; c2] c1), (spec_atoms close obb exh s [c1; c2] c2),
         (snd (final_state close obb exh s [c1; c2])), (snd (final_state close obb exh s [c2; c1])).
  split; [|split; [|split]].
  - rewrite (get_contact_atoms_eq close Sy obb exh s false c1 c2 W ND12); [reflexivity | simpl; lia|].
    intros c [E|[E|[]]]; subst; assumption.
  - rewrite (get_contact_atoms_eq close Sy obb exh s false c2 c1 W ND21); [|simpl; lia|].
    + unfold spec_atoms_dict; simpl. rewrite !(spec_atoms_swap close obb exh s c2 c1). reflexivity.
    + intros c [E|[E|[]]]; subst; assumption.
  - intros k [H|H].
    + destruct (pm_exact close obb exh s [c1; c2] W ND12) as [_ [K _]]. apply K; exact H.
    + destruct (pm_exact close obb exh s [c2; c1] W ND21) as [_ [K _]]. apply K; exact H.
  - intros a b Ha Hb.
    rewrite (pm_pairs_iff close obb exh s [c1; c2] a b W ND12 Ha Hb).
    rewrite (pm_pairs_iff close obb exh s [c2; c1] b a W ND21 Hb Ha).
    unfold contact_pair. rewrite (Sy b a). simpl.
    destruct (String.eqb (chain a) c1) eqn:Ea1; destruct (String.eqb (chain b) c2) eqn:Eb2;
    destruct (String.eqb (chain a) c2) eqn:Ea2; destruct (String.eqb (chain b) c1) eqn:Eb1;
    rewrite ?String.eqb_eq, ?String.eqb_neq in *; simpl; intuition (try congruence; try contradiction).
Qed.

(* all chains at once *)
Lemma allchains_atoms_exact close obb exh s c1 c2 :
  symmetric close -> wf s -> (2 <= List.length (get_chains s))%nat ->
  exists pm, get_contact_atoms close obb exh s true c1 c2 false =
             Ok (spec_atoms_dict close obb exh s (get_chains s), pm).
Proof.
  intros Sy W L. eexists.
  apply (get_contact_atoms_eq close Sy obb exh s true c1 c2 W).
  - apply get_chains_NoDup.
  - exact L.
  - intros c Hc. apply get_chains_In; exact Hc.
Qed.

Lemma allchains_pairs_exact close obb exh s c1 c2 ic pm :
  symmetric close -> wf s -> (2 <= List.length (get_chains s))%nat ->
  get_contact_atoms close obb exh s true c1 c2 false = Ok (ic, pm) ->
  let cs := get_chains s in
  (* one entry per atom that has partners, never an empty entry *)
  NoDup (map fst pm) /\ (forall k l, In (k, l) pm -> l <> [] /\ exists a, In a s /\ idx a = k) /\
  (* the entry of atom a is a permutation of its specified partner list *)
  (forall a, In a s -> Permutation (dlook Z.eqb (idx a) pm) (dlook Z.eqb (idx a) (spec_pairs close obb exh s cs))) /\
  (* every contacting pair of atoms of two different chains exactly once, under the atom of the earlier chain *)
  (forall a b, In a s -> In b s -> (In (idx b) (dlook Z.eqb (idx a) pm) <-> contact_pair close obb exh s cs a b)) /\
  (forall a, In a s -> NoDup (dlook Z.eqb (idx a) pm)).
Proof.
  intros Sy W L E cs.
  assert (ND : NoDup cs) by apply get_chains_NoDup.
  rewrite (get_contact_atoms_eq close Sy obb exh s true c1 c2 W ND L) in E
    by (intros c Hc; apply get_chains_In; exact Hc).
  inversion E; subst ic pm. clear E.
  destruct (pm_exact close obb exh s cs W ND) as [[NDk NE] [K Pm]].
  split; [exact NDk | split; [|split; [|split]]].
  - intros k l H. split.
    + apply (NE k l). apply (In_dget Z.eqb Zeqb_ok); assumption.
    + apply K. apply (in_map fst) in H. exact H.
  - intros a Ha. eapply Permutation_trans; [apply Pm; exact Ha|].
    unfold spec_pairs.
    rewrite (dlook_flat_single (fun x => (inb (chain x) cs && passes obb exh x)%bool)
               (fun x => partners close obb exh s cs x) s a (wf_NoDup s W) Ha).
    apply Permutation_refl.
  - intros a b Ha Hb. apply pm_pairs_iff; assumption.
  - intros a Ha. apply pm_values_NoDup; assumption.
Qed.

(* ================================================================== *)
(* instance: the executable distance test over Q                        *)
Lemma spec_atoms_dict_ext near near' obb exh s cs :
  (forall a b, near a b = near' a b) -> spec_atoms_dict near obb exh s cs = spec_atoms_dict near' obb exh s cs.
Proof.
  intro H. unfold spec_atoms_dict, spec_atoms. apply map_ext. intro c. f_equal. f_equal.
  apply filter_ext. intro a. unfold contact_atomb. f_equal. apply existsb_ext'. intro b. rewrite H. reflexivity.
Qed.
Lemma spec_pairs_ext near near' obb exh s cs :
  (forall a b, near a b = near' a b) -> spec_pairs near obb exh s cs = spec_pairs near' obb exh s cs.
Proof.
  intro H. unfold spec_pairs. apply flat_map_ext. intro a.
  assert (E : partners near obb exh s cs a = partners near' obb exh s cs a).
  { unfold partners. f_equal. apply filter_ext. intro b. unfold partnerb. rewrite H. reflexivity. }
  rewrite E. reflexivity.
Qed.

Lemma two_chain_exact_Q cutoff obb exh s c1 c2 :
  wf s -> c1 <> c2 -> present s c1 -> present s c2 ->
  get_contact_atoms (closeQ cutoff) obb exh s false c1 c2 false =
  Ok (spec_atoms_dict (withinb cutoff) obb exh s [c1; c2], spec_pairs (withinb cutoff) obb exh s [c1; c2]).
Proof.
  intros W N H1 H2.
  rewrite (two_chain_exact (closeQ cutoff) obb exh s c1 c2 (closeQ_sym cutoff) W N H1 H2).
  rewrite (spec_atoms_dict_ext _ _ obb exh s [c1; c2] (closeQ_withinb cutoff)).
  rewrite (spec_pairs_ext _ _ obb exh s [c1; c2] (closeQ_withinb cutoff)). reflexivity.
Qed.

(* an atom pair at exactly the cutoff distance is a contact; the decision is "distance <= cutoff" *)
Lemma cutoff_inclusive (c : Q) a b : (0 <= c)%Q -> (sqdist a b == c * c)%Q -> closeQ c a b = true.
Proof. intros H E. apply closeQ_within. split; [exact H | rewrite E; apply Qle_refl]. Qed.
Lemma cutoff_decision (c : Q) a b : closeQ c a b = true <-> within c a b.
Proof. apply closeQ_within. Qed.
