(* Proofs_forms.v — C01: the table is identical whichever accepted container carries the same text *)
From Coq Require Import Lia.
From Verif Require Import PyLib ModelTypes Generated_parse Model_parse Spec_parse Proofs_text Proofs_parse Proofs_numtext Proofs_zone Model_export Model_store Proofs_store.
Open Scope string_scope.

(* a pattern without newline is a prefix of l ++ "\n" ++ r  exactly when it is a prefix of l followed by anything:
   the two record prefixes "ATOM" and "ENDMDL" see the same thing on a line with or without its terminator *)
Lemma prefix_app_nl p : nonl p = true -> forall l r, prefix p (l ++ String nl r) = prefix p l.
Proof.
  induction p as [|c p IH]; intros Hp l r; [destruct l; reflexivity|].
  cbn in Hp. apply andb_prop in Hp. destruct Hp as [Hc Hp]. apply negb_true_iff in Hc.
  destruct l as [|d l]; cbn.
  - destruct (ascii_dec c nl) as [E|N]; [|reflexivity]. subst c. rewrite Ascii.eqb_refl in Hc. discriminate Hc.
  - destruct (ascii_dec c d); [apply IH; exact Hp | reflexivity].
Qed.

Lemma upto_nl_app l r : nonl l = true -> upto_nl (l ++ String nl r) = l.
Proof.
  induction l as [|c t IH]; cbn; intro H.
  - reflexivity.
  - apply andb_prop in H. destruct H as [A B]. apply negb_true_iff in A. rewrite A, (IH B). reflexivity.
Qed.

(* the record loop only looks at the two prefixes and at the text before the first newline *)
Lemma parse_lines_cons_nl l r t n : nonl l = true ->
  parse_lines ((l ++ String nl r) :: t) n = parse_lines (l :: t) n.
Proof.
  intro H. cbn [parse_lines]. unfold startswith.
  assert (A : nonl atom_prefix_src = true) by reflexivity.
  assert (B : nonl endmdl_prefix_src = true) by reflexivity.
  rewrite (prefix_app_nl _ A l r), (prefix_app_nl _ B l r), (upto_nl_app l r H), (upto_nl_nonl l H). reflexivity.
Qed.

Lemma nonl_rev s : nonl (rev_str "" s) = nonl s.
Proof.
  induction s as [|c t IH]; cbn; [reflexivity|].
  rewrite (rev_str_app (String c "")), nonl_app, IH. cbn. rewrite andb_true_r. apply andb_comm.
Qed.

Lemma parse_lines_tail_congr x A B :
  (forall m, parse_lines A m = parse_lines B m) -> forall n, parse_lines (x :: A) n = parse_lines (x :: B) n.
Proof.
  intros H n. cbn [parse_lines].
  destruct (startswith atom_prefix_src x); [rewrite (H n); reflexivity|].
  destruct (startswith endmdl_prefix_src x); apply H.
Qed.

(* readlines(text) and text.split(newline) feed the record loop the same records: they differ only by the
   line terminators and by a possible final empty piece, neither of which the loop looks at *)
Lemma parse_lines_readlines_split : forall s cur n, nonl cur = true ->
  parse_lines (readlines_aux cur s) n = parse_lines (split_nl_aux cur s) n.
Proof.
  induction s as [|c t IH]; intros cur n Hc.
  - cbn [readlines_aux split_nl_aux]. destruct cur as [|d u]; reflexivity.
  - cbn [readlines_aux split_nl_aux]. destruct (Ascii.eqb c nl) eqn:E.
    + cbn [rev_str]. rewrite (rev_str_app (String c "")). apply Ascii.eqb_eq in E. subst c.
      rewrite parse_lines_cons_nl by (rewrite nonl_rev; exact Hc).
      apply parse_lines_tail_congr. intro m. apply IH. reflexivity.
    + apply IH. cbn. rewrite E. exact Hc.
Qed.

Theorem forms_agree_text txt n :
  parse_lines (readlines txt) n = parse_lines (split_nl txt) n.
Proof. apply parse_lines_readlines_split. reflexivity. Qed.

(* the seven containers: path string / Path object read the file with readlines; a whole-file str
   or bytes (when recognised as content) is split at newlines; a list or ndarray of lines with or
   without their terminators.  All give the same table. *)
Theorem forms_agree txt :
  parse (InText FPath txt) = parse (InText FPathObj txt) /\
  (Nat.ltb 3 (count_sub (String nl "ATOM ") txt) = true ->
     parse (InText FStr txt) = parse (InText FPath txt) /\ parse (InText FBytes txt) = parse (InText FPath txt)) /\
  (forall f, split_nl txt <> [] -> parse (InLines f (split_nl txt)) = parse (InText FPath txt)) /\
  (forall f, readlines txt <> [] -> parse (InLines f (readlines txt)) = parse (InText FPath txt)).
Proof.
  unfold parse. cbn [lines_of bind]. split; [reflexivity|]. split; [|split].
  - intro H. rewrite H. cbn [bind]. rewrite forms_agree_text. split; reflexivity.
  - intros f Hne. destruct (split_nl txt) as [|l t] eqn:E; [contradiction|].
    destruct f; cbn [lines_of bind]; rewrite <- E, forms_agree_text; reflexivity.
  - intros f Hne. destruct (readlines txt) as [|l t] eqn:E; [contradiction|].
    destruct f; cbn [lines_of bind]; reflexivity.
Qed.
